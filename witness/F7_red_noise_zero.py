"""F7 (C17): red_noise.get_series(0) corrupts the carried filter state."""
import sys, numpy as np
from speckit.noise import red_noise
a = red_noise(10.0, 0.1, init_filter=False, seed=3); b = red_noise(10.0, 0.1, init_filter=False, seed=3)
one = a.get_series(13)
parts = np.concatenate([b.get_series(5), b.get_series(0), b.get_series(8)])
ok = np.array_equal(one, parts)
print("chunked [5,0,8] == single 13:", ok)
sys.exit(0 if ok else 1)
