"""F10 (C02,C03): new_ltf_plan bmin branch breaks r*L=fs and single-segment rule; ZeroDivisionError via dftlen_crossover=0."""
import sys, numpy as np
from speckit.schedulers import new_ltf_plan
bad = 0
p = new_ltf_plan(N=33, fs=1.0, olap=0.0, bmin=2.5, Lmin=1, Jdes=1, Kdes=1)
dev = np.max(np.abs(p["r"] * p["L"] - 1.0)); print("max |r*L-fs| =", dev)
if dev > 1e-12: bad += 1
one = [(int(L), int(K)) for L, K in zip(p["L"], p["K"]) if K == 1 and L != 33]; print("K==1 with L!=N:", one[:3])
if one: bad += 1
try:
    new_ltf_plan(N=33, fs=1.0, olap=0.0, bmin=1.5, Lmin=1, Jdes=5, Kdes=1)
except ZeroDivisionError as e:
    print("ZeroDivisionError:", e); bad += 1
sys.exit(1 if bad else 0)
