"""F5 (C09,C15): GyySx != Gyy*(1-coh) when the coupling has a phase/delay."""
import sys, numpy as np
from speckit import compute_spectrum
from speckit.systems import SISO_optimal_spectral_analysis
rng = np.random.default_rng(0); N = 20000
x = rng.normal(size=N); y = np.roll(x, 7) + 0.3 * rng.normal(size=N)
r = compute_spectrum([x, y], 1.0, Jdes=60, win="hann", scheduler="ltf")
ref = r.Gyy * (1 - r.coh)
ratio = np.max(np.abs(r.GyySx - ref) / r.Gyy)
print("max rel deviation of GyySx from Gyy(1-coh): %.3g" % ratio)
f, asd = SISO_optimal_spectral_analysis(x, y, 1.0, Jdes=60, win="hann", scheduler="ltf")
ratio2 = np.max(np.abs(asd**2 - ref) / r.Gyy)
print("SISO residual^2 vs Gyy(1-coh): %.3g" % ratio2)
sys.exit(1 if (ratio > 1e-6 or ratio2 > 1e-6) else 0)
