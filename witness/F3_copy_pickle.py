"""F3 (C20): copy/deepcopy/pickle of a SpectrumResult -> RecursionError."""
import sys, copy, pickle, numpy as np
from speckit import compute_spectrum
r = compute_spectrum(np.random.default_rng(0).normal(size=2000), 1.0, Jdes=50, win="hann", scheduler="ltf")
bad = 0
for name, op in (("copy", copy.copy), ("deepcopy", copy.deepcopy), ("pickle", lambda o: pickle.loads(pickle.dumps(o)))):
    try:
        r2 = op(r)
        assert np.array_equal(r2.Gxx, r.Gxx) and np.array_equal(r2.f, r.f)
    except RecursionError as e:
        print(name, "-> RecursionError"); bad += 1
sys.exit(1 if bad else 0)
