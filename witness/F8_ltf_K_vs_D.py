"""F8 (C02): ltf_plan reports K from nseg but builds D from averages."""
import sys, numpy as np
from speckit.schedulers import ltf_plan
from speckit import SpectrumAnalyzer
p = ltf_plan(N=169, fs=1.0, olap=0.1, bmin=1.0, Lmin=52, Jdes=100, Kdes=10)
mism = [(j, int(p["K"][j]), len(p["D"][j])) for j in range(p["nf"]) if p["K"][j] != len(p["D"][j])]
print("bins with K != len(D):", mism[:5])
try:
    SpectrumAnalyzer(np.zeros(169), 1.0, olap=0.1, Lmin=52, Jdes=100, Kdes=10, scheduler="ltf", win="hann").plan(); ok = True
except ValueError as e:
    print("plan() raised:", str(e)[:90]); ok = False
sys.exit(0 if (ok and not mism) else 1)
