"""F1 (C01,C07): NumPy csd fallbacks return conj(X)*Y; Numba returns X*conj(Y)."""
import sys, numpy as np
from speckit.core import (_stats_win_only_csd, _stats_win_only_csd_np, _stats_detrend0_csd, _stats_detrend0_csd_np,
                          _stats_poly_csd, _stats_poly_csd_np, _build_Q)
rng = np.random.default_rng(1); N = 400; L = 64
x = rng.normal(size=N); y = np.roll(x, 3) + 0.1 * rng.normal(size=N)
starts = np.array([0, 50, 100, 336], dtype=np.int64); w = np.hanning(L); om = 2 * np.pi * 5.3 / L
bad = 0
for nb, npf, extra in ((_stats_win_only_csd, _stats_win_only_csd_np, ()), (_stats_detrend0_csd, _stats_detrend0_csd_np, ()),
                       (_stats_poly_csd, _stats_poly_csd_np, (_build_Q(L, 2),))):
    a = nb(x, y, starts, L, w, om, *extra); b = npf(x, y, starts, L, w, om, *extra)
    # direct definition X = sum w (x-trend) e^{-i om n}
    print(npf.__name__, "numba mu_i=%.6g numpy mu_i=%.6g" % (a[3], b[3]))
    if not np.isclose(a[3], b[3], rtol=1e-9, atol=1e-12): bad += 1
sys.exit(1 if bad else 0)
