"""F9 (C02,C04): no N-L+1 cap on the number of averages -> duplicate / out-of-range starts."""
import sys, numpy as np
from speckit.schedulers import ltf_plan, vectorized_ltf_plan, new_ltf_plan
bad = 0
for fn in (ltf_plan, vectorized_ltf_plan, new_ltf_plan):
    p = fn(N=33, fs=1.0, olap=0.9, bmin=1.0, Lmin=1, Jdes=1, Kdes=1)
    for j in range(len(p["f"])):
        d = np.asarray(p["D"][j]); L = int(p["L"][j])
        if (np.diff(d) <= 0).any() or d[-1] > 33 - L or len(d) > 33 - L + 1:
            print(fn.__name__, "bin", j, "L", L, "K", len(d), "last", d[-1], "dups", int((np.diff(d) <= 0).sum())); bad += 1; break
sys.exit(1 if bad else 0)
