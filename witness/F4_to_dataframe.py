"""F4 (C20): to_dataframe raises for single-bin results and uniform-K plans."""
import sys, numpy as np
from speckit import SpectrumAnalyzer
x = np.random.default_rng(0).normal(size=4000)
bad = 0
an = SpectrumAnalyzer(x, 1.0, win="hann")
try:
    df = an.compute_single_bin(0.1, L=500).to_dataframe(); assert len(df) == 1
except Exception as e:
    print("single-bin:", type(e).__name__, str(e)[:80]); bad += 1
def sched(**kw):  # uniform-K plan from a custom scheduler
    N = kw["N"]; L = N // 4; D = [np.array([0, L, 2 * L, N - L])] * 3
    f = np.array([0.05, 0.1, 0.2]); r = np.full(3, kw["fs"] / L)
    return dict(f=f, r=r, b=f / r, L=np.full(3, L), K=np.full(3, 4), navg=np.full(3, 4), D=D, O=np.zeros(3))
try:
    df = SpectrumAnalyzer(x, 1.0, win="hann", scheduler=sched).compute().to_dataframe(); assert len(df) == 3
except Exception as e:
    print("uniform-K:", type(e).__name__, str(e)[:80]); bad += 1
sys.exit(1 if bad else 0)
