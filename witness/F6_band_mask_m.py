"""F6 (C05): band-limited plan keeps a full-length 'm' field."""
import sys, numpy as np
from speckit import SpectrumAnalyzer
x = np.random.default_rng(0).normal(size=5000)
bad = 0
for s in ("ltf", "lpsd", "vectorized_ltf", "new_ltf"):
    p = SpectrumAnalyzer(x, 1.0, Jdes=80, win="hann", scheduler=s, band=(0.05, 0.2)).plan()
    if len(p["m"]) != len(p["f"]) or not np.allclose(p["m"], p["b"]):
        print(s, "len(m)=%d len(f)=%d" % (len(p["m"]), len(p["f"]))); bad += 1
sys.exit(1 if bad else 0)
