"""F2 (C13): caller's C-contiguous float64 array is sanitised in place."""
import sys, numpy as np
from speckit import SpectrumAnalyzer
bad = 0
a = np.ones(256); a[7] = np.nan; a[9] = np.inf
SpectrumAnalyzer(a, 1.0)
if not (np.isnan(a[7]) and np.isinf(a[9])): print("1-D caller array modified:", a[7], a[9]); bad += 1
b = np.ones((2, 256)); b[1, 5] = np.nan
SpectrumAnalyzer(b, 1.0)
if not np.isnan(b[1, 5]): print("2xN caller array modified:", b[1, 5]); bad += 1
sys.exit(1 if bad else 0)
