#!/bin/bash
# usage: seedbatch.sh "C02/1:C02 C02/2:C02 ..."   (runs in parallel)
for item in $1; do
  sd=${item%%:*}; pid=${item##*:}
  ( out=$(python3 /verif/tools/seedtest.py /tmp/seed_out/$sd/patch.diff $pid 2>&1 | cut -c1-300 | head -4); echo "== $sd -> $pid"; echo "$out" ) &
done
wait
