#!/bin/bash
# run every claimed check in parallel on /repo's working tree; prints one line per property; exit 1 if any is non-zero
tier=${1:-quick}; rc=0
tmp=$(mktemp -d)
for p in $(python3 -c "import json;print(' '.join(c['property_id'] for c in json.load(open('/verif/MANIFEST.json'))['checks']))"); do
  ( cd /verif && python3 check $p --tier $tier > $tmp/$p.log 2>&1; echo "$p exit $? $(tail -1 $tmp/$p.log | cut -c1-160)" ) &
done
wait
rm -rf $tmp
