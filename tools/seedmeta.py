#!/usr/bin/env python3
"""developer tool: bookkeeping of the seeded changes kept under /verif/seeded.
  seedmeta.py save <seed-root> <round> <confirm.jsonl> <matrix.json>   copy confirmed seeds <seed-root>/<PID>/<n> to /verif/seeded/<PID>-r<round>-<n>
  seedmeta.py refresh <matrix.json>                                      update detected_by / own_check_* of every kept seed from a matrix over /verif/seeded
  seedmeta.py table <round>                                              print the DESIGN.md table rows of one round
Nothing here is used by a registered check."""
import json, os, shutil, sys

SEEDED = "/verif/seeded"


def verdicts(res, own):
    det = sorted(k for k, v in res.items() if isinstance(v, (list, tuple)) and v[0] == 1)
    unk = sorted(k for k, v in res.items() if isinstance(v, (list, tuple)) and v[0] == 2)
    o = res.get(own, (None, ""))
    return det, unk, o


def save(root, rnd, confirm, matrix):
    conf = {}
    for l in open(confirm):
        l = l.strip()
        if not l.startswith("{"): continue
        try: d = json.loads(l)
        except Exception: continue
        conf[d["seed"]] = d
    M = json.load(open(matrix))
    n = 0
    for pid in sorted(os.listdir(root)):
        for k in sorted(os.listdir(os.path.join(root, pid))):
            sd = os.path.join(root, pid, k); key = f"{pid}/{k}"
            if not os.path.exists(sd + "/patch.diff"): continue
            c = conf.get(key)
            if not c or c["apply"] != 0 or c["tests_exit"] != 0 or c["demo_clean_exit"] != 0 or c["demo_patched_exit"] == 0:
                print("NOT CONFIRMED", key, c); continue
            src = json.load(open(sd + "/meta.json")) if os.path.exists(sd + "/meta.json") else {}
            name = f"{pid}-r{rnd}-{k}"
            dst = os.path.join(SEEDED, name); os.makedirs(dst, exist_ok=True)
            shutil.copy(sd + "/patch.diff", dst + "/patch.diff"); shutil.copy(sd + "/demo.py", dst + "/demo.py")
            det, unk, o = verdicts(M.get(key, {}), pid)
            meta = {"id": name, "property": pid, "round": int(rnd), "summary": src.get("summary", ""), "needs": src.get("needs", ""),
                    "author": "fresh sub-agent given only the property text, one-line summaries of the earlier rounds' changes and its own scratch worktree",
                    "confirmed": {"repo_head": c["head"], "worktree": f"/tmp/wt/{pid} (scratch, removed)",
                                  "ran": ["git apply patch.diff -> exit 0",
                                          f"/venv/bin/python -m pytest -q -p no:cacheprovider --timeout=900 -n 4 (patch applied) -> exit {c['tests_exit']}: {c['tests']}",
                                          f"/venv/bin/python demo.py on the clean tree -> exit {c['demo_clean_exit']}",
                                          f"/venv/bin/python demo.py with the patch -> exit {c['demo_patched_exit']}: {c['demo_output']}"]},
                    "detected_by": det, "also_detected_by": [p for p in det if p != pid], "unknown_in": unk,
                    "own_check_exit": o[0], "own_check_first_report": o[1],
                    "checks_run": "python3 /verif/check <PID> --repo <scratch copy with the patch> for all 20 properties (tools/seedmatrix.py)"}
            json.dump(meta, open(dst + "/meta.json", "w"), indent=1)
            n += 1
    print("saved", n)


def refresh(matrix):
    M = json.load(open(matrix))
    for name in sorted(os.listdir(SEEDED)):
        mp = os.path.join(SEEDED, name, "meta.json")
        if not os.path.exists(mp) or name not in M: continue
        meta = json.load(open(mp)); pid = meta.get("property", name[:3])
        det, unk, o = verdicts(M[name], pid)
        meta["detected_by"] = det; meta["also_detected_by"] = [p for p in det if p != pid]; meta["unknown_in"] = unk
        meta["own_check_exit"] = o[0]; meta["own_check_first_report"] = o[1]
        json.dump(meta, open(mp, "w"), indent=1)
        if o[0] != 1: print("own check does not fire:", name, o[0], "others:", det)


def table(rnd):
    import re
    for name in sorted(os.listdir(SEEDED)):
        mp = os.path.join(SEEDED, name, "meta.json")
        if not os.path.exists(mp): continue
        meta = json.load(open(mp))
        if str(meta.get("round", 1)) != str(rnd): continue
        s = " ".join(meta.get("summary", "").split()).replace("|", "/")
        s = s[:150] + ("…" if len(s) > 150 else "")
        rep = meta.get("own_check_first_report", "") or ""
        m = re.search(r"rule=(\S+)", rep)
        rule = m.group(1) if (m and meta.get("own_check_exit") == 1) else ("— (UNKNOWN)" if meta.get("own_check_exit") == 2 else "— (silent)")
        print(f"| {name} | {s} | {rule} | {', '.join(meta.get('also_detected_by', [])) or '—'} |")


if __name__ == "__main__":
    {"save": save, "refresh": refresh, "table": table}[sys.argv[1]](*sys.argv[2:])
