#!/usr/bin/env python3
"""regenerate MANIFEST.json from the claims table below (developer tool)."""
import json, os
V = os.path.dirname(os.path.dirname(os.path.abspath(__file__)))
CLAIMS = {
 "C01": ("Decides, for all inputs at once and in exact arithmetic, that each of the 18 backend kernels (Numba, NumPy, CUDA incl. device code no test here can run) computes the windowed-DFT statistics of the property (sample form, trend, transform convention incl. sign of Im, mean/scatter reduction, every K regime), that the CUDA launch grid covers all segments, the detrend basis is degrees 0..order of one variable and the data path stays double precision. Does not decide floating-point rounding.",
         "abstract interpretation of the kernels to algebraic normal forms (sums with binders, unit phasors) + structural lemmas L1/L2/L17"),
 "C02": ("Decides, on every path of each scheduler's decision tree (branch conditions opaque), that K, navg and the number of generated starts are one value, that K = min(nearest(1+(N-L)/((1-olap)L)), N-L+1) of the stored L (pigeonhole cap), that K=1 implies L=N (the single-segment test was made on the very L that is stored), that starts are nearest(t(N-L)/(K-1)) resp. [0], that no zero-initialised loop variable divides before assignment; and in the analyzer that a bounds check on the very (starts, L, N) dominates every kernel call and plan() rejects malformed scheduler output. Declines max(1,Lmin)<=L<=N and totality over all configurations (interval reasoning over floats). One recorded finding (new_ltf_plan bmin branch).",
         "path enumeration by abstract interpretation (loop bodies summarised once) + normal-form identities per path + dominance of assumed guards"),
 "C03": ("Decides on every path: stored r times stored L = fs, next f = f + r, b = f/r (m = b), first f = bmin*fs/N, loop continues only while f < fs/2 and stores the tested f, the bmin cap tests the resolution actually selected, lpsd_plan = ltf_plan with bmin:=1, Lmin:=1. Declines strict monotonicity and the quantitative 'not below bmin by more than the rounding of L' bound. One recorded finding (new_ltf_plan bmin branch: r*L != fs).",
         "path enumeration by abstract interpretation + normal-form identities per path"),
 "C04": ("Decides per path the count formula with nearest-integer rounding and cap, the start generator, the reported overlap (closed form or literal mean), the log-spacing constants by value and the three-way resolution compromise (observed through the stored L and its tests), that an explicitly requested overlap is used as given, and that a forced bin count yields exactly that count or an error (search returns only under nf==target; plan() raises on None and uses the solved Jdes). Declines monotonicity of L and K, K>=Kdes where attainable and the 10% agreement between schedulers (numeric).",
         "path enumeration by abstract interpretation + guarded-return analysis of the Jdes search"),
 "C05": ("Decides the wiring between plan, window, kernel and result for every abstract configuration (72 dispatch configurations x argument roles, end-to-end assembly of compute(), band mask over every per-bin field and D, cache-key completeness, single-bin segmentation and fields). Kernel arithmetic itself is C01's; numerical equality of the estimate is declined.",
         "partial evaluation of the dispatchers / plan() / compute() by abstract interpretation; def-use slicing for memo keys"),
 "C06": ("Decides the calibration formulas (2/(fs*S2), ENBW=fs*S2/S1^2, ps, cs) and the three scaling laws as homogeneity degrees of every table cell's normal form. Declines the sinusoid identity ps=A^2/2 (numeric leakage).",
         "partial evaluation of the lazy attribute table + homogeneity typing of normal forms"),
 "C07": ("Decides the cross-term convention X*conj(Y) (incl. the sign of the imaginary part) on all 9 two-channel kernels, Hxy=conj(XY)/XX, cf_rad=angle(Hxy) and the routing of channels through every dispatch configuration; with lemma L1 this fixes the phase sign for a delayed output on every backend. Declines |H|=1 up to the edge effect.",
         "kernel normal forms + attribute-table partial evaluation + dispatch partial evaluation"),
 "C08": ("Decides that every kernel removes exactly {nothing, the segment mean, the projection on span Q} of the channel's own samples over exactly L samples, that Q spans degrees 0..order, and that order selects the kernel family with _build_Q(L, order) in every configuration; memoised bases keyed by (L, order). Declines the rounding-relative-to-trend bound.",
         "kernel normal forms + interpretation of _build_Q + dispatch partial evaluation"),
 "C09": ("Decides the defining identities (coh, ccoh, Gyx, conditioned spectra, GyySx=Gyy(1-coh), swap law, realness) on the code's own normal forms and, at kernel level on all backends, density alone = density in a pair, channel-swap symmetry and |XY|^2=XX*YY for one segment. The inequalities follow from Cauchy-Schwarz (trusted lemma) given the decided structure.",
         "attribute-table partial evaluation + kernel normal forms + alias/effect analysis for table purity"),
 "C10": ("Decides that all 12 deviation/error attributes are the textbook expressions, dev=estimate*error, deg=180/pi*rad, rad_error=mag_error*arcsin(u)/u, the -1/2 power in n, and that n is the plan's navg; no in-place effect on cached arrays. Declines the Monte-Carlo agreement.",
         "attribute-table partial evaluation, normal-form identities, read-set and alias analysis"),
 "C11": ("Decides M2 = population scatter about the mean (divisor K, 0 for K<2) in all 18 kernels and the mapping to XY_emp_var/dev and G{xx,xy}_emp_dev incl. applicability. Declines agreement with analytic errors for Gaussian data.",
         "kernel normal forms + attribute-table partial evaluation"),
 "C12": ("Narrow: decides the structural clauses only - alpha(psll) is the published cubic, alpha flows from psll on every Kaiser path, every kernel receives the DFT-even window kaiser(L+1, pi*alpha)[:-1] of its own L (also through caches), the window multiplies after detrending, fractional-bin frequency, double precision throughout. The dB figure itself is declined.",
         "normal-form comparison of the cubic, dispatch partial evaluation, memo-key slicing, dtype rule"),
 "C13": ("Decides that no in-place effect can reach the caller's array (may-alias + interprocedural effect summaries over __init__, the dispatch methods and all kernels), that for the layouts 2xN, Nx2, 2x2, 1-D channel c is row/column c of the input, that on the NaN/Inf path the channel views are views of the record sanitised with nan=posinf=neginf=0, that each guarded quotient is guarded by exactly its divisor with a zero fallback, that roots of cancelling differences are protected, and that the data path is float64. Declines dtype/stride independence of the numbers and underflow.",
         "alias/effect analysis over the call graph + abstract interpretation of __init__ + guard extraction from the attribute table"),
 "C14": ("Decides race freedom and schedule independence of all 6 prange loops and 6 CUDA kernels (own-slot stores, no loop-carried scalar/reduction, helpers write only thread-private arrays, serial reduction), purity of the lazy attribute table (no in-place effect on cached/raw arrays), that plan/compute/compute_single_bin write only {_plan_cache once, config['Jdes'] in plan} and never the stored record, and that thread-layer defaults precede the first import. BLAS threading of the NumPy fallback is not analysed.",
         "parallel-loop effect rules on the AST + alias/effect analysis + attribute read/write sets"),
 "C20": ("Decides all 88 table cells incl. the None matrix, component-wise interpolation over the result's own grid, that copy/pickle probes on a blank instance end in AttributeError (no recursion), that the ragged field D is stored with rank 1, and table purity. Declines value equality after a real pickle round trip.",
         "attribute-table partial evaluation, blank-instance partial evaluation, rank abstraction, alias analysis"),
}
NOT_YET = "check not built yet in this session (design in DESIGN.md section 3); not claimed until its check exists"
def main():
    props = [json.loads(l) for l in open(os.path.join(V, "properties.jsonl"))]
    checks = []; na = []
    for p in props:
        pid = p["id"]
        if pid in CLAIMS and os.path.exists(os.path.join(V, "sa", "props", pid.lower() + ".py")):
            text, tech = CLAIMS[pid]
            checks.append({"property_id": pid, "quick_cmd": f"python3 check {pid} --tier quick", "thorough_cmd": f"python3 check {pid} --tier thorough",
                           "evidence_file": f"/verif/evidence/{pid}.json", "replay_cmd_template": f"python3 check {pid} --replay {{path}}", "engine": "speckit-sa",
                           "level_claimed": {"category": "other", "text": text, "design_ref": f"DESIGN.md section 3, {pid}"},
                           "level_note": "trusted base: CPython ast; library-model rows (DESIGN.md Appendix B); hand lemmas L1-L17; exact arithmetic (floating point not modelled); opaque branch conditions are not interpreted",
                           "technique": "static analysis: " + tech})
        else:
            na.append({"property_id": pid, "reason": NA.get(pid, NOT_YET)})
    m = {"version": 1,
         "setup_cmd": "python3 -c \"import sys; sys.path.insert(0,'.'); import sa.absint, sa.kernels, sa.table, sa.dispatch, sa.alias; print('framework imports ok')\"",
         "hooks": {"guard": "SPECKIT_VERIF", "enable": "none needed: checks read /repo's working tree, no instrumentation", "baseline_off_cmd": "cd /repo && /venv/bin/python -m pytest -ra -q -p no:cacheprovider --timeout=900 --continue-on-collection-errors", "source_commits": [], "add_only": True},
         "engines": [{"name": "speckit-sa", "path": "/verif/sa", "serves_properties": [c["property_id"] for c in checks], "kind_free_text": "stdlib-only static analyser: source model, algebraic normal forms with binders, abstract interpreter with loop idioms, table/dispatch partial evaluation, alias/effect and race rules"}],
         "checks": checks,
         "notes": "Static analysis only (no execution of speckit, no solver). Nine genuine defects found by reading/analysis were repaired in /repo by 'fix:' commits (see known_findings.json 'fixed'). See DESIGN.md.",
         "not_applicable": na}
    json.dump(m, open(os.path.join(V, "MANIFEST.json"), "w"), indent=1)
    print(len(checks), "claimed;", len(na), "not applicable/yet")
NA = {}
if __name__ == "__main__": main()
