#!/usr/bin/env python3
"""run checks against a scratch copy of /repo/speckit with a seeded patch applied (developer tool).
usage: seedtest.py <patch.diff> <PID> [<PID>...]"""
import os, shutil, subprocess, sys, tempfile
def main():
    patch = os.path.abspath(sys.argv[1]); pids = sys.argv[2:]
    d = tempfile.mkdtemp(prefix="seed_")
    try:
        shutil.copytree("/repo/speckit", d + "/speckit", ignore=shutil.ignore_patterns("__pycache__"))
        r = subprocess.run(["patch", "-p1", "-s", "-i", patch], cwd=d, capture_output=True, text=True)
        if r.returncode != 0: print("PATCH FAILED", r.stdout, r.stderr); return 3
        res = {}
        for pid in pids:
            r = subprocess.run([sys.executable, "/verif/check", pid, "--repo", d], capture_output=True, text=True, env=dict(os.environ, VERIF_EVIDENCE_DIR=d + "/evidence"))
            out = [l for l in r.stdout.splitlines() if l.startswith(("VIOLATED", "ANALYSIS", "KNOWN"))]
            print(f"--- {pid}: exit {r.returncode}")
            for l in out[:4]: print("   ", l[:300])
            if r.returncode not in (0, 1, 2): print(r.stderr[-1500:])
            res[pid] = r.returncode
        return 0
    finally:
        shutil.rmtree(d)
sys.exit(main())
