#!/usr/bin/env python3
"""apply one textual edit to a scratch copy of /repo/speckit and run a check on it (developer tool)."""
import os, shutil, subprocess, sys, tempfile
def main():
    pid, rel, old, new = sys.argv[1:5]
    nth = int(sys.argv[5]) if len(sys.argv) > 5 else 0
    d = tempfile.mkdtemp(prefix="mut_")
    try:
        shutil.copytree("/repo/speckit", d + "/speckit", ignore=shutil.ignore_patterns("__pycache__"))
        p = os.path.join(d, rel); s = open(p).read()
        parts = s.split(old)
        if len(parts) - 1 <= nth: print("PATTERN NOT FOUND", len(parts) - 1); return 3
        s = old.join(parts[:nth + 1]) + new + old.join(parts[nth + 1:])
        open(p, "w").write(s)
        import ast; ast.parse(s)
        r = subprocess.run([sys.executable, "/verif/check", pid, "--repo", d], capture_output=True, text=True, env=dict(os.environ, VERIF_EVIDENCE_DIR=d + "/evidence"))
        out = [l for l in r.stdout.splitlines() if l.startswith(("VIOL", "ANALYSIS", "OK", "KNOWN"))]
        print("\n".join(l[:330] for l in out[:6])); print("exit", r.returncode)
        if r.returncode not in (0, 1, 2): print(r.stderr[-2000:])
    finally:
        shutil.rmtree(d)
main()
