#!/usr/bin/env python3
"""developer tool: AST mutation of the analysed modules; lists mutants on which no relevant check fires (survivors),
for manual triage (equivalent mutant vs. checker gap).  usage: automut.py <module.py> <count> [seed] [--only func_substr]"""
import ast, copy, os, random, shutil, subprocess, sys, tempfile, json
from concurrent.futures import ThreadPoolExecutor
REL = {"core.py": ["C01", "C07", "C08", "C09", "C11", "C12", "C13", "C14"], "core_cuda.py": ["C01", "C07", "C08", "C09", "C11", "C12", "C13", "C14"],
       "analysis.py": ["C05", "C06", "C07", "C08", "C09", "C10", "C11", "C12", "C13", "C14", "C15", "C20", "C19"], "schedulers.py": ["C02", "C03", "C04", "C10"],
       "utils.py": ["C12", "C04", "C02", "C05"], "noise.py": ["C17", "C18"], "dsp.py": ["C16", "C19"], "systems.py": ["C15"]}
SWAP_CALL = {"real": "imag", "imag": "real", "floor": "ceil", "ceil": "floor", "min": "max", "max": "min", "sin": "cos", "cos": "sin", "minimum": "maximum", "maximum": "minimum",
             "zeros": "ones", "sum": "mean", "mean": "sum", "sqrt": "abs"}
def sites(tree, only):
    out = []
    for fn in ast.walk(tree):
        if not isinstance(fn, (ast.FunctionDef,)): continue
        if only and only not in fn.name: continue
        for n in ast.walk(fn):
            if isinstance(n, ast.BinOp) and isinstance(n.op, (ast.Add, ast.Sub, ast.Mult, ast.Div)): out.append((fn.name, n, "binop"))
            elif isinstance(n, ast.Compare) and len(n.ops) == 1 and isinstance(n.ops[0], (ast.Lt, ast.LtE, ast.Gt, ast.GtE, ast.Eq, ast.NotEq)): out.append((fn.name, n, "cmp"))
            elif isinstance(n, ast.Constant) and isinstance(n.value, (int, float)) and not isinstance(n.value, bool): out.append((fn.name, n, "const"))
            elif isinstance(n, ast.Call) and isinstance(n.func, ast.Attribute) and n.func.attr in ("conj", "conjugate") and (n.args or True): out.append((fn.name, n, "dropconj"))
            elif isinstance(n, ast.Call) and ((isinstance(n.func, ast.Attribute) and n.func.attr in SWAP_CALL) or (isinstance(n.func, ast.Name) and n.func.id in SWAP_CALL)): out.append((fn.name, n, "swapcall"))
            elif isinstance(n, ast.Call) and len(n.args) >= 2 and all(isinstance(a, ast.Name) for a in n.args[:2]): out.append((fn.name, n, "swapargs"))
            elif isinstance(n, ast.UnaryOp) and isinstance(n.op, ast.USub): out.append((fn.name, n, "dropneg"))
            elif isinstance(n, ast.Subscript) and isinstance(n.slice, ast.Name) and isinstance(n.ctx, ast.Load): out.append((fn.name, n, "idx+1"))
            elif isinstance(n, ast.AugAssign): out.append((fn.name, n, "augop"))
    return out
def mutate(node, kind, rng):
    if kind == "binop":
        node.op = {ast.Add: ast.Sub, ast.Sub: ast.Add, ast.Mult: ast.Div, ast.Div: ast.Mult}[type(node.op)]()
    elif kind == "cmp":
        node.ops = [{ast.Lt: ast.LtE, ast.LtE: ast.Lt, ast.Gt: ast.GtE, ast.GtE: ast.Gt, ast.Eq: ast.NotEq, ast.NotEq: ast.Eq}[type(node.ops[0])]()]
    elif kind == "const":
        v = node.value
        node.value = (v + 1) if isinstance(v, int) else (v * 2 if v != 0 else 1.0)
    elif kind == "dropconj":
        if isinstance(node.func, ast.Attribute) and not node.args: return node.func.value
        if node.args: return node.args[0]
    elif kind == "swapcall":
        if isinstance(node.func, ast.Attribute): node.func.attr = SWAP_CALL[node.func.attr]
        else: node.func.id = SWAP_CALL[node.func.id]
    elif kind == "swapargs":
        node.args[0], node.args[1] = node.args[1], node.args[0]
    elif kind == "dropneg":
        return node.operand
    elif kind == "idx+1":
        node.slice = ast.BinOp(node.slice, ast.Add(), ast.Constant(1))
    elif kind == "augop":
        node.op = {ast.Add: ast.Sub, ast.Sub: ast.Add, ast.Mult: ast.Div, ast.Div: ast.Mult}.get(type(node.op), ast.Add)()
    return None
class Repl(ast.NodeTransformer):
    def __init__(s, target, new): s.t = target; s.new = new
    def generic_visit(s, node):
        for f, old in ast.iter_fields(node):
            if isinstance(old, list):
                for i, v in enumerate(old):
                    if v is s.t: old[i] = s.new
                    elif isinstance(v, ast.AST): s.generic_visit(v)
            elif isinstance(old, ast.AST):
                if old is s.t: setattr(node, f, s.new)
                else: s.generic_visit(old)
        return node
def one(job):
    idx, mod, src, pids = job
    d = tempfile.mkdtemp(prefix="automut_")
    try:
        shutil.copytree("/repo/speckit", d + "/speckit", ignore=shutil.ignore_patterns("__pycache__"))
        open(f"{d}/speckit/{mod}", "w").write(src)
        res = {}
        for pid in pids:
            r = subprocess.run([sys.executable, "/verif/check", pid, "--repo", d], capture_output=True, text=True, env=dict(os.environ, VERIF_EVIDENCE_DIR=d + "/ev"))
            res[pid] = r.returncode
            if r.returncode == 2:
                res["_msg"] = next((l for l in r.stdout.splitlines() if l.startswith("ANALYSIS")), "")[:260]
            if r.returncode == 1: break
        return idx, res
    finally:
        shutil.rmtree(d, ignore_errors=True)
def main():
    mod = sys.argv[1]; count = int(sys.argv[2]); seed = int(sys.argv[3]) if len(sys.argv) > 3 and sys.argv[3].isdigit() else 0
    only = sys.argv[sys.argv.index("--only") + 1] if "--only" in sys.argv else None
    rng = random.Random(seed)
    text = open(f"/repo/speckit/{mod}").read()
    base = ast.parse(text)
    all_sites = sites(base, only)
    picks = rng.sample(range(len(all_sites)), min(count, len(all_sites)))
    jobs = []; descr = {}
    for k, si in enumerate(picks):
        tree = copy.deepcopy(base)
        s2 = sites(tree, only)
        fn, node, kind = s2[si]
        before = ast.unparse(node)[:80]; line = getattr(node, "lineno", 0)
        new = mutate(node, kind, rng)
        if new is not None: Repl(node, new).generic_visit(tree)
        ast.fix_missing_locations(tree)
        try: src = ast.unparse(tree); compile(src, mod, "exec")
        except Exception: continue
        after = ast.unparse(new if new is not None else node)[:80]
        descr[k] = f"{mod}:{line} {fn} [{kind}] {before}  ->  {after}"
        jobs.append((k, mod, src, REL[mod]))
    surv = []
    with ThreadPoolExecutor(max_workers=6) as ex:
        for idx, res in ex.map(one, jobs):
            msg = res.pop("_msg", "")
            fired = [p for p, c in res.items() if c == 1]
            tag = "KILLED by " + fired[0] if fired else ("SURVIVED" + (" (unknown: " + ",".join(p for p, c in res.items() if c == 2) + ")" if any(c == 2 for c in res.values()) else ""))
            print(f"{tag:28s} {descr[idx]}" + (f"\n      {msg}" if msg and not fired else ""), flush=True)
            if not fired: surv.append(descr[idx])
    print(f"--- {len(jobs)} mutants, {len(surv)} survivors")
main()
