#!/bin/bash
# developer tool: confirm one seeded change in a scratch worktree of /repo (never in /repo itself)
# usage: confirm_seed.sh <PID> <n> <seed-root> ; prints one JSON line
pid=$1; n=$2; root=${3:-/tmp/seed_out}
wt=/tmp/wt/$pid
sd=$root/$pid/$n
head=$(git -C /repo rev-parse HEAD)
if [ ! -d $wt ]; then git -C /repo worktree add --detach -q $wt $head || exit 3; fi
cd $wt || exit 3
git checkout -q --detach $head 2>/dev/null; git checkout -q -- . ; git clean -fdq -e __pycache__
cp $sd/demo.py $wt/demo_seed.py
/venv/bin/python demo_seed.py > /tmp/confirm_${pid}_${n}_clean.log 2>&1; d0=$?
git apply $sd/patch.diff; ap=$?
/venv/bin/python -m pytest -q -p no:cacheprovider --timeout=900 -n 4 > /tmp/confirm_${pid}_${n}_tests.log 2>&1; t=$?
summary=$(tail -1 /tmp/confirm_${pid}_${n}_tests.log | tr -d '=' | sed 's/^ *//')
/venv/bin/python demo_seed.py > /tmp/confirm_${pid}_${n}_patched.log 2>&1; d1=$?
last=$(tail -3 /tmp/confirm_${pid}_${n}_patched.log | tr '\n"' ' .' | cut -c1-300)
git checkout -q -- . ; rm -f demo_seed.py; git clean -fdq -e __pycache__
echo "{\"seed\": \"$pid/$n\", \"head\": \"$head\", \"apply\": $ap, \"demo_clean_exit\": $d0, \"tests_exit\": $t, \"tests\": \"$summary\", \"demo_patched_exit\": $d1, \"demo_output\": \"$last\"}"
