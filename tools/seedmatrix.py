#!/usr/bin/env python3
"""developer tool: run checks against scratch copies of /repo/speckit with each seeded patch applied.
usage: seedmatrix.py <seed-root> [--all | --own] [--out FILE]   (seed-root/<PID>/<n>/patch.diff)"""
import os, shutil, subprocess, sys, tempfile, json, glob
from concurrent.futures import ThreadPoolExecutor
ALL = [f"C{i:02d}" for i in range(1, 21)]
def one(args):
    seed, patch, pids = args
    d = tempfile.mkdtemp(prefix="seedm_")
    res = {}
    try:
        shutil.copytree("/repo/speckit", d + "/speckit", ignore=shutil.ignore_patterns("__pycache__"))
        r = subprocess.run(["patch", "-p1", "-s", "-i", patch], cwd=d, capture_output=True, text=True)
        if r.returncode != 0: return seed, {"patch": "FAILED " + r.stdout[:200]}
        for pid in pids:
            r = subprocess.run([sys.executable, "/verif/check", pid, "--repo", d], capture_output=True, text=True, env=dict(os.environ, VERIF_EVIDENCE_DIR=d + "/evidence"))
            first = next((l for l in r.stdout.splitlines() if l.startswith(("VIOLATED", "ANALYSIS"))), "")
            res[pid] = (r.returncode, first[:260])
    finally:
        shutil.rmtree(d, ignore_errors=True)
    return seed, res
def main():
    root = sys.argv[1]; mode = "--own" if "--own" in sys.argv else "--all"
    out = sys.argv[sys.argv.index("--out") + 1] if "--out" in sys.argv else None
    jobs = []
    for p in sorted(glob.glob(root + "/C*/*/patch.diff")):
        parts = p.split("/"); seed = parts[-3] + "/" + parts[-2]
        jobs.append((seed, p, ALL if mode == "--all" else [parts[-3]]))
    if not jobs:      # flat layout <root>/<name>/patch.diff (neutral rewrites, /verif/seeded)
        for p in sorted(glob.glob(root + "/*/patch.diff")):
            name = p.split("/")[-2]
            jobs.append((name, p, ALL if mode == "--all" or not name[:3] in ALL else [name[:3]]))
    results = {}
    with ThreadPoolExecutor(max_workers=int(os.environ.get("SEEDM_WORKERS", "14"))) as ex:
        for seed, res in ex.map(one, jobs):
            results[seed] = res
            own = seed.split("/")[0][:3]
            fired = [k for k, v in res.items() if isinstance(v, tuple) and v[0] == 1]
            unk = [k for k, v in res.items() if isinstance(v, tuple) and v[0] == 2]
            print(f"{seed}: own={res.get(own, ('?',))[0]} fired={','.join(fired)} unknown={','.join(unk)}", flush=True)
    if out: json.dump(results, open(out, "w"), indent=1)
main()
