"""Floating-point sign analysis (E8): is an expression non-negative *as computed in IEEE arithmetic*, by construction?
Squares, absolute values, sums / products / means of non-negative floats and quotients by positive counts are
non-negative whatever the rounding; a difference of two non-negative aggregates is not (cancellation).
Flow-insensitive over one function (every assignment to a name must be non-negative); calls into the package are
followed through the returned tuple slot."""
import ast

NONNEG, ANY, CANCEL = "nonneg", "any", "cancel"
SQ_FUNCS = {"abs", "np.abs", "np.absolute", "np.square", "math.fabs", "np.hypot", "math.hypot"}
PASS_FUNCS = {"float", "np.mean", "np.sum", "np.float64", "np.sqrt", "math.sqrt", "np.asarray", "np.nanmean", "np.nansum", "sum"}
COUNT_FUNCS = {"len", "np.size"}
CLAMP = {"max", "np.maximum", "np.fmax"}


def _name(f):
    try: return ast.unparse(f)
    except Exception: return ""


class Signs:
    def __init__(s, repo, resolve):
        s.repo = repo; s.resolve = resolve; s.memo = {}

    def ret_slot(s, key, slot, depth=0):
        """sign of element `slot` of the value returned by function `key` -> (sign, witness node, witness key)."""
        mk = (key, slot)
        if mk in s.memo: return s.memo[mk]
        s.memo[mk] = (ANY, None, key)
        fn = s.repo.index[key]
        worst = (NONNEG, None, key); found = False
        for n in ast.walk(fn):
            if isinstance(n, ast.Return) and n.value is not None and s._owner(fn, n) is fn:
                found = True
                r = s._slot_of(n.value, slot, fn, key, depth)
                if r[0] != NONNEG: worst = r if worst[0] == NONNEG or r[0] == CANCEL else worst
        if not found: worst = (ANY, fn, key)
        s.memo[mk] = worst
        return worst

    def _owner(s, fn, node):
        """innermost function containing node (nested defs have their own returns)."""
        for f in ast.walk(fn):
            if isinstance(f, (ast.FunctionDef, ast.Lambda)) and f is not fn:
                if any(c is node for c in ast.walk(f)): return f
        return fn

    def _slot_of(s, v, slot, fn, key, depth):
        if isinstance(v, ast.Tuple) and len(v.elts) > slot:
            return s.sign(v.elts[slot], fn, key, depth)
        if isinstance(v, ast.Call):
            callee = s.resolve(key, v)
            if callee is not None and depth < 6:
                node = s.repo.index.get(callee)
                if isinstance(node, ast.ClassDef) or callee.endswith("BinStats"):
                    if len(v.args) > slot: return s.sign(v.args[slot], fn, key, depth)
                elif isinstance(node, ast.FunctionDef):
                    return s.ret_slot(callee, slot, depth + 1)
            if _name(v.func).split(".")[-1] == "BinStats" and len(v.args) > slot:
                return s.sign(v.args[slot], fn, key, depth)
        if isinstance(v, ast.Name):
            # a name bound to a tuple / call result
            worst = (NONNEG, None, key); seen = False
            for a in ast.walk(fn):
                if isinstance(a, ast.Assign) and any(isinstance(t, ast.Name) and t.id == v.id for t in a.targets):
                    seen = True
                    r = s._slot_of(a.value, slot, fn, key, depth)
                    if r[0] != NONNEG: worst = r
            if not seen:
                # a module-level constant tuple (e.g. the all-zero statistics returned for an empty segment list)
                mod = s.repo.mods.get(key.split("::")[0])
                for a in (mod.body if mod is not None else []):
                    tg = a.targets[0] if isinstance(a, ast.Assign) and len(a.targets) == 1 else a.target if isinstance(a, ast.AnnAssign) else None
                    if isinstance(tg, ast.Name) and tg.id == v.id and isinstance(getattr(a, "value", None), ast.Tuple) and len(a.value.elts) > slot:
                        return s.sign(a.value.elts[slot], fn, key, depth)
            return worst if seen else (ANY, v, key)
        return (ANY, v, key)

    def sign(s, e, fn, key, depth=0, stack=()):
        if isinstance(e, ast.Constant):
            return (NONNEG, None, key) if isinstance(e.value, (int, float)) and not isinstance(e.value, bool) and e.value >= 0 else (ANY, e, key)
        if isinstance(e, ast.IfExp):
            a = s.sign(e.body, fn, key, depth, stack); b = s.sign(e.orelse, fn, key, depth, stack)
            return a if a[0] != NONNEG else b
        if isinstance(e, ast.BinOp):
            if isinstance(e.op, ast.Pow):
                if isinstance(e.right, ast.Constant) and isinstance(e.right.value, int) and e.right.value % 2 == 0: return (NONNEG, None, key)
                a = s.sign(e.left, fn, key, depth, stack)
                return a
            if isinstance(e.op, ast.Mult):
                if ast.dump(e.left) == ast.dump(e.right): return (NONNEG, None, key)
                # Welford increment  d * (v - m)  with  d = v - m  taken before and the second factor after  m += d / n : the updated mean lies between
                # the old mean and v (also in floating point: the update is monotone), so both factors have the same sign
                for a_, b_ in ((e.left, e.right), (e.right, e.left)):
                    if isinstance(a_, ast.Name) and isinstance(b_, ast.BinOp) and isinstance(b_.op, ast.Sub) and isinstance(b_.right, ast.Name):
                        defs_ = [x for x in ast.walk(fn) if isinstance(x, ast.Assign) and len(x.targets) == 1 and isinstance(x.targets[0], ast.Name) and x.targets[0].id == a_.id]
                        if len(defs_) == 1 and isinstance(defs_[0].value, ast.BinOp) and isinstance(defs_[0].value.op, ast.Sub) and ast.dump(defs_[0].value.left) == ast.dump(b_.left) \
                                and isinstance(defs_[0].value.right, ast.Name) and defs_[0].value.right.id == b_.right.id:
                            upd = [x for x in ast.walk(fn) if isinstance(x, ast.AugAssign) and isinstance(x.op, ast.Add) and isinstance(x.target, ast.Name) and x.target.id == b_.right.id
                                   and isinstance(x.value, ast.BinOp) and isinstance(x.value.op, ast.Div) and isinstance(x.value.left, ast.Name) and x.value.left.id == a_.id]
                            if len(upd) == 1: return (NONNEG, None, key)
                a = s.sign(e.left, fn, key, depth, stack); b = s.sign(e.right, fn, key, depth, stack)
                return a if a[0] != NONNEG else b
            if isinstance(e.op, (ast.Add, ast.Div, ast.FloorDiv)):
                a = s.sign(e.left, fn, key, depth, stack); b = s.sign(e.right, fn, key, depth, stack)
                return a if a[0] != NONNEG else b
            if isinstance(e.op, ast.Sub):
                a = s.sign(e.left, fn, key, depth, stack); b = s.sign(e.right, fn, key, depth, stack)
                if a[0] == NONNEG and b[0] == NONNEG: return (CANCEL, e, key)
                return (ANY, e, key)
            return (ANY, e, key)
        if isinstance(e, ast.UnaryOp) and isinstance(e.op, ast.UAdd): return s.sign(e.operand, fn, key, depth, stack)
        if isinstance(e, ast.Call):
            nm = _name(e.func)
            if nm in SQ_FUNCS: return (NONNEG, None, key)
            if nm in COUNT_FUNCS: return (NONNEG, None, key)
            if nm in CLAMP and any(isinstance(a, ast.Constant) and isinstance(a.value, (int, float)) and a.value >= 0 for a in e.args):
                return (NONNEG, None, key)
            if nm in PASS_FUNCS and e.args: return s.sign(e.args[0], fn, key, depth, stack)
            if isinstance(e.func, ast.Attribute) and e.func.attr in ("mean", "sum", "item", "copy", "astype") and not nm.startswith(("np.", "math.")):
                return s.sign(e.func.value, fn, key, depth, stack)
            return (ANY, e, key)
        if isinstance(e, ast.Attribute) and e.attr in ("shape", "size"): return (NONNEG, None, key)
        if isinstance(e, ast.Subscript):
            if isinstance(e.value, ast.Attribute) and e.value.attr == "shape": return (NONNEG, None, key)
            return s.sign(e.value, fn, key, depth, stack)
        if isinstance(e, ast.Name):
            if e.id in stack: return (NONNEG, None, key)       # accumulation x = x + nonneg: decided by the other assignments
            worst = (NONNEG, None, key); seen = False
            for a in ast.walk(fn):
                tgt = None; val = None
                if isinstance(a, ast.Assign):
                    for t in a.targets:
                        if isinstance(t, ast.Name) and t.id == e.id: tgt = t; val = a.value
                        elif isinstance(t, ast.Subscript) and isinstance(t.value, ast.Name) and t.value.id == e.id: tgt = t; val = a.value
                        elif isinstance(t, ast.Tuple):
                            for i, el in enumerate(t.elts):
                                if isinstance(el, ast.Name) and el.id == e.id:
                                    seen = True
                                    r = s._slot_of(a.value, i, fn, key, depth)
                                    if r[0] != NONNEG: worst = r
                elif isinstance(a, ast.AugAssign) and (isinstance(a.target, ast.Name) and a.target.id == e.id or
                                                       isinstance(a.target, ast.Subscript) and isinstance(a.target.value, ast.Name) and a.target.value.id == e.id):
                    seen = True
                    if not isinstance(a.op, (ast.Add, ast.Mult)): worst = (ANY, a, key)
                    else:
                        r = s.sign(a.value, fn, key, depth, stack + (e.id,))
                        if r[0] != NONNEG: worst = r
                elif isinstance(a, ast.AnnAssign) and isinstance(a.target, ast.Name) and a.target.id == e.id and a.value is not None:
                    tgt = a.target; val = a.value
                if tgt is not None:
                    seen = True
                    if isinstance(val, ast.Call) and _name(val.func) in ("np.empty", "np.zeros", "np.empty_like", "np.zeros_like", "np.ones"): continue
                    r = s.sign(val, fn, key, depth, stack + (e.id,))
                    if r[0] != NONNEG: worst = r
            if not seen:
                # parameters / loop variables: unknown sign
                return (ANY, e, key)
            return worst
        return (ANY, e, key)
