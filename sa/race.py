"""E8 - parallel-loop race / determinism checker for numba prange loops and CUDA kernels."""
import ast

from .model import decorators, norm_stmt
from .alias import dotted
from .effects import Effects


def prange_loops(fn):
    out = []
    for n in ast.walk(fn):
        if isinstance(n, ast.For) and isinstance(n.iter, ast.Call):
            nm = dotted(n.iter.func) or ""
            if nm.split(".")[-1] in ("prange", "_prange"): out.append(n)
    return out


def is_parallel_njit(fn):
    for name, kws in decorators(fn):
        if name.split(".")[-1] in ("njit", "_njit", "jit") and kws.get("parallel") is True: return True
    return False


def is_cuda_kernel(fn):
    # a device function (cuda.jit(device=True)) is a helper inlined into the launching kernel's thread, not a kernel of its own
    return any(name in ("cuda.jit", "_cuda.jit", "numba.cuda.jit") and kws.get("device") is not True for name, kws in decorators(fn))


def _assigned(stmts):
    out = set()
    for st in stmts:
        for n in ast.walk(st):
            if isinstance(n, ast.Name) and isinstance(n.ctx, ast.Store): out.add(n.id)
    return out


def _loads(node):
    return [n.id for n in ast.walk(node) if isinstance(n, ast.Name) and isinstance(n.ctx, ast.Load)]


class BodyCheck:
    """checks one parallel body (prange loop body or CUDA kernel body) with induction variable j."""

    def __init__(s, key, body, jname, outside_arrays, E, rel, private=()):
        s.key = key; s.body = body; s.j = jname; s.E = E; s.rel = rel
        s.assigned = _assigned(body)
        s.outside = set(outside_arrays)
        s.private = set(private)       # arrays allocated inside the body (thread-private)
        s.problems = []                # (node, message)
        s.stores = 0
        s.resolve = E.resolver(key)

    def run(s):
        # thread-private arrays: names bound in the body to an allocation or a helper's fresh return
        for st in s.body:
            for n in ast.walk(st):
                if isinstance(n, ast.Assign) and len(n.targets) == 1 and isinstance(n.targets[0], ast.Name) and isinstance(n.value, ast.Call):
                    s.private.add(n.targets[0].id)
        s.walk(s.body, set())
        return s

    def index_is_j(s, sl):
        if isinstance(sl, ast.Name): return sl.id == s.j
        if isinstance(sl, ast.Tuple) and sl.elts: return isinstance(sl.elts[0], ast.Name) and sl.elts[0].id == s.j
        return False

    def check_expr_uses(s, node, defined):
        for nm in _loads(node):
            if nm in s.assigned and nm not in defined and nm != s.j:
                s.problems.append((node, f"'{nm}' is read before it is assigned in the same iteration: its value comes from another iteration "
                                         "(a loop-carried scalar / reduction inside the parallel region makes the result depend on how iterations are distributed over threads)"))

    def store(s, target, node, defined):
        base = target.value
        while isinstance(base, ast.Subscript): base = base.value
        if not isinstance(base, ast.Name): return
        s.stores += 1
        nm = base.id
        if nm in s.private and nm in s.assigned: return
        if not s.index_is_j(target.slice):
            s.problems.append((node, f"store into the shared array '{nm}' at index [{ast.unparse(target.slice)}], which is not the iteration's own slot [{s.j}]: "
                                     "iterations running on different threads overwrite each other's data"))

    def walk(s, stmts, defined):
        for st in stmts:
            if isinstance(st, ast.Assign):
                s.check_expr_uses(st.value, defined); s.calls(st.value, st)
                for t in st.targets:
                    if isinstance(t, ast.Name): defined.add(t.id)
                    elif isinstance(t, (ast.Tuple, ast.List)):
                        for e in t.elts:
                            if isinstance(e, ast.Name): defined.add(e.id)
                    elif isinstance(t, ast.Subscript):
                        s.check_expr_uses(t.slice, defined); s.store(t, st, defined)
            elif isinstance(st, ast.AugAssign):
                s.check_expr_uses(st.value, defined); s.calls(st.value, st)
                if isinstance(st.target, ast.Name):
                    if st.target.id not in defined:
                        s.problems.append((st, f"'{st.target.id}' is accumulated across iterations of the parallel loop ({norm_stmt(st)}): a reduction whose summation "
                                               "order depends on the thread schedule"))
                elif isinstance(st.target, ast.Subscript):
                    s.check_expr_uses(st.target.slice, defined); s.store(st.target, st, defined)
            elif isinstance(st, ast.Expr):
                s.check_expr_uses(st.value, defined); s.calls(st.value, st)
            elif isinstance(st, ast.If):
                s.check_expr_uses(st.test, defined)
                d1, d2 = set(defined), set(defined)
                s.walk(st.body, d1); s.walk(st.orelse, d2)
                defined |= (d1 & d2)
            elif isinstance(st, (ast.For, ast.While)):
                if isinstance(st, ast.For):
                    s.check_expr_uses(st.iter, defined)
                    if isinstance(st.target, ast.Name): defined.add(st.target.id)
                else:
                    s.check_expr_uses(st.test, defined)
                # sequential inner loop: values carried between its own iterations are fine if defined before it
                inner_defs = _assigned(st.body)
                d1 = set(defined)
                # names defined only inside the inner loop may be read at its top in the next inner iteration: still thread-private
                s.walk(st.body, d1 | {n for n in inner_defs if n in defined})
                defined |= set()   # definitions inside a loop are not definite afterwards
                d2 = set(defined)
                for n in inner_defs:
                    pass
            elif isinstance(st, ast.Return):
                if st.value is not None: s.check_expr_uses(st.value, defined)
            elif isinstance(st, (ast.With, ast.Try)):
                s.walk(st.body, defined)

    def calls(s, expr, node):
        for c in ast.walk(expr):
            if not isinstance(c, ast.Call): continue
            sm = s.resolve(c)
            if sm is None: continue
            for k in sm.get("writes_param", ()):
                idx = k - sm.get("self_offset", 0)
                if 0 <= idx < len(c.args):
                    a = c.args[idx]
                    base = a
                    while isinstance(base, (ast.Subscript, ast.Attribute)): base = base.value
                    if isinstance(base, ast.Name) and not (base.id in s.private and base.id in s.assigned):
                        s.problems.append((node, f"helper {sm['key'].split('::')[1]} writes into its argument '{ast.unparse(a)}', an array shared by all iterations"))


# ---------------------------------------------------------------------------- the thread count does not select the arithmetic
_THREAD_QUERIES = ("get_num_threads", "_get_num_threads", "cpu_count", "active_count", "get_thread_id", "NUMBA_NUM_THREADS", "NUMBA_DEFAULT_NUM_THREADS", "sched_getaffinity")
_THREAD_FIXTURE = '''
def k(x, starts):
    if starts.shape[0] < get_num_threads():
        return serial(x, starts)
    return parallel(x, starts)
'''


def _thread_selected_sites(mod):
    out = []
    # helpers of the module that return the thread / core count (possibly clamped or converted) are queries themselves
    queries = list(_THREAD_QUERIES)
    for _ in range(3):
        for fn in [n for n in ast.walk(mod) if isinstance(n, ast.FunctionDef)]:
            if fn.name in queries: continue
            tainted = set()
            for n in ast.walk(fn):
                if isinstance(n, ast.Assign) and any(t_ in ast.unparse(n.value) for t_ in queries):
                    tainted |= {t.id for t in n.targets if isinstance(t, ast.Name)}
            for n in ast.walk(fn):
                if isinstance(n, ast.Return) and n.value is not None and (any(t_ in ast.unparse(n.value) for t_ in queries) or any(isinstance(x, ast.Name) and x.id in tainted for x in ast.walk(n.value))):
                    # the count itself (an integer expression of it), not a statistic computed under it
                    if not any(isinstance(x, ast.Call) and ast.unparse(x.func).split(".")[-1] not in ("max", "min", "int", "len") + tuple(queries) for x in ast.walk(n.value)):
                        queries.append(fn.name); break
    _Q = tuple(queries)
    for fn in [n for n in ast.walk(mod) if isinstance(n, ast.FunctionDef)]:
        if fn.name in _Q: continue
        tainted = set()
        for n in ast.walk(fn):
            if isinstance(n, ast.Assign) and any(t_ in ast.unparse(n.value) for t_ in _Q):
                for t in n.targets:
                    if isinstance(t, ast.Name): tainted.add(t.id)
        for n in ast.walk(fn):
            test = n.test if isinstance(n, (ast.If, ast.IfExp, ast.While)) else None
            if test is None: continue
            src = ast.unparse(test)
            if any(t_ in src for t_ in _Q) or any(isinstance(x, ast.Name) and x.id in tainted for x in ast.walk(test)):
                # only a branch that selects the computation (returns, or calls other functions): picking a constant such as a chunk size by the
                # core count leaves the arithmetic alone (chunk-size independence is decided separately)
                arms = ([n.body, n.orelse] if isinstance(n, ast.IfExp) else [ast.Module(body=n.body, type_ignores=[]), ast.Module(body=n.orelse, type_ignores=[])])
                selects = False
                for arm in arms:
                    for x in ast.walk(arm):
                        if isinstance(x, ast.Return): selects = True
                        if isinstance(x, ast.Call) and not ast.unparse(x.func).split(".")[0] in ("np", "numpy", "math", "min", "max", "int", "float", "len", "logging", "logger"): selects = True
                if selects: out.append((fn, n))
    return out


def check_thread_count_independent(ctx, rule="R11-thread-count-does-not-select-the-arithmetic", files=("speckit/core.py", "speckit/core_cuda.py", "speckit/analysis.py")):
    """the code path that computes a statistic is not chosen by the number of threads / cores of the machine: two differently ordered computations
    (serial Welford vs. parallel two-pass, ...) agree at best to rounding, so the result would depend on the thread configuration."""
    assert len(_thread_selected_sites(ast.parse(_THREAD_FIXTURE))) == 1, "rule self-test failed"
    nfun = 0; bad = 0
    for rel in files:
        if rel not in ctx.repo.mods: continue
        mod = ctx.repo.module(rel)
        nfun += sum(1 for n in ast.walk(mod) if isinstance(n, ast.FunctionDef))
        for fn, node in _thread_selected_sites(mod):
            bad += 1
            ctx.violated(rule, f"{rel}::{fn.name}[{' '.join(ast.unparse(node.test).split())[:70]}]", "a branch of the statistics path is selected by the thread / core count of the machine: "
                         "the same record and plan give different numbers on differently configured machines (and the two paths have to be proved equal separately)", f"{rel}:{node.lineno}")
    ctx.need("functions scanned for thread-count dependent branches", nfun, 60)
    if not bad: ctx.holds(rule, ",".join(files), f"{nfun} functions: no branch condition reads the thread / core count (positive control: the built-in fixture is reported)", files[0])
