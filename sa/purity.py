"""C14.R2 (shared by every property that reads the lazy table): the attribute table is pure -
no in-place effect on a value that aliases cached cells, the raw data or other attributes."""
import ast
from .alias import Alias, FRESH, strip, roots
from .model import norm_stmt
from .table import GETATTR, CLS


def _closure(T, cells):
    """attributes and raw data keys the given cells are computed from (transitively), both modes."""
    seen = set(); todo = [(c, m) for c in cells for m in (False, True)]
    names = set(cells)
    while todo:
        k = todo.pop()
        if k in seen: continue
        seen.add(k)
        try: T.cell(*k)
        except Exception: continue
        for r in T.reads.get(k, ()):
            names.add(r)
            if not r.startswith("_data."): todo.append((r, k[1]))
    return names


def table_purity(ctx, rule="R-pure-table", cells=None, T=None):
    """cells: restrict alarms to in-place effects on values that this property's attributes are computed from."""
    reach = None
    if cells is not None:
        if T is None:
            from .table import Table
            T = Table(ctx.repo)
        reach = _closure(T, cells)
    # every method of the result class (plotting and export helpers included): none may modify a value that aliases a cached cell
    cls_node = ctx.repo.get(CLS)
    keys = [GETATTR] + [f"{CLS}.{n.name}" for n in cls_node.body if isinstance(n, ast.FunctionDef) and n.name not in ("__getattr__", "__init__")]
    for key in keys:
        if not ctx.repo.has(key): continue
        fn = ctx.repo.get(key)
        ctx.analysed(key)
        A = Alias(fn, shared_paths=("self.",)).run()
        n = 0
        for sk in A.sinks:
            definite, maybe = strip(sk.sources)
            shared = sorted(l for l in definite if roots(l)[0].startswith("self.") or roots(l)[0].startswith("param:"))
            where = f"speckit/analysis.py:{getattr(sk.node, 'lineno', 0)}"
            construct = f"{key}[{norm_stmt(sk.node)[:70]}]"
            # the memo write self._cache[name] = val is the one permitted store
            if sk.kind == "store" and sk.target in ("self._cache",):
                ctx.holds(rule, construct, "memoisation store", where); n += 1; continue
            # self.__dict__[name] = value binds the attribute `name` (what self.name = value does): a rebinding, not a write into shared storage
            if sk.kind == "store" and sk.target in ("self.__dict__",):
                ctx.holds(rule, construct, "attribute binding through the instance dictionary", where); n += 1; continue
            if shared and reach is not None:
                hit = []
                for l in shared:
                    r0 = roots(l)[0]
                    nm = r0[5:].split(".")[0].split("[")[0] if r0.startswith("self.") else None
                    if nm is None or nm in ("_data", "_cache", "_config") or nm in reach: hit.append(l)
                if not hit:
                    ctx.holds(rule, construct, f"in-place {sk.kind} on {', '.join(shared)}: not a value this property's attributes are computed from", where); n += 1; continue
            if shared:
                root = roots(shared[0])[0]
                ctx.violated(rule, construct, f"in-place {sk.kind} on a value that shares memory with {', '.join(shared)}: "
                             f"later reads of {root} (and of every attribute derived from it) see the modified array", where)
            else:
                ctx.holds(rule, construct, f"{sk.kind} on a fresh value", where)
            n += 1
        ctx.holds(rule, key, f"{n} in-place sites examined", ctx.repo.where(key, fn))
