"""E7 (interprocedural part): per-function summaries writes_param / returns_param computed by
the alias analysis over the package call graph (memoised fixed point, recursion guarded)."""
import ast

from .alias import Alias, FRESH, strip, roots, dotted


class Effects:
    def __init__(s, repo):
        s.repo = repo
        s.summ = {}
        s.busy = set()
        s.imports = {}

    # ---- callee resolution
    def module_names(s, rel):
        if rel in s.imports: return s.imports[rel]
        out = {}
        mod = s.repo.mods[rel]

        def scan(body):
            for st in body:
                if isinstance(st, ast.ImportFrom):
                    modname = st.module or ""
                    if st.level > 0 or modname.startswith("speckit"):
                        base = modname.replace("speckit.", "").replace("speckit", "")
                        for a in st.names:
                            cands = [f"speckit/{base}.py::{a.name}"] if base else [f"{r}::{a.name}" for r in s.repo.mods]
                            for k in cands:
                                if s.repo.has(k): out[a.asname or a.name] = k; break
                elif isinstance(st, (ast.FunctionDef, ast.ClassDef)):
                    out[st.name] = f"{rel}::{st.name}"
                elif isinstance(st, (ast.If, ast.Try)):
                    scan(st.body)
        scan(mod.body)
        s.imports[rel] = out
        return out

    def resolver(s, fkey):
        rel = fkey.split("::")[0]
        names = s.module_names(rel)
        q = fkey.split("::")[1]
        cls = q.split(".")[0] if "." in q else None

        def resolve(call):
            f = call.func
            key = None; off = 0
            if isinstance(f, ast.Name):
                # nested function of the current function?
                nk = f"{fkey}.{f.id}"
                if s.repo.has(nk): key = nk
                elif f.id in names: key = names[f.id]
            elif isinstance(f, ast.Attribute) and isinstance(f.value, ast.Name) and f.value.id == "self" and cls:
                k = f"{rel}::{cls}.{f.attr}"
                if s.repo.has(k): key = k; off = 1
            elif isinstance(f, ast.Subscript) and isinstance(f.value, ast.Name) and f.value.id in names:
                key = names[f.value.id]      # CUDA launch kernel[grid, block](...)
            if key is None: return None
            node = s.repo.index.get(key)
            if isinstance(node, ast.ClassDef):
                ik = key + ".__init__"
                if not s.repo.has(ik): return None
                sm = dict(s.summary(ik)); sm["self_offset"] = 1; sm["returns_param"] = set(); sm["constructs"] = key
                return sm
            if not isinstance(node, ast.FunctionDef): return None
            sm = dict(s.summary(key)); sm["self_offset"] = off
            return sm
        return resolve

    def summary(s, key):
        if key in s.summ: return s.summ[key]
        if key in s.busy:
            return {"key": key, "params": [], "writes_param": set(), "returns_param": set(), "returns_fresh": True}
        s.busy.add(key)
        fn = s.repo.index[key]
        A = Alias(fn, resolve=s.resolver(key))
        A.run()
        params = A.params
        writes = {}
        for sk in A.sinks:
            definite, maybe = strip(sk.sources)
            for l in definite:
                r, w = roots(l)
                if r.startswith("param:") and "shallow" not in w:
                    nm = r[6:].split(".")[0]
                    if nm in params:
                        # a store into a container parameter's element slot is a write of the container, element writes of arrays likewise
                        writes.setdefault(params.index(nm), []).append(sk)
        rets = set()
        for l in strip(A.returns)[0]:
            r, w = roots(l)
            if r.startswith("param:") and not w:
                nm = r[6:].split(".")[0]
                if nm in params: rets.add(params.index(nm))
        sm = {"key": key, "params": params, "writes_param": set(writes), "returns_param": rets, "returns_fresh": FRESH in A.returns or not A.returns,
              "sinks": writes, "alias": A}
        s.busy.discard(key)
        s.summ[key] = sm
        return sm
