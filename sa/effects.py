"""E7 (interprocedural part): per-function summaries writes_param / returns_param computed by
the alias analysis over the package call graph (memoised fixed point, recursion guarded)."""
import ast

from .alias import Alias, FRESH, strip, roots, dotted
from .model import norm_stmt


class Effects:
    def __init__(s, repo):
        s.repo = repo
        s.summ = {}
        s.busy = set()
        s.imports = {}

    # ---- callee resolution
    def module_names(s, rel):
        if rel in s.imports: return s.imports[rel]
        out = {}
        mod = s.repo.mods[rel]

        def scan(body):
            for st in body:
                if isinstance(st, ast.ImportFrom):
                    modname = st.module or ""
                    if st.level > 0 or modname.startswith("speckit"):
                        base = modname.replace("speckit.", "").replace("speckit", "")
                        for a in st.names:
                            cands = [f"speckit/{base}.py::{a.name}"] if base else [f"{r}::{a.name}" for r in s.repo.mods]
                            for k in cands:
                                if s.repo.has(k): out[a.asname or a.name] = k; break
                elif isinstance(st, (ast.FunctionDef, ast.ClassDef)):
                    out[st.name] = f"{rel}::{st.name}"
                elif isinstance(st, (ast.If, ast.Try)):
                    scan(st.body)
        scan(mod.body)
        s.imports[rel] = out
        return out

    def resolver(s, fkey):
        rel = fkey.split("::")[0]
        names = s.module_names(rel)
        q = fkey.split("::")[1]
        cls = q.split(".")[0] if "." in q else None

        def resolve(call):
            f = call.func
            key = None; off = 0
            if isinstance(f, ast.Name):
                # nested function of the current function?
                nk = f"{fkey}.{f.id}"
                if s.repo.has(nk): key = nk
                elif f.id in names: key = names[f.id]
            elif isinstance(f, ast.Attribute) and isinstance(f.value, ast.Name) and f.value.id == "self" and cls:
                k = f"{rel}::{cls}.{f.attr}"
                if s.repo.has(k): key = k; off = 1
            elif isinstance(f, ast.Subscript) and isinstance(f.value, ast.Name) and f.value.id in names:
                key = names[f.value.id]      # CUDA launch kernel[grid, block](...)
            if key is None: return None
            node = s.repo.index.get(key)
            if isinstance(node, ast.ClassDef):
                ik = key + ".__init__"
                if not s.repo.has(ik): return None
                sm = dict(s.summary(ik)); sm["self_offset"] = 1; sm["returns_param"] = set(); sm["constructs"] = key
                return sm
            if not isinstance(node, ast.FunctionDef): return None
            sm = dict(s.summary(key)); sm["self_offset"] = off
            return sm
        return resolve

    def summary(s, key):
        if key in s.summ: return s.summ[key]
        if key in s.busy:
            return {"key": key, "params": [], "writes_param": set(), "returns_param": set(), "returns_fresh": True}
        s.busy.add(key)
        fn = s.repo.index[key]
        A = Alias(fn, resolve=s.resolver(key))
        A.run()
        params = A.params
        writes = {}
        for sk in A.sinks:
            definite, maybe = strip(sk.sources)
            for l in definite:
                r, w = roots(l)
                if r.startswith("param:") and "shallow" not in w:
                    nm = r[6:].split(".")[0]
                    if nm in params:
                        # a store into a container parameter's element slot is a write of the container, element writes of arrays likewise
                        writes.setdefault(params.index(nm), []).append(sk)
        rets = set()
        for l in strip(A.returns)[0]:
            r, w = roots(l)
            if r.startswith("param:") and not w:
                nm = r[6:].split(".")[0]
                if nm in params: rets.add(params.index(nm))
        # module-level objects handed out / written by the function (a scratch buffer kept in a module dictionary, ...)
        rets_g = {roots(l)[0] for l in strip(A.returns)[0] if roots(l)[0].startswith("global:")}
        writes_g = set()
        for sk in A.sinks:
            for l in strip(sk.sources)[0]:
                if roots(l)[0].startswith("global:") and sk.kind in ("out=", "callee-write", "store", "augassign-store", "copy=False"): writes_g.add(roots(l)[0])
        sm = {"key": key, "params": params, "writes_param": set(writes), "returns_param": rets, "returns_fresh": FRESH in A.returns or not A.returns,
              "sinks": writes, "alias": A, "returns_global": rets_g & writes_g, "writes_global": writes_g}
        s.busy.discard(key)
        s.summ[key] = sm
        return sm


MUTATORS = {"update", "append", "extend", "insert", "pop", "popitem", "clear", "setdefault", "remove", "add", "discard", "sort", "reverse", "fill"}


def check_no_shared_module_state(ctx, rule="R-instance-state-not-shared", files=("speckit/analysis.py", "speckit/noise.py", "speckit/core.py", "speckit/schedulers.py")):
    """an instance attribute bound to a module-level mutable object WITHOUT a copy, and then mutated through the attribute, is one object
    shared by all instances (and by all later calls): what one analyzer configures, every other analyzer sees."""
    repo = ctx.repo
    n = 0
    for rel in files:
        if rel not in repo.mods: continue
        mod = repo.module(rel)
        mutable = {}
        for st in mod.body:
            tgt, val = None, None
            if isinstance(st, ast.Assign) and len(st.targets) == 1 and isinstance(st.targets[0], ast.Name): tgt, val = st.targets[0].id, st.value
            elif isinstance(st, ast.AnnAssign) and isinstance(st.target, ast.Name) and st.value is not None: tgt, val = st.target.id, st.value
            if tgt and (isinstance(val, (ast.Dict, ast.List, ast.Set)) or (isinstance(val, ast.Call) and ast.unparse(val.func) in ("dict", "list", "set", "OrderedDict", "collections.OrderedDict", "defaultdict", "collections.defaultdict"))):
                mutable[tgt] = st
        for cls in [c for c in mod.body if isinstance(c, ast.ClassDef)]:
            ckey = f"{rel}::{cls.name}"
            bound = {}       # attribute -> (module name, node)
            for fn in [f for f in cls.body if isinstance(f, ast.FunctionDef)]:
                if not fn.args.args: continue
                me = fn.args.args[0].arg
                for a in ast.walk(fn):
                    if isinstance(a, ast.Assign) and isinstance(a.value, ast.Name) and a.value.id in mutable:
                        for t in a.targets:
                            if isinstance(t, ast.Attribute) and isinstance(t.value, ast.Name) and t.value.id == me: bound[t.attr] = (a.value.id, a)
            for attr, (gname, node) in bound.items():
                n += 1
                hit = None
                for fn in [f for f in cls.body if isinstance(f, ast.FunctionDef)]:
                    if not fn.args.args: continue
                    me = fn.args.args[0].arg
                    path = f"{me}.{attr}"
                    for a in ast.walk(fn):
                        if isinstance(a, ast.Call) and isinstance(a.func, ast.Attribute) and a.func.attr in MUTATORS and ast.unparse(a.func.value) == path: hit = hit or (a, fn.name)
                        if isinstance(a, (ast.Assign, ast.AugAssign)):
                            for t in (a.targets if isinstance(a, ast.Assign) else [a.target]):
                                if isinstance(t, ast.Subscript) and ast.unparse(t.value) == path: hit = hit or (a, fn.name)
                        if isinstance(a, ast.Delete):
                            for t in a.targets:
                                if isinstance(t, ast.Subscript) and ast.unparse(t.value) == path: hit = hit or (a, fn.name)
                c = f"{ckey}[self.{attr} = {gname}]"
                where = f"{rel}:{node.lineno}"
                if hit:
                    ctx.violated(rule, c, f"self.{attr} is bound to the module-level {type(mutable[gname].value if hasattr(mutable[gname], 'value') else None).__name__.lower() or 'object'} {gname} without a copy and "
                                 f"then modified in {cls.name}.{hit[1]} ({' '.join(ast.unparse(hit[0]).split())[:70]}): all instances share one object, so configuring one instance "
                                 "silently reconfigures every other one alive in the process", where)
                else:
                    ctx.holds(rule, c, "bound to a module-level object but never modified through the attribute", where)
    if n == 0:
        ctx.holds(rule, "+".join(files), "no instance attribute is bound to a module-level mutable object", "")


# ---------------------------------------------------------------------------- a scratch buffer is not refilled while an earlier result in it is live
class _FillTrace(Alias):
    def __init__(s, *a, **k):
        Alias.__init__(s, *a, **k); s.alloc_labels = True; s.assigns = {}

    def stmt(s, st, env):
        n0 = len(s.sinks)
        Alias.stmt(s, st, env)
        if isinstance(st, ast.Assign) and len(st.targets) == 1 and isinstance(st.targets[0], ast.Name):
            s.assigns[id(st)] = (st, st.targets[0].id, set(env.get(st.targets[0].id, ())), list(s.sinks[n0:]))


def check_scratch_reuse(ctx, rule="R-scratch-buffer-not-clobbered", files=("speckit/core.py",)):
    """v1 = fill(..., out=B) ... v2 = fill(..., out=B) ... use(v1): the second fill overwrites what v1 still refers to (both are views of B).
    Decided per function on may-alias sets with allocation-site identities; callee effects (writes/returns its out parameter) come from the summaries."""
    E = Effects(ctx.repo)
    nfun = 0; nfill = 0
    for rel in files:
        if rel not in ctx.repo.mods: continue
        for key, fn in ctx.repo.functions_in(rel):
            nfun += 1
            A = _FillTrace(fn, resolve=E.resolver(key)); A.run()
            fills = []       # (stmt, var, root) : var = call(...) whose callee fills a buffer `root` that var then aliases
            for st, var, al, sinks in A.assigns.values():
                for sk in sinks:
                    if sk.kind not in ("out=", "callee-write"): continue
                    for l in strip(sk.sources)[0]:
                        r = roots(l)[0]
                        if (r.startswith("local:") or r.startswith("param:") or r.startswith("global:")) and any(roots(x)[0] == r for x in strip(al)[0]):
                            fills.append((st, var, r))
            nfill += len(fills)
            fills.sort(key=lambda t: t[0].lineno)
            uniq = {}
            for t_ in fills: uniq.setdefault((id(t_[0]), t_[1], t_[2]), t_)
            fills = list(uniq.values())
            for i, (s1, v1, r1) in enumerate(fills):
                for s2, v2, r2 in fills[i + 1:]:
                    if r2 != r1 or v2 == v1 or s2 is s1: continue
                    end2 = getattr(s2, "end_lineno", s2.lineno)
                    # is v1 read after the second fill, before v1 is bound again?
                    rebinds = sorted(n.lineno for n in ast.walk(fn) if isinstance(n, ast.Name) and n.id == v1 and isinstance(n.ctx, ast.Store) and n.lineno > end2)
                    horizon = rebinds[0] if rebinds else 10 ** 9
                    reads = [n for n in ast.walk(fn) if isinstance(n, ast.Name) and n.id == v1 and isinstance(n.ctx, ast.Load) and end2 < n.lineno <= horizon]
                    if reads:
                        ctx.violated(rule, f"{key}[{norm_stmt(s2)[:70]}]", f"'{v1}' (line {s1.lineno}) and '{v2}' (line {s2.lineno}) are both views of the same buffer ({r1}): the second fill overwrites "
                                     f"the samples '{v1}' refers to, and '{v1}' is still used at line {reads[0].lineno} - it now holds the other channel's / chunk's data", f"{rel}:{s2.lineno}")
                    else:
                        ctx.holds(rule, f"{key}[{norm_stmt(s2)[:70]}]", f"buffer {r1} is refilled after the last use of '{v1}'", f"{rel}:{s2.lineno}")
    ctx.need("functions scanned for scratch-buffer reuse", nfun, 20)
    ctx.holds(rule, ",".join(files), f"{nfun} functions, {nfill} buffer fills through out= / writing callees: no buffer is refilled while an earlier result in it is still used", files[0])


# ---------------------------------------------------------------------------- no module-level memo of argument-derived values
_GLOBAL_MEMO_FIXTURE = '''
_last = None
def f(data, fs):
    global _last
    if _last is not None and _last[0] is data:
        return _last[1]
    r = expensive(data, fs)
    _last = (data, r)
    return r
'''


def _global_memo_sites(mod):
    """[(function, name, assignment)] : a module-level name re-bound (via `global`) inside a function to a value computed from the function's arguments."""
    out = []
    for fn in [n for n in ast.walk(mod) if isinstance(n, ast.FunctionDef)]:
        gl = {nm for n in ast.walk(fn) if isinstance(n, ast.Global) for nm in n.names}
        if not gl: continue
        params = {a.arg for a in fn.args.posonlyargs + fn.args.args + fn.args.kwonlyargs}
        if fn.args.vararg: params.add(fn.args.vararg.arg)
        if fn.args.kwarg: params.add(fn.args.kwarg.arg)
        defs = {}
        for n in ast.walk(fn):
            if isinstance(n, ast.Assign):
                for t in n.targets:
                    for e in ([t] if isinstance(t, ast.Name) else list(ast.walk(t))):
                        if isinstance(e, ast.Name) and isinstance(e.ctx, ast.Store): defs.setdefault(e.id, []).append(n.value)
            elif isinstance(n, (ast.AnnAssign, ast.AugAssign)) and isinstance(n.target, ast.Name) and n.value is not None:
                defs.setdefault(n.target.id, []).append(n.value)

        def from_params(e, seen):
            for x in ast.walk(e):
                if isinstance(x, ast.Name) and isinstance(x.ctx, ast.Load):
                    if x.id in params: return True
                    if x.id in defs and x.id not in seen:
                        seen.add(x.id)
                        if any(from_params(v, seen) for v in defs[x.id]): return True
            return False
        for n in ast.walk(fn):
            if isinstance(n, ast.Assign):
                for t in n.targets:
                    if isinstance(t, ast.Name) and t.id in gl and from_params(n.value, set()) and _read_in_functions(mod, t.id): out.append((fn, t.id, n))
    return out


def _read_in_functions(mod, name):
    """the module-level name is read inside some function other than as an argument of a logging / print call (a slot that is only written is a
    diagnostic, not a memo)."""
    for fn in [n for n in ast.walk(mod) if isinstance(n, ast.FunctionDef)]:
        logged = set()
        for c in ast.walk(fn):
            if isinstance(c, ast.Call) and (ast.unparse(c.func).split(".")[0] in ("logging", "logger", "print", "warnings")):
                for x in ast.walk(c): logged.add(id(x))
        for x in ast.walk(fn):
            if isinstance(x, ast.Name) and x.id == name and isinstance(x.ctx, ast.Load) and id(x) not in logged: return True
    return False


def check_no_global_memo(ctx, rule="R-no-global-memo-of-arguments", files=("speckit/analysis.py", "speckit/core.py", "speckit/core_cuda.py", "speckit/schedulers.py",
                                                                         "speckit/dsp.py", "speckit/noise.py", "speckit/systems.py", "speckit/utils.py"), floor=100):
    """a module-level slot re-bound inside a function to something computed from that call's arguments (the last analyzer, the last plan, the last
    spectrum) makes later calls depend on earlier ones: an identity test on a mutable argument does not notice that its contents changed."""
    assert len(_global_memo_sites(ast.parse(_GLOBAL_MEMO_FIXTURE))) == 1, "rule self-test failed"
    nfun = 0; bad = 0
    for rel in files:
        if rel not in ctx.repo.mods: continue
        mod = ctx.repo.module(rel)
        nfun += sum(1 for n in ast.walk(mod) if isinstance(n, ast.FunctionDef))
        for fn, name, node in _global_memo_sites(mod):
            bad += 1
            ctx.violated(rule, f"{rel}::{fn.name}[{norm_stmt(node)[:70]}]", f"the module-level name {name} is re-bound in {fn.name} to a value computed from this call's arguments and consulted by later "
                         "calls: the result of a call depends on the calls made before it (an array refilled in place, or an equal-looking configuration, is served the stale object)", f"{rel}:{node.lineno}")
    ctx.need("functions scanned for module-level memo slots", nfun, floor)
    if not bad:
        ctx.holds(rule, ",".join(files), f"{nfun} functions: no module-level name is re-bound to argument-derived values (positive control: the built-in fixture is reported)", files[0])


# ---------------------------------------------------------------------------- no reference to live instance state in a process-wide store
_ALIAS_FIXTURE = '''
_STORE = {}
def kern(x, z):
    for i in range(len(x)):
        z[0] = x[i]
class G:
    def settle(self, key):
        hit = _STORE.get(key)
        if hit is not None:
            self._z = hit.copy(); return
        kern(self.buf, self._z)
        _STORE[key] = self._z
class H:
    def settle(self, key):
        hit = _STORE.get(key)
        if hit is not None:
            self._z = hit.copy(); return
        kern(self.buf, self._z)
        _STORE[key] = self._z.copy()
'''


def _process_wide_alias_sites(mod):
    """[(function, store name, node, attr)] : a module-level container (dict / list / set) receives, inside a method, a bare reference to an attribute
    of `self` that the module updates in place (subscript store, augmented assignment, or passed to a function that stores into that parameter).
    A copy (`x.copy()`, `np.array(x)`, any call) is not a reference."""
    stores = set()
    for st in mod.body:
        tg, v = (st.targets, st.value) if isinstance(st, ast.Assign) else ([st.target], st.value) if isinstance(st, ast.AnnAssign) and st.value is not None else ([], None)
        if v is None: continue
        if isinstance(v, (ast.Dict, ast.List, ast.Set)) or (isinstance(v, ast.Call) and ast.unparse(v.func).split(".")[-1] in ("dict", "list", "set", "OrderedDict", "defaultdict", "deque", "WeakValueDictionary")):
            for t in tg:
                if isinstance(t, ast.Name): stores.add(t.id)
    if not stores: return []
    funcs = {n.name: n for n in ast.walk(mod) if isinstance(n, ast.FunctionDef)}
    # parameters a function stores into (subscript store / augmented assignment on the bare parameter)
    writes = {}
    for nm, fn in funcs.items():
        ps = [a.arg for a in fn.args.posonlyargs + fn.args.args]
        w = set()
        for n in ast.walk(fn):
            t = None
            if isinstance(n, ast.Assign):
                for t_ in n.targets:
                    if isinstance(t_, ast.Subscript) and isinstance(t_.value, ast.Name) and t_.value.id in ps: w.add(ps.index(t_.value.id))
            elif isinstance(n, ast.AugAssign):
                t = n.target
                if isinstance(t, ast.Subscript): t = t.value
                if isinstance(t, ast.Name) and t.id in ps: w.add(ps.index(t.id))
        writes[nm] = w
    inplace = set()
    for n in ast.walk(mod):
        if isinstance(n, ast.Assign):
            for t in n.targets:
                if isinstance(t, ast.Subscript) and isinstance(t.value, ast.Attribute) and isinstance(t.value.value, ast.Name) and t.value.value.id == "self": inplace.add(t.value.attr)
        elif isinstance(n, ast.AugAssign):
            t = n.target.value if isinstance(n.target, ast.Subscript) else None
            if isinstance(t, ast.Attribute) and isinstance(t.value, ast.Name) and t.value.id == "self": inplace.add(t.attr)
        elif isinstance(n, ast.Call):
            cal = n.func.id if isinstance(n.func, ast.Name) else n.func.attr if isinstance(n.func, ast.Attribute) else None
            if cal in writes:
                off = 1 if isinstance(n.func, ast.Attribute) and funcs[cal].args.args and funcs[cal].args.args[0].arg == "self" else 0
                for i, a in enumerate(n.args):
                    if isinstance(a, ast.Attribute) and isinstance(a.value, ast.Name) and a.value.id == "self" and (i + off) in writes[cal]: inplace.add(a.attr)
                ps = [a.arg for a in funcs[cal].args.posonlyargs + funcs[cal].args.args]
                for kw in n.keywords:
                    a = kw.value
                    if kw.arg in ps and ps.index(kw.arg) in writes[cal] and isinstance(a, ast.Attribute) and isinstance(a.value, ast.Name) and a.value.id == "self": inplace.add(a.attr)
    # class-level string constants (attribute names used through getattr(self, self._state_attr))
    strconst = {}
    for c in ast.walk(mod):
        if isinstance(c, ast.ClassDef):
            for st in c.body:
                if isinstance(st, (ast.Assign, ast.AnnAssign)) and isinstance(getattr(st, "value", None), ast.Constant) and isinstance(st.value.value, str):
                    for t in (st.targets if isinstance(st, ast.Assign) else [st.target]):
                        if isinstance(t, ast.Name): strconst.setdefault(t.id, set()).add(st.value.value)
    out = []
    for fn in [n for n in ast.walk(mod) if isinstance(n, ast.FunctionDef)]:
        defs = {}
        for n in ast.walk(fn):
            if isinstance(n, ast.Assign) and len(n.targets) == 1 and isinstance(n.targets[0], ast.Name): defs.setdefault(n.targets[0].id, []).append(n.value)

        def bare(e, seen):
            """self attributes referenced by e without a copy"""
            if isinstance(e, (ast.Tuple, ast.List, ast.Set)): return set().union(*[bare(x, seen) for x in e.elts]) if e.elts else set()
            if isinstance(e, ast.Dict): return set().union(*[bare(x, seen) for x in e.values]) if e.values else set()
            if isinstance(e, ast.Starred): return bare(e.value, seen)
            if isinstance(e, ast.IfExp): return bare(e.body, seen) | bare(e.orelse, seen)
            if isinstance(e, ast.Attribute) and isinstance(e.value, ast.Name) and e.value.id == "self": return {e.attr}
            if isinstance(e, ast.Call) and isinstance(e.func, ast.Name) and e.func.id == "getattr" and e.args and isinstance(e.args[0], ast.Name) and e.args[0].id == "self" and len(e.args) >= 2:
                k = e.args[1]
                if isinstance(k, ast.Constant) and isinstance(k.value, str): return {k.value}
                if isinstance(k, ast.Attribute) and k.attr in strconst: return set(strconst[k.attr])
                return {"*"}
            if isinstance(e, ast.Name) and e.id in defs and e.id not in seen:
                seen = seen | {e.id}
                return set().union(*[bare(v, seen) for v in defs[e.id]])
            return set()
        for n in ast.walk(fn):
            val = None; nm = None
            if isinstance(n, ast.Assign):
                for t in n.targets:
                    if isinstance(t, ast.Subscript) and isinstance(t.value, ast.Name) and t.value.id in stores: val = n.value; nm = t.value.id
            elif isinstance(n, ast.Call) and isinstance(n.func, ast.Attribute) and isinstance(n.func.value, ast.Name) and n.func.value.id in stores and n.func.attr in ("append", "setdefault", "add", "insert", "appendleft") and n.args:
                val = n.args[-1]; nm = n.func.value.id
            if val is None: continue
            refs = bare(val, set())
            hit = sorted(a for a in refs if a in inplace or (a == "*" and inplace))
            if hit: out.append((fn, nm, n, hit[0]))
    return out


def check_no_process_wide_alias(ctx, rule, files, floor=10):
    """instance state that is updated in place must not be reachable from a module-level container: every later instance served from that container
    receives whatever the first instance's stream has turned the state into (the result of a constructor depends on the use made of earlier objects)."""
    got = _process_wide_alias_sites(ast.parse(_ALIAS_FIXTURE))
    assert len(got) == 1 and got[0][0].name == "settle" and got[0][3] == "_z", "rule self-test failed"
    nfun = 0; bad = 0
    for rel in files:
        if rel not in ctx.repo.mods: continue
        mod = ctx.repo.module(rel)
        nfun += sum(1 for n in ast.walk(mod) if isinstance(n, ast.FunctionDef))
        for fn, name, node, attr in _process_wide_alias_sites(mod):
            bad += 1
            ctx.violated(rule, f"{rel}::{fn.name}[{norm_stmt(node)[:70]}]", f"the module-level container {name} receives a reference (not a copy) to self.{attr}, which this module updates in place: "
                         "what a later object is served from the container depends on how far the first object's stream has advanced", f"{rel}:{node.lineno}")
    ctx.need("functions scanned for process-wide references to instance state", nfun, floor)
    if not bad:
        ctx.holds(rule, ",".join(files), f"{nfun} functions: no module-level container holds a reference to in-place updated instance state (positive control: the built-in fixture "
                  "is reported, its copying twin is not)", files[0])


# ---------------------------------------------------------------------------- the value returned by a memoised function is shared: never updated in place
_MEMO_MUT_FIXTURE = '''
from functools import lru_cache
@lru_cache(maxsize=8)
def design(fs, a):
    return np.ones((3, 2)) * fs, np.ones((3, 2)) * a
class G:
    def __init__(self, fs, a):
        self._a, self._b = design(fs, a)
        self._a[0] *= 2.0
class H:
    def __init__(self, fs, a):
        a_, b_ = design(fs, a)
        self._a = a_.copy(); self._b = b_
        self._a[0] *= 2.0
'''


def _memo_result_mutations(mod):
    memo = set()
    for n in ast.walk(mod):
        if isinstance(n, ast.FunctionDef) and any(("lru_cache" in ast.unparse(d) or ast.unparse(d).split(".")[-1] in ("cache", "memoize", "memoized")) for d in n.decorator_list): memo.add(n.name)
    for st in mod.body:
        if isinstance(st, ast.Assign) and len(st.targets) == 1 and isinstance(st.targets[0], ast.Name) and isinstance(st.value, ast.Call) and isinstance(st.value.func, ast.Call) \
                and "lru_cache" in ast.unparse(st.value.func.func): memo.add(st.targets[0].id)
    if not memo: return []
    out = []
    scopes = [c for c in ast.walk(mod) if isinstance(c, ast.ClassDef)] + [f for f in mod.body if isinstance(f, ast.FunctionDef)]
    for sc in scopes:
        alias = {}
        for n in ast.walk(sc):
            if isinstance(n, ast.Assign) and isinstance(n.value, ast.Call):
                f = n.value.func
                nm = f.id if isinstance(f, ast.Name) else f.attr if isinstance(f, ast.Attribute) else None
                if nm in memo:
                    for t in n.targets:
                        for e in (t.elts if isinstance(t, (ast.Tuple, ast.List)) else [t]):
                            if isinstance(e, (ast.Name, ast.Attribute)): alias[ast.unparse(e)] = (nm, n)
        # plain re-binding of an alias to something fresh (x = x.copy()) ends the sharing: conservative - an alias rebound anywhere is dropped
        for n in ast.walk(sc):
            if isinstance(n, ast.Assign) and not (isinstance(n.value, ast.Call) and (getattr(n.value.func, "id", None) in memo or getattr(n.value.func, "attr", None) in memo)):
                for t in n.targets:
                    for e in (t.elts if isinstance(t, (ast.Tuple, ast.List)) else [t]):
                        if isinstance(e, (ast.Name, ast.Attribute)) and ast.unparse(e) in alias: alias.pop(ast.unparse(e))
        if not alias: continue
        for n in ast.walk(sc):
            tgt = None
            if isinstance(n, ast.AugAssign) and isinstance(n.target, ast.Subscript): tgt = n.target.value
            elif isinstance(n, ast.Assign):
                for t in n.targets:
                    if isinstance(t, ast.Subscript): tgt = t.value
            elif isinstance(n, ast.Call) and isinstance(n.func, ast.Attribute) and n.func.attr in ("fill", "sort", "resize", "itemset", "put", "partition"): tgt = n.func.value
            elif isinstance(n, ast.Call):
                for k in n.keywords:
                    if k.arg == "out": tgt = k.value
            while isinstance(tgt, ast.Subscript): tgt = tgt.value
            if tgt is not None and ast.unparse(tgt) in alias:
                out.append((sc, ast.unparse(tgt), alias[ast.unparse(tgt)][0], n))
    return out


def check_memoised_results_not_mutated(ctx, rule, files, floor=10):
    """what a memoising wrapper (functools.lru_cache) returns is the cached object itself: an in-place update by one caller changes what every later
    caller with the same arguments receives (the k-th generator built with the same parameters gets a table rescaled k-1 times)."""
    got = _memo_result_mutations(ast.parse(_MEMO_MUT_FIXTURE))
    assert len(got) == 1 and got[0][0].name == "G", "rule self-test failed"
    nfun = 0; bad = 0
    for rel in files:
        if rel not in ctx.repo.mods: continue
        mod = ctx.repo.module(rel)
        nfun += sum(1 for n in ast.walk(mod) if isinstance(n, ast.FunctionDef))
        for sc, al, fnm, node in _memo_result_mutations(mod):
            bad += 1
            ctx.violated(rule, f"{rel}::{sc.name}[{norm_stmt(node)[:70]}]", f"{al} is (part of) the object returned by the memoised function {fnm}() and is updated in place: the cached "
                         "entry itself changes, so every later call with the same arguments is served the modified table", f"{rel}:{node.lineno}")
    ctx.need("functions scanned for in-place updates of memoised results", nfun, floor)
    if not bad:
        ctx.holds(rule, ",".join(files), f"{nfun} functions: no result of a memoised function is updated in place (positive control: the built-in fixture is reported, its copying twin is not)", files[0])
