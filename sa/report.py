"""E10 - obligations, three-valued verdicts, evidence, known findings, exit codes."""
import json
import os
import sys
import time
import traceback

VERIF = os.path.dirname(os.path.dirname(os.path.abspath(__file__)))
EVID = os.environ.get("VERIF_EVIDENCE_DIR") or os.path.join(VERIF, "evidence")
KNOWN = os.path.join(VERIF, "known_findings.json")

HOLDS, VIOLATED, UNKNOWN = "HOLDS", "VIOLATED", "UNKNOWN"


class AnalysisError(Exception):
    """fail closed: anchor vanished, instance count below floor, unmodelled construct."""


class Ctx:
    """One run of one property check."""

    def __init__(s, pid, tier, seed, repo):
        s.pid = pid; s.tier = tier; s.seed = seed; s.repo = repo
        s.obs = []            # obligations
        s.functions = set()   # constructs analysed
        s.call_sites = 0
        s.rule_instances = {}
        s.samples = []
        s.assumptions = []
        s.trusted = []
        s.notes = []
        s.extra = {}
        s.t0 = time.time()

    # ---- recording
    def ob(s, rule, construct, status, detail="", where="", lhs=None, rhs=None):
        o = {"rule": rule, "construct": construct, "status": status, "detail": detail, "where": where}
        if lhs is not None: o["lhs"] = _short(lhs)
        if rhs is not None: o["rhs"] = _short(rhs)
        s.obs.append(o)
        s.rule_instances[rule] = s.rule_instances.get(rule, 0) + 1
        return status

    def holds(s, rule, construct, detail="", where="", **kw): return s.ob(rule, construct, HOLDS, detail, where, **kw)
    def violated(s, rule, construct, detail="", where="", **kw): return s.ob(rule, construct, VIOLATED, detail, where, **kw)
    def unknown(s, rule, construct, detail="", where="", **kw): return s.ob(rule, construct, UNKNOWN, detail, where, **kw)

    def compare(s, rule, construct, code, ref, where="", detail="", prepare=None):
        from .symalg import compare
        st, why = compare(code, ref, prepare=prepare, seed=s.seed)
        d = detail
        if why: d = (d + "; " if d else "") + why
        return s.ob(rule, construct, st, d, where, lhs=code, rhs=ref)

    def need(s, what, found, floor):
        """instance-count floor: a rule matching fewer sites than confirmed by hand is broken."""
        if found < floor:
            raise AnalysisError(f"{what}: found {found}, expected at least {floor} (anchor vanished or renamed)")

    def analysed(s, *keys):
        for k in keys: s.functions.add(k)

    def assume(s, *txt):
        for t in txt:
            if t not in s.assumptions: s.assumptions.append(t)

    def trust(s, *txt):
        for t in txt:
            if t not in s.trusted: s.trusted.append(t)


def _short(x, n=600):
    r = repr(x)
    return r if len(r) <= n else r[:n] + "..."


def load_known():
    if not os.path.exists(KNOWN): return []
    with open(KNOWN) as f:
        return json.load(f).get("findings", [])


def finish(ctx, explanation, level_note=""):
    """write evidence, print verdict lines, return exit code."""
    known = [k for k in load_known() if k["property"] == ctx.pid]
    viol = [o for o in ctx.obs if o["status"] == VIOLATED]
    unk = [o for o in ctx.obs if o["status"] == UNKNOWN]
    new_viol = []; known_hits = []
    for o in viol:
        hit = None
        for k in known:
            if k["rule"] == o["rule"] and k["construct"] == o["construct"]:
                hit = k; break
        if hit: known_hits.append((hit, o))
        else: new_viol.append(o)
    wall = time.time() - ctx.t0
    n_ob = len(ctx.obs)
    distinct = len({(o["rule"], o["construct"]) for o in ctx.obs})
    samples = []
    seen_rules = set()
    for o in ctx.obs:
        if o["rule"] not in seen_rules:
            seen_rules.add(o["rule"]); samples.append(o)
        if len(samples) >= 40: break
    for o in viol + unk:
        if o not in samples: samples.append(o)
    cov = {
        "explanation": explanation,
        "obligations": n_ob,
        "discharged": sum(1 for o in ctx.obs if o["status"] == HOLDS),
        "violated": len(viol), "unknown": len(unk),
        "known_findings_matched": len(known_hits),
        "evaluations": max(n_ob, 1),
        "distinct_nontrivial": distinct,
        "rule": "one obligation per (rule, construct) enumerated from /repo's current source; distinct = distinct (rule, construct) pairs",
        "samples": samples + ctx.samples[:20],
        "exhaustive": True,
        "functions_analysed": sorted(ctx.functions),
        "call_sites": ctx.call_sites,
        "rule_instances": ctx.rule_instances,
        "trusted_base": ctx.trusted,
        "checker_cmd": f"python3 check {ctx.pid} --tier {ctx.tier}",
        "source_digest": ctx.repo.digest() if ctx.repo else "",
        "repo_root": ctx.repo.root if ctx.repo else "",
    }
    cov.update(ctx.extra)
    ev = {"property_id": ctx.pid, "tier": ctx.tier, "seed": int(ctx.seed), "level": "other",
          "coverage": cov, "assumptions": ctx.assumptions, "wall_s": round(wall, 3), "violations": len(new_viol)}
    os.makedirs(EVID, exist_ok=True)
    with open(os.path.join(EVID, f"{ctx.pid}.json"), "w") as f:
        json.dump(ev, f, indent=1, sort_keys=False)
    # ---- console
    for rule, cnt in sorted(ctx.rule_instances.items()):
        st = [o["status"] for o in ctx.obs if o["rule"] == rule]
        print(f"  {ctx.pid} {rule}: {cnt} obligations, {st.count(HOLDS)} hold, {st.count(VIOLATED)} violated, {st.count(UNKNOWN)} unknown")
    for n in ctx.notes: print("  note:", n)
    for k, o in known_hits:
        print(f"KNOWN-FINDING: property={ctx.pid} {o['rule']} {o['construct']} {k.get('what', '')}")
    for o in unk:
        print(f"ANALYSIS-ERROR property={ctx.pid} {o['rule']} {o['construct']} {o['where']} {o['detail']}")
    if unk and not new_viol:
        return 2
    if new_viol:
        vdir = os.path.join(EVID, "violations"); os.makedirs(vdir, exist_ok=True)
        path = os.path.join(vdir, f"{ctx.pid}.json")
        with open(path, "w") as f:
            json.dump({"property": ctx.pid, "violations": new_viol, "repo": ctx.repo.root}, f, indent=1)
        for o in new_viol:
            print(f"VIOLATED-OBLIGATION property={ctx.pid} rule={o['rule']} construct={o['construct']} at {o['where']}: {o['detail']}"
                  + (f" | code: {o['lhs']} | required: {o['rhs']}" if ("lhs" in o and "rhs" in o) else ""))
        print(f"VIOLATION property={ctx.pid} replay={path}")
        return 1
    print(f"OK property={ctx.pid} tier={ctx.tier} obligations={n_ob} discharged={cov['discharged']} known={len(known_hits)} wall={wall:.2f}s")
    return 0


# ---------------------------------------------------------------------------- time budgets (a normal form that explodes must end as UNKNOWN, not as a hang)
_DEADLINE = [None]
_LOCAL = []          # stack of (deadline, what)


def _arm():
    import signal, time
    now = time.monotonic()
    cands = [d for d in [_DEADLINE[0]] + [d_ for d_, _ in _LOCAL] if d is not None]
    if not cands: signal.setitimer(signal.ITIMER_REAL, 0); return
    signal.setitimer(signal.ITIMER_REAL, max(0.05, min(cands) - now))


def _on_alarm(sig, frm):
    import time
    from .symalg import Unknown
    now = time.monotonic()
    if _DEADLINE[0] is not None and now >= _DEADLINE[0] - 0.01:
        _DEADLINE[0] = None; _arm()
        raise AnalysisError("analysis time budget exceeded (a normal form or a path enumeration grew beyond what this check can handle)")
    for i in range(len(_LOCAL) - 1, -1, -1):
        if now >= _LOCAL[i][0] - 0.01:
            what = _LOCAL[i][1]
            del _LOCAL[i:]
            _arm()
            raise Unknown(f"time budget exceeded while analysing {what}")
    _arm()


class limit:
    """with limit(seconds, what): ... raises symalg.Unknown inside the block when it runs longer (main thread only; no-op elsewhere)."""
    def __init__(s, seconds, what): s.seconds = seconds; s.what = what; s.on = False

    def __enter__(s):
        import threading, time
        if threading.current_thread() is threading.main_thread() and _DEADLINE[0] is not None:
            _LOCAL.append((time.monotonic() + s.seconds, s.what)); s.on = True; s.depth = len(_LOCAL); _arm()
        return s

    def __exit__(s, *a):
        if s.on:
            del _LOCAL[s.depth - 1:]
            _arm()
        return False


def run(pid, fn, tier, seed, repo_root):
    """top-level wrapper: tracebacks become exit 2."""
    from .model import Repo
    import signal, time
    try:
        signal.signal(signal.SIGALRM, _on_alarm)
        _DEADLINE[0] = time.monotonic() + float(os.environ.get("VERIF_BUDGET_S", "900" if tier == "quick" else "2400")); _arm()
    except Exception:
        _DEADLINE[0] = None
    try:
        repo = Repo(repo_root)
        ctx = Ctx(pid, tier, seed, repo)
        expl = fn(ctx)
        _DEADLINE[0] = None; del _LOCAL[:]; _arm()
        if tier == "thorough" and not os.environ.get("VERIF_NO_SELFTEST"):
            from . import selftest
            try: selftest.run(ctx)
            except Exception as ex:  # the adequacy run never decides the verdict
                ctx.notes.append(f"checker adequacy run failed: {type(ex).__name__}: {ex}")
        return finish(ctx, expl or "")
    except AnalysisError as ex:
        print(f"ANALYSIS-ERROR property={pid} {ex}")
        return 2
    except Exception as ex:  # noqa
        traceback.print_exc()
        print(f"ANALYSIS-ERROR property={pid} internal: {type(ex).__name__}: {ex}")
        return 2
