"""C01.R6 / C08: structure of the orthonormal polynomial basis builder."""
import ast
from .report import HOLDS, VIOLATED, UNKNOWN


def check_build_Q(ctx):
    key = "speckit/core.py::_build_Q"
    fn = ctx.repo.get(key)
    ctx.analysed(key)
    where = ctx.repo.where(key, fn)
    from .qbasis_impl import analyse
    for rule, status, detail, w in analyse(ctx.repo, fn):
        ctx.ob(rule, key, status, detail, f"speckit/core.py:{w}" if w else where)


def check_basis_finite(ctx, rule="R9-basis-finite-for-short-segments"):
    """every entry of the detrend basis is a finite number also for the shortest segments (L = 1, 2, 3): a closed form that divides by a norm
    vanishing for L <= order makes every statistic of such a segment NaN although the record is finite."""
    key = "speckit/core.py::_build_Q"
    fn = ctx.repo.get(key); ctx.analysed(key)
    where = ctx.repo.where(key, fn)
    from .qbasis_impl import finite_instance
    for order in (1, 2):
        for Lc in (1, 2, 3):
            f_ = finite_instance(ctx.repo, Lc, order)
            c = f"{key}[L={Lc},order={order}]"
            if f_ is True: ctx.holds(rule, c, "QR factor / finite closed form", where)
            elif f_ is None: ctx.unknown(rule, c, "basis not evaluable for this length", where)
            else: ctx.violated(rule, c, f"non-finite entry ({f_}): XX, YY, XY, M2 of a segment of this length are NaN for every finite record", where)
