"""C01.R6 / C08: structure of the orthonormal polynomial basis builder."""
import ast
from .report import HOLDS, VIOLATED, UNKNOWN


def check_build_Q(ctx):
    key = "speckit/core.py::_build_Q"
    fn = ctx.repo.get(key)
    ctx.analysed(key)
    where = ctx.repo.where(key, fn)
    from .qbasis_impl import analyse
    for rule, status, detail, w in analyse(ctx.repo, fn):
        ctx.ob(rule, key, status, detail, f"speckit/core.py:{w}" if w else where)
