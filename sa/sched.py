"""C02 / C03 / C04 - scheduler analysis.  Each scheduler is abstractly interpreted with symbolic
(N, fs, olap, bmin, Lmin, Jdes, Kdes); the frequency-walk loop is summarised once (entry symbols for
loop-carried values, per-iteration records for the appended plan fields); every rule is an identity
between the stored per-bin values, decided leaf by leaf over the decision tree of opaque branch
conditions (all paths through the loop body)."""
import ast
import re
from fractions import Fraction as Fr

from .symalg import X, KIND, ARRAY_KIND, mk_fn, mk_idx, mk_sum, compare, Unknown, declare_nonneg, C, NumEnv, evalx
from .values import *
from .absint import Interp, St
from . import libmodel as lm
from .report import AnalysisError, HOLDS, VIOLATED, UNKNOWN

SCHED = "speckit/schedulers.py"
NAMES = ("ltf_plan", "vectorized_ltf_plan", "new_ltf_plan")
PARAMS = ("N", "fs", "olap", "bmin", "Lmin", "Jdes", "Kdes")


def setup():
    KIND.update({"N": "nat", "fs": "pos", "olap": "real", "bmin": "pos", "Lmin": "nat", "Jdes": "nat", "Kdes": "nat", "pi": "pos"})
    lm.INT_FNS.update({"min", "max"})
    N_, J_, K_, ol = X.var("N"), X.var("Jdes"), X.var("Kdes"), X.var("olap")
    one = X.const(1)
    declare_nonneg(one - ol)
    declare_nonneg(one + (one - ol) * (K_ - 1))
    declare_nonneg(mk_fn("pow", [N_ / 2, one / J_], "pos") - 1)


def ref_consts():
    N, fs, ol, K, J = (X.var(k) for k in ("N", "fs", "olap", "Kdes", "Jdes"))
    one = X.const(1)
    return {"logfact": mk_fn("pow", [N / 2, one / J], "pos") - 1, "fresmin": fs / N, "freslim": fs / N * (one + (one - ol) * (K - 1)),
            "fmin": X.var("bmin") * fs / N, "fmax": fs / 2}


def count_formula(N, L):
    """1 + (N-L)/((1-olap) L)  (argument of the nearest-integer rounding)."""
    ol = X.var("olap")
    return X.const(1) + (N - L) / ((X.const(1) - ol) * L)


def ref_count(N, L, cap=True):
    k = mk_fn("nearest", [count_formula(N, L)])
    return lm.canon_minmax("min", [k, N - L + 1]) if cap else k


def norm_id(x, n=90):
    return re.sub(r"\$\d+", "$", repr(x))[:n]


class SchedRun:
    def __init__(s, repo, name, decide=None, trace=None):
        setup()
        s.repo = repo; s.name = name; s.key = f"{SCHED}::{name}"
        s.I = Interp(repo)
        s.I.hooks["call"] = s._call
        s.trace = trace if trace is not None else []
        if decide is not None: s.I.hooks["decide"] = decide
        s.rhu_nodes = []
        kw = {k: X.var(k) for k in PARAMS}
        if name == "new_ltf_plan": kw["num_patch_pts"] = None
        s.st = St()
        from . import values as _v
        _v.UNIFORM_CONDS[0] = True
        try: s.out = s.I.call_key(s.key, [], kw, s.st)
        finally: _v.UNIFORM_CONDS[0] = False
        s.env = s.I.last_env.get(s.key, {})
        loops = [sm for k, sm in s.I.loop_summaries.items() if isinstance(k, int) and sm.get("is_while")]
        s.loop = loops[0] if loops else None

    def _call(s, I_, fn, args, kwargs, st, node):
        name = fn.key.split("::")[-1].split(".")[-1]
        if name == "round_half_up":
            s.rhu_nodes.append(fn)
            return lift1(lambda x: x if lm.is_integer(x) else mk_fn("nearest", [x]), args[0])
        return NotImplemented

    def field(s, k, axis="i"):
        """(body in terms of X.var(axis), count) of the per-bin output array k."""
        if not isinstance(s.out, DictVal) or k not in s.out.d: return None
        v = s.out.d[k]
        A = as_arr(v) if not isinstance(v, ListVal) else None
        if A is None or is_opaque(A) or A.ndim != 1: return None
        (av, cnt), = A.axes
        return expand_defn(subst_val(A.body, {av: X.var(axis)})), cnt

    def d_item(s, axis="i", t="t"):
        """(count of starts of bin i, start t of bin i) from the ragged field D."""
        v = s.out.d.get("D") if isinstance(s.out, DictVal) else None
        if not isinstance(v, ListVal) or len(v.per_iter) != 1 or v.items or not isinstance(v.per_iter[0], tuple): return None
        jv, cnt, item = v.per_iter[0][:3]
        if isinstance(item, ListVal):
            if not item.per_iter and len(item.items) == 1 and to_x(item.items[0]) is not None:
                return X.const(1), subst_val(item.items[0], {jv: X.var(axis)})
            if len(item.per_iter) != 1 or item.items: return None
            tv, tc, val = item.per_iter[0][:3]
            return subst_val(expand_defn(tc), {jv: X.var(axis)}), expand_defn(subst_val(val, {jv: X.var(axis), tv: X.var(t)}))
        def conv(it):
            A = as_arr(it)
            if A is None or A.ndim != 1: return Opaque(f"D element {it!r}")
            (tv, tc), = A.axes
            return (subst_val(tc, {jv: X.var(axis)}), subst_val(A.body, {jv: X.var(axis), tv: X.var(t)}))
        if isinstance(item, PV):
            item = subst_val(item, {jv: X.var(axis)})
            jv = axis
            cnts = pv_apply(lambda it: conv(it)[0] if not is_opaque(conv(it)) else conv(it), item)
            vals = pv_apply(lambda it: conv(it)[1] if not is_opaque(conv(it)) else conv(it), item)
            return cnts, vals
        r = conv(item)
        return None if is_opaque(r) else r


class AggCtx:
    """collects obligations over many paths and reports each (rule, construct) once with its worst status."""
    ORDER = {HOLDS: 0, UNKNOWN: 1, VIOLATED: 2}

    def __init__(s, ctx):
        s.ctx = ctx; s.repo = ctx.repo; s.seed = ctx.seed; s.tier = ctx.tier
        s.acc = {}; s.order = []

    def ob(s, rule, construct, status, detail="", where="", lhs=None, rhs=None):
        k = (rule, construct)
        cur = s.acc.get(k)
        if cur is None:
            s.acc[k] = [status, detail, where, lhs, rhs, 1]; s.order.append(k)
        else:
            cur[5] += 1
            if s.ORDER[status] > s.ORDER[cur[0]]: cur[0:5] = [status, detail, where, lhs, rhs]
        return status

    def holds(s, rule, construct, detail="", where="", **kw): return s.ob(rule, construct, HOLDS, detail, where, **kw)
    def violated(s, rule, construct, detail="", where="", **kw): return s.ob(rule, construct, VIOLATED, detail, where, **kw)
    def unknown(s, rule, construct, detail="", where="", **kw): return s.ob(rule, construct, UNKNOWN, detail, where, **kw)

    def compare(s, rule, construct, code, ref, where="", detail="", prepare=None):
        st, why = compare(code, ref, prepare=prepare, seed=s.seed)
        d = detail + ("; " + why if why else "")
        return s.ob(rule, construct, st, d, where, lhs=code, rhs=ref)

    def analysed(s, *k): s.ctx.analysed(*k)
    def need(s, *a): s.ctx.need(*a)
    def trust(s, *a): s.ctx.trust(*a)
    def assume(s, *a): s.ctx.assume(*a)

    @property
    def notes(s): return s.ctx.notes

    def flush(s, bases=()):
        viol_bases = {(r, c.split("[")[0] + "[" + c.split("[")[1] if c.count("[") >= 2 else c) for (r, c), v in s.acc.items() if v[0] != HOLDS}
        for k in s.order:
            st, detail, where, lhs, rhs, cnt = s.acc[k]
            s.ctx.ob(k[0], k[1], st, (detail + f" [{cnt} paths]") if cnt > 1 else detail, where, lhs=lhs if st != HOLDS else None, rhs=rhs if st != HOLDS else None)


def sched_env(env):
    """numeric cross-check environment for scheduler quantities (used only to confirm that two different normal forms
    are different functions): a realistic configuration instead of O(1) random reals, so that clips and roundings are
    not saturated."""
    env.fixed.update({"N": 4096.0 + 37 * env.seed, "fs": 37.5, "Lmin": 5.0, "bmin": 1.5, "Jdes": 60.0, "Kdes": 12.0, "olap": 0.5 - 0.03 * env.seed,
                      "num_patch_pts": 50.0})


def for_paths(ctx, repo, name, fn):
    """run fn(agg_ctx, R, trace) on every path of scheduler `name`; returns number of paths."""
    DROPPED.pop(name, None)
    paths, runs = all_paths(repo, name)
    key = f"{SCHED}::{name}"
    ctx.need(f"complete paths through {name}", len(paths), 1)
    if DROPPED.get(name):
        fn_ = repo.get(key)
        ctx.unknown("paths-recognised", key, f"{len(DROPPED[name])} feasible paths return a plan whose per-bin fields are not recognised (first: [{DROPPED[name][0]}]): "
                    "nothing is decided about the bins produced on them", repo.where(key, fn_))
    A = AggCtx(ctx)
    for trace, R in paths:
        fn(A, R, remap_trace(R, trace))
    A.flush()
    ctx.extra.setdefault("paths", {})[name] = {"runs": runs, "complete": len(paths)}
    return len(paths)


def remap_trace(R, trace):
    """express the branch conditions met inside the summarised loops in the per-bin vocabulary of the outputs
    (entry symbol of a loop-carried variable -> its value at bin i)."""
    maps = []
    nodes = [sm.get("node") for k, sm in R.I.loop_summaries.items() if isinstance(k, int)]
    for k, sm in R.I.loop_summaries.items():
        if not isinstance(k, int): continue
        mp = dict(sm.get("remap") or {})
        iv = sm.get("ivar")
        nd = sm.get("node")
        # a loop nested in another summarised loop runs over the starts of one bin: its induction variable is t, not the bin index i
        inner = nd is not None and any(o is not None and o is not nd and any(c is nd for c in ast.walk(o)) for o in nodes)
        if mp or iv: maps.append((mp, iv, "t" if inner else "i"))
    out = []
    for cond, pol in trace:
        c = cond
        for mp, iv, axis in maps:
            fv = values_cond_fvs(c) if not getattr(c, "flag", None) else set()
            plain = {k: v for k, v in mp.items() if k in fv and isinstance(v, X)}
            if plain:
                c2 = subst_cond(c, plain)
                if isinstance(c2, bool): c = None; break
                c = c2
            fv = values_cond_fvs(c)
            if iv in fv:
                c2 = subst_cond(c, {iv: X.var(axis)})
                if isinstance(c2, bool): c = None; break
                c = c2
        if c is not None: out.append((c, pol))
    return out


DROPPED = {}


def all_paths(repo, name, max_paths=1500):
    """enumerate the decision tree of opaque branch conditions of one scheduler: [(trace, SchedRun)] for every
    complete path that returns a plan.  No feasibility reasoning beyond contradicting equalities."""
    out = []
    script = []
    n = 0
    while n < max_paths:
        n += 1
        trace = []

        def decide(cond, trace=trace, script=script):
            for c0, d0 in trace:
                if c0 is cond: return d0
            i = len(trace)
            d = script[i] if i < len(script) else True
            trace.append((cond, d))
            return d
        try:
            R = SchedRun(repo, name, decide, trace)
            ok = isinstance(R.out, DictVal)
        except Unknown:
            R = None; ok = False
        if ok and path_feasible(trace):
            f_ = R.field("f")
            if f_ is not None and not (isinstance(f_[1], X) and f_[1].iszero()):
                out.append((list(trace), R))
            elif f_ is None:
                DROPPED.setdefault(name, []).append(path_text(tuple(trace))[:200])       # a plan is returned whose frequency field is not recognised
        k = len(trace) - 1
        while k >= 0 and trace[k][1] is False: k -= 1
        if k < 0: break
        script = [d for _, d in trace[:k]] + [False]
    return out, n


def leafwise(ctx, rule, construct_base, where, vals, pred, detail, max_report=4, prefix=()):
    """evaluate pred(*leaves) -> (status, why, lhs, rhs) on every joint leaf of the decision trees `vals`."""
    results = []

    def f(*ls):
        results.append(ls); return len(results) - 1
    idx = pv_apply(f, *vals)
    paths = {}
    for path, k in pv_leaves(idx):
        paths.setdefault(k, path)
    worst = HOLDS; nrep = 0; nleaf = 0
    seen_ids = set()
    for k, ls in enumerate(results):
        if k not in paths: continue
        if not path_feasible(list(prefix) + list(paths[k])): continue
        nleaf += 1
        if any(is_opaque(l) for l in ls):
            bad = next(l for l in ls if is_opaque(l))
            st, why, lhs, rhs = (VIOLATED if isinstance(bad, Mismatch) else UNKNOWN), bad.why, None, None
        else:
            try: st, why, lhs, rhs = pred(*ls, path=list(prefix) + list(paths[k]))
            except Unknown as ex: st, why, lhs, rhs = UNKNOWN, str(ex), None, None
        if st == HOLDS: continue
        ident = norm_id(lhs if lhs is not None else why)
        if (st, ident) in seen_ids: continue
        seen_ids.add((st, ident))
        if nrep < max_report or st == VIOLATED:
            ctx.ob(rule, f"{construct_base}[{ident}]", st, f"{detail}: {why}; on the path {path_text(list(prefix) + list(paths[k]))[:400]}", where, lhs=lhs, rhs=rhs)
            nrep += 1
        if st == VIOLATED or worst == HOLDS: worst = st
    if worst == HOLDS:
        ctx.holds(rule, construct_base, detail, where)
    return worst


# ---------------------------------------------------------------------------- C03 rules
def check_grid(ctx, R, rules=("R1", "R2", "R3", "R4", "R5", "R6"), prefix=()):
    key = R.key; fn = R.repo.get(key); where = R.repo.where(key, fn)
    ctx.analysed(key)
    if not isinstance(R.out, DictVal):
        ctx.unknown("C03-structure", key, f"scheduler result not recognised: {R.out!r}"[:200], where); return
    F = {k: R.field(k) for k in ("f", "r", "b", "m", "L", "K", "navg", "O")}
    missing = [k for k, v in F.items() if v is None and k != "m"]
    if missing:
        ctx.unknown("C03-structure", key, f"per-bin output fields not recognised: {missing}", where); return
    fs = X.var("fs")
    f, r, b, L = F["f"][0], F["r"][0], F["b"][0], F["L"][0]

    def eqp(want_of):
        def p(*ls, path=None):
            got, want = want_of(*ls)
            g, w = path_rewrite(to_x(got), path), path_rewrite(to_x(want), path)
            st, why = compare(g, w, prepare=sched_env)
            if st == UNKNOWN and "agree numerically" in why:
                # the same clamp with a different bound: min(a, b) against min(a, b + c), c a non-zero constant.  The realistic configurations of the
                # numeric cross-check rarely reach the bound, but the property names the cap (N-L+1 distinct positions), so a shifted bound is a violation
                d_ = _shifted_clamp(g, w)
                if d_ is not None: return VIOLATED, f"the clamp bound differs by the constant {d_!r}", g, w
            return st, why, g, w
        return p
    if "R1" in rules:
        leafwise(ctx, "R1-resolution-matches-length", f"{key}[r*L]", where, [r, L], eqp(lambda r_, l_: (to_x(r_) * to_x(l_), fs)),
                 "stored resolution times stored segment length must equal fs", prefix=prefix)
    if "R6" in rules:
        # the segment length is the integer NEAREST to fs/r: truncation (int(), floor) lets f*L/fs fall below bmin by a full unit instead of half
        def nearest_only(l_, path=None):
            lx = to_x(l_)
            bad = [a for a in lx.all_atoms() if a.tag == "fn" and a.name in ("trunc", "floor", "ceil")]
            if bad: return VIOLATED, f"the stored length is {bad[0].name}(...) of the ideal length: a one-sided rounding, not the nearest integer", lx, None
            return HOLDS, "", lx, None
        leafwise(ctx, "R6-length-rounding", f"{key}[L rounding]", where, [L], nearest_only, "L is the integer nearest to fs/r", prefix=prefix)
    if "R5" in rules:
        leafwise(ctx, "R5-bin-number", f"{key}[b]", where, [b, f, r], eqp(lambda b_, f_, r_: (to_x(b_), to_x(f_) / to_x(r_))), "reported bin number must be f/r", prefix=prefix)
        if F["m"] is not None:
            leafwise(ctx, "R5-bin-number", f"{key}[m]", where, [F["m"][0], b], eqp(lambda m_, b_: (m_, b_)), "alias m must equal b", prefix=prefix)
    S = R.loop
    if S is None:
        ctx.unknown("R2-stepping", key, "frequency-walk loop not found", where); return
    carried = [nm for nm in S["entry"] if _is_loop_freq(S, nm, f)]
    if len(carried) != 1:
        ctx.unknown("R2-stepping", key, f"loop variable holding the current frequency not identified ({carried})", where); return
    fv = carried[0]
    en = S["entry"][fv]
    iv = S["ivar"]
    if "R2" in rules:
        nxt = subst_val(S["next"][fv], S["remap"]) if S["next"].get(fv) is not None else None
        nxt = subst_val(nxt, {iv: X.var("i")}) if nxt is not None else None
        if nxt is None: ctx.unknown("R2-stepping", key, "next frequency not recognised", where)
        else:
            leafwise(ctx, "R2-stepping", f"{key}[f next]", where, [nxt, f, r], eqp(lambda n_, f_, r_: (to_x(n_), to_x(f_) + to_x(r_))),
                     "next frequency must be the stored frequency plus the stored resolution", prefix=prefix)
    if "R3" in rules:
        pre = S["pre"][fv]
        ctx.compare("R3-origin", f"{key}[f0]", to_x(pre), ref_consts()["fmin"], where, detail="first frequency must be bmin*fs/N")
    if "R4" in rules:
        t = S["test"]
        ok = isinstance(t, PV) and t.hi is True and t.lo is False and getattr(t.cond, "lt", None) is not None and t.cond.lt.eq(X.var(en) - fs / 2)
        if ok: ctx.holds("R4-below-nyquist", f"{key}[loop test]", "bins are produced only while f < fs/2", where)
        elif isinstance(t, PV) and getattr(t.cond, "lt", None) is not None:
            ctx.violated("R4-below-nyquist", f"{key}[loop test]", f"loop continues while {t!r}, not while f < fs/2 (a bin at or above Nyquist can be produced)", where)
        else: ctx.unknown("R4-below-nyquist", f"{key}[loop test]", f"loop test {t!r}"[:200], where)
        # the stored frequency is the loop variable's value at entry (not modified before it is stored)
        fe = subst_val(f, {})
        want = S["remap"][en]
        want = subst_val(want, {iv: X.var("i")})
        leafwise(ctx, "R4-below-nyquist", f"{key}[f stored]", where, [f, want], eqp(lambda a, b_: (a, b_)), "stored frequency must be the tested loop value", prefix=prefix)


def _is_loop_freq(S, nm, f):
    en = S["entry"][nm]
    want = subst_val(S["remap"][en], {S["ivar"]: X.var("i")})
    for _, leaf in pv_leaves(f):
        if isinstance(leaf, X) and isinstance(want, X) and leaf.eq(want): return True
    return False


def check_bmin_guard(ctx, R, prefix=()):
    """the bmin enforcement tests the resolution that the three-way compromise selected on that path
    (structural core of 'no bin falls below bmin by more than the rounding of L')."""
    key = R.key; where = R.repo.where(key, R.repo.get(key))
    Ff = R.field("f"); FL = R.field("L")
    if Ff is None or FL is None: return
    refs = ref_consts()
    bmin = X.var("bmin")
    fx = next((l for _, l in pv_leaves(Ff[0]) if isinstance(l, X)), None)
    if fx is None: return
    ideal = fx * refs["logfact"]
    c_a = ideal - refs["freslim"]
    mid = (refs["freslim"] * ideal).sqrt()
    c_b = refs["fresmin"] - mid

    def chosen(path):
        pa = pb = None
        for cond, pol in path:
            d = getattr(cond, "lt", None)
            if d is None: continue
            if d.eq(c_a): pa = pol
            elif d.eq(-c_a): pa = not pol
            if d.eq(c_b): pb = pol
            elif d.eq(-c_b): pb = not pol
        if pa is False: return ideal          # fres_ideal >= freslim
        if pa is True and pb is True: return mid
        if pa is True and pb is False: return refs["fresmin"]
        return None

    def freq_of(path):
        """the frequency at which the compromise is evaluated on this path: phi with (phi*logfact - freslim) tested."""
        for cond, pol in path:
            d = getattr(cond, "lt", None)
            if d is None: continue
            for sg in (1, -1):
                try: phi = (d * sg + refs["freslim"]) / refs["logfact"]
                except Unknown: continue
                if not ({"Kdes", "olap"} & phi.fv()) and phi.fv(): return phi
        return None

    def g(l, path=None):
        nonlocal ideal, c_a, mid, c_b, fx
        phi = freq_of(path)
        if phi is not None and not phi.eq(fx):
            fx = phi
            ideal = fx * refs["logfact"]; c_a = ideal - refs["freslim"]
            mid = (refs["freslim"] * ideal).sqrt(); c_b = refs["fresmin"] - mid
        rho_star = chosen(path)
        if rho_star is None: return HOLDS, "", None, None
        for cond, pol in path:
            d = getattr(cond, "lt", None)
            if d is None or "bmin" not in d.fv(): continue
            # d = f/rho - bmin  (fbin < bmin)
            try:
                q = (d + bmin)
                if q.iszero(): continue
                rho = fx / q
            except Unknown:
                continue
            try:
                cands = [ideal, mid, refs["fresmin"]]
                if not any(rho.eq(cd) for cd in cands): continue
            except Unknown:
                continue
            if rho.eq(rho_star): return HOLDS, "", rho, rho_star
            return VIOLATED, ("the minimum-bin test compares f/rho with bmin for rho = a resolution that is not the one selected on this path: the cap is applied "
                              "(or skipped) for the wrong bins, so bins can fall below bmin"), rho, rho_star
        # the compromise was identified on this path but the resolution it selected is never compared with f/bmin
        return VIOLATED, ("no minimum-bin test is made on this path: the resolution selected by the three-way compromise is used without comparing f/rho with bmin, "
                          "so on this branch bins fall below bmin"), None, rho_star
    leafwise(ctx, "R7-bmin-enforcement", f"{key}[bmin test]", where, [FL[0]], g, "the bmin cap tests the selected resolution", prefix=prefix)


def check_bmin_tested(ctx, R, prefix=()):
    """multi-stage scheduler: on every path that stores a bin, the bin number is compared with bmin (whatever the stage that chose the
    length).  A stage whose bins are stored without that comparison can fall below bmin (the cap of the other stages does not reach it)."""
    key = R.key; where = R.repo.where(key, R.repo.get(key))
    FL = R.field("L")
    if FL is None: return

    def g(l, path=None):
        for cond, pol in path or ():
            d = getattr(cond, "lt", None)
            if d is not None and "bmin" in d.fv(): return HOLDS, "", None, None
            if d is None and "bmin" in getattr(cond, "text", ""): return HOLDS, "", None, None
        return VIOLATED, ("no minimum-bin test is made on this path: the segment length chosen by this stage is stored without comparing f*L/fs with bmin, "
                          "so the bins of this stage can fall below bmin"), None, None
    leafwise(ctx, "R7-bmin-enforcement", f"{key}[bmin tested on every stage]", where, [FL[0]], g, "every stored bin passes a bmin comparison", prefix=prefix)


def check_bmin_mask(ctx, R, prefix=()):
    """array form of the bmin enforcement (vectorised scheduler): where the mask `f/rho < bmin` holds the length is built from
    rho' = f/bmin, and the rho tested by the mask is the one the unmasked branch uses:  z_masked * (f/rho_tested) == bmin * z_unmasked
    with z = the argument of the rounding that defines L (z_masked = fs*bmin/f, z_unmasked = fs/rho)."""
    key = R.key; where = R.repo.where(key, R.repo.get(key))
    FL = R.field("L")
    if FL is None: return
    bmin = X.var("bmin"); N = X.var("N")

    def zarg(x):
        if x.eq(N): return N                      # L = N on every branch: round(fs / (fs/N)) = N
        ats = [a for a in x.all_atoms() if a.tag == "fn" and a.name == "nearest"]
        return ats[0].args[0] if len(ats) == 1 else None

    def first_leaf(v):
        allN = True
        for _, l in pv_leaves(v):
            if isinstance(l, X) and not l.eq(N): return l
            if not isinstance(l, X): allN = False
        return N if allN else None
    def has_lt(v):
        return isinstance(v, PV) and (getattr(v.cond, "lt", None) is not None or has_lt(v.hi) or has_lt(v.lo))
    found = 0
    stack = [FL[0]]
    while stack:
        v = stack.pop()
        if not isinstance(v, PV): continue
        d = getattr(v.cond, "lt", None)
        # the mask is the last inequality decided before the length is stored (after the three-way compromise, before the K == 1 widening)
        if d is not None and not has_lt(v.hi) and not has_lt(v.lo):
            hi, lo = first_leaf(v.hi), first_leaf(v.lo)
            zt, zf = (zarg(hi) if hi is not None else None), (zarg(lo) if lo is not None else None)
            c = f"{key}[bmin mask]"
            found += 1
            if zt is None or zf is None:
                ctx.unknown("R7-bmin-enforcement", c, "masked / unmasked segment lengths not recognised", where)
            else:
                try:
                    st_, why = compare(zt * (d + bmin), bmin * zf, prepare=sched_env)
                except Unknown as ex:
                    st_, why = UNKNOWN, str(ex)
                ctx.ob("R7-bmin-enforcement", c, st_, "" if st_ == HOLDS else ("where the mask f/rho < bmin holds the length must come from rho' = f/bmin, and the rho the mask tests must be the "
                       "resolution the unmasked bins use: " + why), where, lhs=zt * (d + bmin) if st_ != HOLDS else None, rhs=bmin * zf if st_ != HOLDS else None)
            continue
        stack.append(v.hi); stack.append(v.lo)
    if not found:
        ctx.unknown("R7-bmin-enforcement", f"{key}[bmin mask]", "no inequality decided before the stored segment length found", where)


def check_lpsd_wrapper(ctx, repo):
    key = f"{SCHED}::lpsd_plan"; fn = repo.get(key); where = repo.where(key, fn)
    ctx.analysed(key)
    setup()
    I = Interp(repo)
    got = {}
    SENT = DictVal({"sentinel": "ltf-result"})

    def call(I_, f, args, kwargs, st, node):
        if f.key == f"{SCHED}::ltf_plan":
            got["kw"] = dict(kwargs); got["args"] = list(args); return SENT
        return NotImplemented
    I.hooks["call"] = call
    kw = {k: X.var(k) for k in PARAMS}
    r = I.call_key(key, [], kw, St())
    if "kw" not in got:
        ctx.violated("R6-lpsd-is-ltf", key, "lpsd_plan does not delegate to ltf_plan", where); return
    k2 = got["kw"]
    for p in PARAMS:
        v = k2.get(p)
        want = X.const(1) if p in ("bmin", "Lmin") else X.var(p)
        c = f"{key}[{p}]"
        if v is None: ctx.violated("R6-lpsd-is-ltf", c, f"argument {p} is not forwarded to ltf_plan", where)
        elif to_x(v) is None: ctx.unknown("R6-lpsd-is-ltf", c, f"forwarded value {v!r}", where)
        else: ctx.compare("R6-lpsd-is-ltf", c, to_x(v), want, where, detail="LPSD = LTF with bmin=1, Lmin=1 and everything else unchanged")
    (ctx.holds if r is SENT else ctx.violated)("R6-lpsd-is-ltf", f"{key}[result]", "ltf_plan's result returned unmodified" if r is SENT else
                                              f"result of ltf_plan is post-processed: {r!r}"[:200], where)


# ---------------------------------------------------------------------------- C02 / C04 rules
def _shifted_clamp(g, w):
    """c if g = min/max(a, b + c) and w = min/max(a, b) with the same a and a non-zero constant c, else None."""
    def top(x):
        if len(x.m) == 1 and not x.p and x.c == C(1):
            (a, e), = x.m.items()
            if e == 1 and a.tag == "fn" and a.name in ("min", "max") and len(a.args) == 2: return a
        return None
    ag, aw = top(g), top(w)
    if ag is None or aw is None or ag.name != aw.name: return None
    for i in (0, 1):
        for j in (0, 1):
            try:
                if ag.args[i].eq(aw.args[j]):
                    d = (ag.args[1 - i] - aw.args[1 - j]).constval()
                    if d is not None and not d.iszero(): return ag.args[1 - i] - aw.args[1 - j]
            except Unknown:
                pass
    return None


def check_segmentation(ctx, R, rules=("R1", "R2", "R3", "R4", "R5"), prefix=()):
    key = R.key; fn = R.repo.get(key); where = R.repo.where(key, fn)
    if not isinstance(R.out, DictVal):
        ctx.unknown("C02-structure", key, f"scheduler result not recognised: {R.out!r}"[:200], where); return
    F = {k: R.field(k) for k in ("L", "K", "navg", "O", "f")}
    D = R.d_item()
    if any(v is None for v in F.values()) or D is None:
        ctx.unknown("C02-structure", key, f"plan fields not recognised: {[k for k, v in F.items() if v is None] + ([] if D else ['D'])}", where); return
    N = X.var("N")
    L, K, navg, O = F["L"][0], F["K"][0], F["navg"][0], F["O"][0]
    dcount, dval = D

    def eqp(want_of):
        def p(*ls, path=None):
            got, want = want_of(*ls)
            g, w = path_rewrite(to_x(got), path), path_rewrite(to_x(want), path)
            st, why = compare(g, w, prepare=sched_env)
            if st == UNKNOWN and "agree numerically" in why:
                d_ = _shifted_clamp(g, w)        # the cap N-L+1 written with another constant
                if d_ is not None: return VIOLATED, f"the clamp bound differs by the constant {d_!r}", g, w
            return st, why, g, w
        return p
    if "R1" in rules:
        leafwise(ctx, "R1-one-count", f"{key}[K=navg]", where, [K, navg], eqp(lambda k, n: (k, n)), "reported K and navg must be the same number", prefix=prefix)
        leafwise(ctx, "R1-one-count", f"{key}[K=len(D)]", where, [K, dcount], eqp(lambda k, n: (k, n)),
                 "reported number of averages must be the number of starts generated", prefix=prefix)
    if "R3" in rules:
        leafwise(ctx, "R3-count-formula-and-cap", f"{key}[K(L)]", where, [K, L], eqp(lambda k, l: (k, ref_count(N, to_x(l)))),
                 "number of averages must be min(nearest(1+(N-L)/((1-olap)L)), N-L+1) of the stored L", prefix=prefix)
    if "R4" in rules:
        def single(l, path=None):
            lx = to_x(l)
            if lx.eq(N): return HOLDS, "", lx, None
            want = mk_fn("nearest", [count_formula(N, lx)])
            for cond, pol in path:
                if pol is False:
                    sv = eq_solve(cond)
                    if sv is not None and sv[1].eq(X.const(1)) and X.atom(sv[0]).eq(want): return HOLDS, "", lx, None
            return VIOLATED, ("a bin can be stored with this L although a single segment results (K(L)=1 needs L=N): the single-segment fix-up "
                              "`if K(L)==1: L=N` is not applied to the final value of L on this path"), lx, N
        leafwise(ctx, "R4-single-segment-uses-record", f"{key}[L]", where, [L], single, "K=1 must imply L=N", prefix=prefix)
    if "R5" in rules:
        # lower clamp: a stored L is Lmin, N, a max(.., Lmin) form, or lies on a path where `L < Lmin` was tested on that very value and failed
        Lmin = X.var("Lmin")

        def clamped(l, path=None):
            lx = to_x(l)
            if lx.eq(N) or lx.eq(Lmin): return HOLDS, "", lx, None
            def has_floor(x):
                for a in x.all_atoms():
                    if a.tag == "fn" and a.name == "max" and any(isinstance(g, X) and g.eq(Lmin) for g in a.args): return True
                return False
            if has_floor(lx): return HOLDS, "", lx, None
            for cond, pol in path:
                d = getattr(cond, "lt", None)
                if d is None: continue
                try:
                    if pol is False and path_rewrite(d, path).eq(path_rewrite(lx - Lmin, path)): return HOLDS, "", lx, None      # not (L < Lmin)
                    if pol is True and path_rewrite(d, path).eq(path_rewrite(Lmin - lx, path)): return HOLDS, "", lx, None       # Lmin < L
                except Unknown:
                    continue
            # L19: a length recomputed as fs*bmin/f under the guard f/r < bmin exceeds the (clamped) length fs/r it replaces
            zs = [a.args[0] for a in lx.all_atoms() if a.tag == "fn" and a.name in ("trunc", "nearest", "floor", "ceil")]
            if len(zs) == 1 and "bmin" in zs[0].fv() and any(getattr(c_, "lt", None) is not None and "Lmin" in c_.lt.fv() for c_, _ in path) \
                    and any(getattr(c_, "lt", None) is not None and p_ and "bmin" in c_.lt.fv() for c_, p_ in path):
                return HOLDS, "", lx, None
            return VIOLATED, ("a bin is stored with this L although it was never compared with Lmin on this path (no clamp `if L < Lmin: L = Lmin`, no max(L, Lmin)): "
                              "segments shorter than the configured minimum are planned, and plan() rejects the scheduler's own output"), lx, Lmin
        leafwise(ctx, "R6-minimum-length-clamp", f"{key}[L>=Lmin]", where, [L], clamped, "a stored L is at least Lmin", prefix=prefix)
    if "R2" in rules:
        # start generator: on every path, starts are nearest(t*(N-L)/(K-1)) (K>1) or [0] (K=1)
        def gen(kk, ll, dd, path=None):
            kx, lx, dx = path_rewrite(to_x(kk), path), to_x(ll), to_x(dd)
            if generator_infeasible(path, to_x(kk), lx): return HOLDS, "", None, None
            k_raw = to_x(kk)
            if kx.eq(X.const(1)) or any(getattr(c, "lt", None) is not None and pol is False and (c.lt.eq(X.const(1) - k_raw) or c.lt.eq(X.const(1) - kx)) for c, pol in path):
                v0 = canon_round(path_rewrite(dx.subst({"t": X.const(0)}), path))
                return (HOLDS if v0.iszero() else VIOLATED), "a single segment must start at sample 0", v0, X.const(0)
            want = mk_fn("nearest", [X.var("t") * (N - lx) / (kx - 1)])
            got = canon_round(path_rewrite(dx, path))
            st, why = compare(got, want, prepare=sched_env)
            return st, "starts must be nearest(t*(N-L)/(K-1)), t=0..K-1 (first 0, last N-L, evenly spread) " + why, got, want
        leafwise(ctx, "R2-start-generator", f"{key}[starts]", where, [K, L, dval], gen, "segment starts follow the reference generator", prefix=prefix)
    return F, D


def path_feasible(path):
    """False when the equalities assumed on the path contradict another condition of the path (after rewriting)."""
    table = {}
    for cond, pol in path:
        if pol:
            sv = eq_solve(cond)
            if sv is not None: table[sv[0].key] = sv[1]
    if not table: return True
    for cond, pol in path:
        try:
            d = getattr(cond, "lt", None)
            if d is not None:
                c = d.rewrite(table).constval()
                if c is not None and c.im == 0 and ((c.re < 0) != pol): return False
            e = getattr(cond, "eq", None)
            if e is not None:
                c = (e[1] - e[2]).rewrite(table).constval()
                if c is not None and (c.iszero() != pol): return False
        except Unknown:
            continue
    return True


def nearest_x(x):
    return x if lm.is_integer(x) else mk_fn("nearest", [x])


def eq_solve(cond):
    """`a == b` that is affine in exactly one function/array atom with constant coefficients -> (atom, constant value)."""
    e = getattr(cond, "eq", None)
    if e is None: return None
    d = e[1] - e[2]
    n, dn = d.rational()
    if not dn.single() or list(dn.t.keys())[0] != (): return None
    c0 = C(0); c1 = None; atom = None
    for m, c in n.t.items():
        if m == (): c0 = c; continue
        if len(m) != 1 or m[0][1] != 1 or atom is not None: return None
        atom = m[0][0]; c1 = c
    if atom is None or atom.tag not in ("fn", "idx") or c1.iszero(): return None
    return atom, X((-c0) * c1.inv())


def path_rewrite(x, path):
    """apply the equalities assumed on a path (cond `atom == const` taken as true) as rewrites."""
    if not path: return x
    table = {}
    for cond, pol in path:
        if not pol: continue
        sv = eq_solve(cond)
        if sv is not None: table[sv[0].key] = sv[1]
    if not table: return x
    try: return x.rewrite(table)
    except Unknown: return x


def generator_infeasible(path, kx, lx):
    """paths excluded by trusted lemmas: (L4') with K = min(., N-L+1) and K>1 the step (N-L)/(K-1) is >= 1;
    (L18) start positions t*step are >= 0 (given L <= N)."""
    N = X.var("N")
    capped = any(a.tag == "fn" and a.name == "min" and any(isinstance(g, X) and g.eq(N - lx + 1) for g in a.args) for a in kx.atoms())
    for cond, pol in path:
        d = getattr(cond, "lt", None)
        if d is None: continue
        try:
            if capped and pol and (kx - 1).constval() is None and d.eq((N - lx) / (kx - 1) - 1): return True
            if pol:
                for step in (X.const(1), (N - lx) / (kx - 1) if (kx - 1).constval() is None else X.const(1)):
                    n_, _ = d.rational()
                    q = d / step
                    # d = (non-negative position) : an accumulated start  i * step
                    fvq = q.fv()
                    if fvq and all(v.startswith(("it$", "t")) or v == "t" for v in fvq):
                        cq = q.subst({v: X.const(1) for v in fvq}).constval()
                        if cq is not None and cq.im == 0 and cq.re > 0: return True
        except Unknown:
            continue
    return False


def canon_round(x):
    """trunc(y + 1/2) and nearest(y) coincide for y >= 0 (starts are non-negative)."""
    def f(a):
        if a.tag == "fn" and a.name == "trunc":
            y = a.args[0] - Fr(1, 2)
            n_, d_ = y.rational()
            if () not in n_.t:       # the argument is y + 1/2 with no other constant term: round-half-up of y
                return mk_fn("nearest", [y.map_atoms(f)])
            return mk_fn("trunc", [a.args[0].map_atoms(f)])
        if a.tag == "fn" and a.name == "nearest":
            return mk_fn("nearest", [a.args[0].map_atoms(f)])
        return X.atom(a)
    return x.map_atoms(f)


def _conds(v, acc=None):
    acc = acc if acc is not None else set()
    if isinstance(v, PV):
        acc.add(v.cond); _conds(v.hi, acc); _conds(v.lo, acc)
    return acc


def _flag_combos(flags):
    flags = sorted(flags, key=lambda c: c.text)
    if not flags: return [{}]
    out = [{}]
    for c in flags:
        out = [{**o, c: v} for o in out for v in (False, True)]
    return out


def _chooser(cfg, fi_val, flagvals):
    def choose(cond):
        if cond in flagvals: return flagvals[cond]
        env = NumEnv(3); env.fixed.update(cfg)
        env.fn_override = {"searchsorted": lambda av: 6.0 * cfg.get("Jdes", 100.0)}
        old_arr = env.arr

        def arr(a, idx):
            if "@" in a.name and a.name.split("@")[0] in ("fi", "current_f"): return fi_val
            if a.name.split("@")[0] in ("dftlen_crossover",): return 500.0
            if a.name.split("@")[0] in ("alpha",): return -0.01
            if a.name.split("@")[0] in ("k_stage2", "j"): return 10.0
            return old_arr(a, idx)
        env.arr = arr
        old_var = env.var

        def var(a):
            if a.name == "t": return 3.0
            if a.name == "i": return 5.0
            return old_var(a)
        env.var = var
        d = getattr(cond, "lt", None)
        try:
            if d is not None: return evalx(d, env).real < 0
            e = getattr(cond, "eq", None)
            if e is not None: return abs(evalx(e[1] - e[2], env)) < 1e-9
        except Exception:
            return None
        return None
    return choose


def select_pv(v, choose):
    while isinstance(v, PV):
        t = choose(v.cond)
        if t is None: return v
        v = v.hi if t else v.lo
    return v


def check_overlap(ctx, R, prefix=()):
    key = R.key; where = R.repo.where(key, R.repo.get(key))
    F = {k: R.field(k) for k in ("L", "K", "O")}
    D = R.d_item()
    if any(v is None for v in F.values()) or D is None:
        ctx.unknown("R3-reported-overlap", key, "plan fields not recognised", where); return
    N = X.var("N")
    L, K, O = F["L"][0], F["K"][0], F["O"][0]
    dcount, dval = D

    def ov(o, l, k, d, path=None):
        ox, lx, kx = to_x(o), to_x(l), path_rewrite(to_x(k), path)
        if generator_infeasible(path, to_x(k), lx): return HOLDS, "", None, None
        if kx.eq(X.const(1)) or any((getattr(c, "lt", None) is not None and c.lt.eq(X.const(1) - to_x(k)) and pol is False) for c, pol in path):
            return (HOLDS if ox.iszero() else VIOLATED), "overlap of a single segment is reported as 0", ox, X.const(0)
        closed = X.const(1) - ((N - lx) / (kx - 1)) / lx
        if ox.eq(closed): return HOLDS, "", ox, closed
        dx = to_x(d)
        s0 = dx; s1 = dx.subst({"t": X.var("t") + 1})
        lit = mk_sum("t", kx - 1, (lx - (s1 - s0)) / lx) / (kx - 1)
        if ox.eq(lit): return HOLDS, "", ox, lit
        st, why = compare(ox, closed, prepare=sched_env)
        return st, "reported overlap must be 1 - meanstep/L with meanstep = (N-L)/(K-1) (or the literal mean over successive starts) " + why, ox, closed
    leafwise(ctx, "R3-reported-overlap", f"{key}[O]", where, [O, L, K, dval], ov, "reported overlap is the realised mean overlap", prefix=prefix)


def check_constants(ctx, R):
    """log-spacing constants by value: some local variable must hold each reference constant."""
    key = R.key; where = R.repo.where(key, R.repo.get(key))
    refs = ref_consts()
    env = R.env
    vals = {nm: to_x(v) for nm, v in env.items() if to_x(v) is not None and not isinstance(v, bool)}
    for cname in ("logfact", "fresmin", "freslim"):
        want = refs[cname]
        holder = [nm for nm, x in vals.items() if x.eq(want)]
        c = f"{key}[{cname}]"
        if holder: ctx.holds("R2-log-spacing-constants", c, f"held by {holder[0]}", where)
        else:
            # a near miss: a variable built from the same inputs but a different expression
            fv = want.fv()
            near = [(nm, x) for nm, x in vals.items() if x.fv() == fv and not x.isconst()]
            if near:
                ctx.violated("R2-log-spacing-constants", c, f"no variable equals the reference {cname}; {near[0][0]} = {near[0][1]!r} is built from the same inputs but differs", where,
                             lhs=near[0][1], rhs=want)
            else:
                ctx.unknown("R2-log-spacing-constants", c, f"reference constant {cname} = {want!r} is not held by any local variable", where)


def collect_compromise(R, trace, found):
    """per path: which of the three reference segment lengths is stored, which reference tests were made."""
    F = R.field("L"); Ff = R.field("f")
    if F is None or Ff is None: return
    refs = ref_consts()
    fx = next((l for _, l in pv_leaves(Ff[0]) if isinstance(l, X)), None)
    if fx is None: return
    fs = X.var("fs")
    ideal = fx * refs["logfact"]
    c_a = ideal - refs["freslim"]
    mid = (refs["freslim"] * ideal).sqrt()
    c_b = refs["fresmin"] - mid
    wantL = {"log": nearest_x(fs / ideal), "mid": nearest_x(fs / mid), "min": nearest_x(fs / refs["fresmin"])}
    found.setdefault("wantL", wantL); found.setdefault("c_a", c_a); found.setdefault("c_b", c_b)
    found.setdefault("L", set()); found.setdefault("conds", []); found.setdefault("tests", set()); found.setdefault("near", {})
    iv = R.loop["ivar"] if R.loop else None
    for _, leaf in pv_leaves(F[0]):
        lx = to_x(leaf) if not is_opaque(leaf) else None
        if lx is None: continue
        for k, w in wantL.items():
            if lx.eq(w): found["L"].add(k)
    en_map = R.loop["remap"] if R.loop else {}
    for cond, pol in trace:
        d = getattr(cond, "lt", None)
        if d is None: continue
        dd = subst_val(subst_val(d, en_map), {iv: X.var("i")}) if iv else d
        if isinstance(dd, X):
            for lab, ref in (("a", c_a), ("b", c_b)):
                if dd.eq(ref) or dd.eq(-ref): found["tests"].add(lab)
                elif dd.fv() == ref.fv() and lab not in found["near"]: found["near"][lab] = (dd, ref)


def report_compromise(ctx, repo, name, found):
    key = f"{SCHED}::{name}"; where = repo.where(key, repo.get(key))
    if "wantL" not in found:
        ctx.unknown("R2-resolution-compromise", key, "stored L / f not recognised", where); return
    wantL, c_a, c_b = found["wantL"], found["c_a"], found["c_b"]
    stage = "" if name != "new_ltf_plan" else " (stage 1)"
    for k, label in (("log", "f*logfact (log-spaced region)"), ("mid", "sqrt(freslim*f*logfact) (transition)"), ("min", "fresmin (lowest frequencies)")):
        c = f"{key}[L from {k}]"
        if k in found["L"]: ctx.holds("R2-resolution-compromise", c, f"segment length nearest(fs/{label}) is produced{stage}", where)
        else: ctx.violated("R2-resolution-compromise", c, f"no path stores L = {wantL[k]!r}, i.e. the resolution {label} with the reference constants is never used", where, rhs=wantL[k])
    for label, lab in (("fres >= freslim", "a"), ("sqrt(freslim*fres) > fresmin", "b")):
        c = f"{key}[test {label}]"
        if lab in found["tests"]: ctx.holds("R2-resolution-compromise", c, "", where)
        elif lab in found["near"]:
            got, ref = found["near"][lab]
            ctx.violated("R2-resolution-compromise", c, f"the test {label} with freslim = fresmin*(1+(1-olap)(Kdes-1)) is not made; found {got!r} < 0 instead of {ref!r} < 0", where)
        else: ctx.unknown("R2-resolution-compromise", c, "test not found among the branch conditions", where)


def check_compromise(ctx, R):
    """the three-way resolution compromise, observed through the stored L on the unclamped paths."""
    key = R.key; where = R.repo.where(key, R.repo.get(key))
    S = R.loop
    F = R.field("L"); Ff = R.field("f")
    if S is None or F is None or Ff is None:
        ctx.unknown("R2-resolution-compromise", key, "loop / fields not recognised", where); return
    refs = ref_consts()
    f = Ff[0]
    fx = next((l for _, l in pv_leaves(f) if isinstance(l, X)), None)
    if fx is None: ctx.unknown("R2-resolution-compromise", key, "stored frequency not recognised", where); return
    fs = X.var("fs")
    ideal = fx * refs["logfact"]
    c_a = ideal - refs["freslim"]                      # fres_ideal >= freslim  <=>  not (c_a < 0)
    mid = (refs["freslim"] * ideal).sqrt()
    c_b = refs["fresmin"] - mid                        # sqrt(freslim*fres) > fresmin  <=>  c_b < 0
    wantL = {"log": nearest_x(fs / ideal), "mid": nearest_x(fs / mid), "min": nearest_x(fs / refs["fresmin"])}
    L = F[0]
    found = {"log": False, "mid": False, "min": False}
    conds = _conds(L)
    have_a = any(getattr(c, "lt", None) is not None and (c.lt.eq(c_a) or c.lt.eq(-c_a)) for c in conds)
    have_b = any(getattr(c, "lt", None) is not None and (c.lt.eq(c_b) or c.lt.eq(-c_b)) for c in conds)
    for _, leaf in pv_leaves(L):
        lx = to_x(leaf) if not is_opaque(leaf) else None
        if lx is None: continue
        for k, w in wantL.items():
            if lx.eq(w): found[k] = True
    stage = "" if R.name != "new_ltf_plan" else " (stage 1)"
    for k, label in (("log", "f*logfact (log-spaced region)"), ("mid", "sqrt(freslim*f*logfact) (transition)"), ("min", "fresmin (lowest frequencies)")):
        c = f"{key}[L from {k}]"
        if found[k]: ctx.holds("R2-resolution-compromise", c, f"segment length nearest(fs/{label}) is produced{stage}", where)
        else: ctx.violated("R2-resolution-compromise", c, f"no path stores L = {wantL[k]!r}, i.e. the resolution {label} with the reference constants is never used", where, rhs=wantL[k])
    for ok, label, d in ((have_a, "fres >= freslim", c_a), (have_b, "sqrt(freslim*fres) > fresmin", c_b)):
        c = f"{key}[test {label}]"
        if ok: ctx.holds("R2-resolution-compromise", c, "", where)
        else:
            cand = [cn for cn in conds if getattr(cn, "lt", None) is not None and cn.lt.fv() == d.fv()]
            if cand: ctx.violated("R2-resolution-compromise", c, f"the test {label} with freslim = fresmin*(1+(1-olap)(Kdes-1)) is not made; found {cand[0].lt!r} < 0 instead of {d!r} < 0", where)
            else: ctx.unknown("R2-resolution-compromise", c, "test not found among the branch conditions", where)


def check_zero_divisor(ctx, R, prefix=()):
    """a loop-carried variable initialised to the literal 0 must not be used as a divisor before it is redefined."""
    key = R.key; where = R.repo.where(key, R.repo.get(key))
    S = R.loop
    if S is None: ctx.unknown("R5-zero-initialised-divisor", key, "loop not found", where); return
    zero_init = {nm: en for nm, en in S["entry"].items() if to_x(S["pre"][nm]) is not None and to_x(S["pre"][nm]).iszero()}
    n = 0
    for ev in S["events"]:
        if ev[0] != "div": continue
        _, b, node, assumed = ev
        for lpath, leaf in pv_leaves(b):
            bx = to_x(leaf) if not is_opaque(leaf) else None
            if bx is None: continue
            # only the first iteration can see the initial 0: loop-carried flags must have their initial values on the path
            first = all(pol == cc.flag[1] for cc, pol in list(lpath) + list(assumed) if getattr(cc, "flag", None))
            if not first: continue
            for nm, en in zero_init.items():
                if en not in bx.fv(): continue
                n += 1
                try: at0 = bx.subst({en: X.const(0)})
                except Unknown: at0 = None
                guarded = any(en in values_cond_fvs(c) for c, pol in list(assumed) + list(lpath))
                c = f"{key}[{nm} in '{' '.join(ast.unparse(node).split())[:50]}']"
                w2 = f"{SCHED}:{node.lineno}"
                if at0 is not None and at0.iszero() and not guarded:
                    flagpath = [f"{cc.flag[0]}={'True' if pol else 'False'}" for cc, pol in assumed if getattr(cc, "flag", None)]
                    ctx.violated("R5-zero-initialised-divisor", c, f"'{nm}' is initialised to 0 before the loop and divides here before any in-loop assignment on the path "
                                 f"[{', '.join(flagpath) or 'first iteration'}; {path_text([(cc, pol) for cc, pol in assumed if not getattr(cc, 'flag', None)])[:160]}]: "
                                 "ZeroDivisionError when that branch is taken in the first iteration", w2)
                else:
                    ctx.holds("R5-zero-initialised-divisor", c, "guarded or cannot vanish", w2)
    if n == 0: ctx.holds("R5-zero-initialised-divisor", key, "no zero-initialised loop-carried variable is used as a divisor", where)
    # a guard that speaks about the divisor itself must exclude its zero (off-by-one guards: `if n > 0: x / (n - 1)`)
    m = 0
    for ev in S["events"]:
        if ev[0] != "div": continue
        _, b, node, assumed = ev
        for lpath, leaf in pv_leaves(b):
            bx = to_x(leaf) if not is_opaque(leaf) else None
            if bx is None or bx.constval() is not None: continue
            related = []; admits = True
            for cc, pol in list(assumed) + list(lpath) + list(prefix):
                d = getattr(cc, "lt", None); e = getattr(cc, "eq", None)
                try:
                    if d is not None:
                        for sg in (1, -1):
                            k = (d - bx * sg).constval()
                            if k is not None and k.im == 0:
                                related.append(cc)
                                if (k.re < 0) != pol: admits = False
                                break
                    elif e is not None:
                        dd = e[1] - e[2]
                        for sg in (1, -1):
                            k = (dd - bx * sg).constval()
                            if k is not None:
                                related.append(cc)
                                if k.iszero() != pol: admits = False
                                break
                except Unknown:
                    continue
            if not related: continue
            m += 1
            c = f"{key}[divisor '{' '.join(ast.unparse(node.right).split())[:50]}']"
            w2 = f"{SCHED}:{node.lineno}"
            if admits:
                ctx.violated("R5-guard-excludes-zero-divisor", c, f"the guards on this path that test the divisor ({'; '.join(cc.text for cc in related)[:160]}) are all satisfied when it is 0: "
                             "the division is reached with a zero divisor (ZeroDivisionError, or inf/nan under NumPy that then poisons int())", w2)
            else:
                ctx.holds("R5-guard-excludes-zero-divisor", c, "the path's guard excludes a zero divisor", w2)
    if m == 0: ctx.holds("R5-guard-excludes-zero-divisor", key, "no guarded divisor in the scheduler loop", where)


def values_cond_fvs(c):
    from .values import _cond_fvs
    return _cond_fvs(c)


def check_rounding_helper(ctx, repo):
    """the round-half-up helpers are nearest-integer operators (ceil if frac >= 1/2 else round)."""
    KIND["val"] = "real"
    for key in ("speckit/utils.py::round_half_up", f"{SCHED}::ltf_plan.round_half_up"):
        if not repo.has(key): continue
        fn = repo.get(key); where = repo.where(key, fn); ctx.analysed(key)
        I = Interp(repo)
        v = X.var("val")
        st = St(); st.mod = key.split("::")[0]
        r = I.call_func(Func(key, fn), [v], {}, st, None)
        ok = False
        if isinstance(r, PV) and getattr(r.cond, "lt", None) is not None:
            d = r.cond.lt
            frac = mk_fn("mod", [v, X.const(1)])
            hi, lo = r.hi, r.lo
            if d.eq(frac - Fr(1, 2)) and isinstance(hi, X) and isinstance(lo, X):
                ok = hi.eq(mk_fn("nearest", [v])) and lo.eq(mk_fn("ceil", [v]))
        (ctx.holds if ok else ctx.unknown)("R1-nearest-integer-helper", key, "ceil(v) if v%1 >= 1/2 else round(v): a nearest-integer operator" if ok else
                                          f"rounding helper not recognised: {r!r}"[:200], where)


def check_jdes_search(ctx, repo):
    key = "speckit/utils.py::find_Jdes_binary_search"; fn = repo.get(key); where = repo.where(key, fn); ctx.analysed(key)
    setup()
    KIND["target"] = "nat"
    I = Interp(repo)
    calls = []

    def lib(I_, name, args, kw, st, n):
        if name == "sched.generic":
            j = kw.get("Jdes")
            calls.append(dict(kw))
            nf = mk_fn("nf_of", [to_x(j)], "pos") if to_x(j) is not None else Opaque("nf")
            return DictVal({"nf": nf})
        return NotImplemented
    I.hooks["lib"] = lib
    kw = {k: X.var(k) for k in PARAMS if k != "Jdes"}
    r = I.call_key(key, [Lib("sched.generic"), X.var("target")], kw, St())
    S = next((sm for k, sm in I.loop_summaries.items() if isinstance(k, int) and sm.get("is_while")), None)
    if S is None: ctx.unknown("R4-forced-count", key, "search loop not found", where); return
    ear = S.get("early", [])
    tgt = X.var("target")
    if not ear:
        ctx.violated("R4-forced-count", key, "the search never returns a Jdes from inside the loop", where)
    for path, val in ear:
        vx = to_x(val)
        c = f"{key}[return {norm_id(val)}]"
        if vx is None: ctx.unknown("R4-forced-count", c, f"returned value {val!r}", where); continue
        want_nf = mk_fn("nf_of", [vx], "pos")
        ok = any(getattr(cond, "eq", None) is not None and pol and ((cond.eq[1].eq(want_nf) and cond.eq[2].eq(tgt)) or (cond.eq[2].eq(want_nf) and cond.eq[1].eq(tgt))) for cond, pol in path)
        (ctx.holds if ok else ctx.violated)("R4-forced-count", c, "returned only when the plan built with this very Jdes has exactly the target number of bins" if ok else
                                            "a Jdes is returned without the test nf(Jdes) == target: a plan with a different number of bins is silently accepted", where)
    # after the loop: None
    leaves = [l for _, l in pv_leaves(r)]
    post = [l for l in leaves if l is not None and not any(l is v for _, v in ear)]
    if any(to_x(l) is not None for l in post if not is_opaque(l)):
        ctx.violated("R4-forced-count", f"{key}[fallthrough]", "the search returns a Jdes after the loop without having matched the target", where)
    else:
        ctx.holds("R4-forced-count", f"{key}[fallthrough]", "None when no Jdes matches", where)
    # every scheduler call forwards the caller's arguments unchanged
    for cw in calls[:1]:
        bad = [k for k in kw if not (to_x(cw.get(k)) is not None and to_x(cw.get(k)).eq(kw[k]))]
        (ctx.holds if not bad else ctx.violated)("R4-forced-count", f"{key}[forwarded args]", "search calls the scheduler with the caller's arguments" if not bad else
                                                f"search modifies {bad} before calling the scheduler", where)
