"""precision rule: every dtype conversion on the path from the stored record to the statistics is
double precision (float64 / int64 / complex128)."""
import ast
import re

NARROW = re.compile(r"(float32|float16|int32|int16|int8|uint8|uint16|uint32|complex64|\bsingle\b|\bhalf\b|csingle|'f4'|'f2'|'i4'|\"f4\")")


def check_dtypes(ctx, rule="R-double-precision", files=("speckit/core.py", "speckit/core_cuda.py", "speckit/analysis.py")):
    n = 0
    for rel in files:
        if rel not in ctx.repo.mods: continue
        mod = ctx.repo.module(rel)
        for key, fn in ctx.repo.functions_in(rel):
            short = key.split("::")[1]
            if rel == "speckit/analysis.py" and not any(t in short for t in ("SpectrumAnalyzer.__init__", "_lpsd_core", "compute_single_bin", "SpectrumAnalyzer.compute", "SpectrumAnalyzer.plan", "SpectrumResult.__init__")):
                continue
            for c in ast.walk(fn):
                if not isinstance(c, ast.Call): continue
                toks = []
                for k in c.keywords:
                    if k.arg == "dtype": toks.append(ast.unparse(k.value))
                if isinstance(c.func, ast.Attribute) and c.func.attr in ("astype", "view") and c.args:
                    toks.append(ast.unparse(c.args[0]))
                fname = ast.unparse(c.func)
                if fname.split(".")[-1] in ("float32", "float16", "int32", "complex64"): toks.append(fname)
                for t in toks:
                    n += 1
                    construct = f"{key}[{' '.join(ast.unparse(c).split())[:60]}]"
                    where = f"{rel}:{c.lineno}"
                    if NARROW.search(t):
                        ctx.violated(rule, construct, f"conversion to {t}: the record / window / statistics leave double precision "
                                     "(about 7 significant digits: a leakage floor near -150 dB, backends no longer agree to rounding)", where)
                    else:
                        ctx.holds(rule, construct, t, where)
    ctx.need("dtype conversions on the data path", n, 40)
