"""precision rule: every dtype conversion on the path from the stored record to the statistics is
double precision (float64 / int64 / complex128)."""
import ast
import re

NARROW = re.compile(r"(float32|float16|int32|int16|int8|uint8|uint16|uint32|complex64|\bsingle\b|\bhalf\b|csingle|'f4'|'f2'|'i4'|\"f4\")")


def check_dtypes(ctx, rule="R-double-precision", files=("speckit/core.py", "speckit/core_cuda.py", "speckit/analysis.py")):
    n = 0
    for rel in files:
        if rel not in ctx.repo.mods: continue
        mod = ctx.repo.module(rel)
        for key, fn in ctx.repo.functions_in(rel):
            short = key.split("::")[1]
            if rel == "speckit/analysis.py" and not any(t in short for t in ("SpectrumAnalyzer.__init__", "_lpsd_core", "compute_single_bin", "SpectrumAnalyzer.compute", "SpectrumAnalyzer.plan", "SpectrumResult.__init__")):
                continue
            for c in ast.walk(fn):
                if not isinstance(c, ast.Call): continue
                toks = []
                for k in c.keywords:
                    if k.arg == "dtype": toks.append(ast.unparse(k.value))
                if isinstance(c.func, ast.Attribute) and c.func.attr in ("astype", "view") and c.args:
                    toks.append(ast.unparse(c.args[0]))
                fname = ast.unparse(c.func)
                if fname.split(".")[-1] in ("float32", "float16", "int32", "complex64"): toks.append(fname)
                for t in toks:
                    n += 1
                    construct = f"{key}[{' '.join(ast.unparse(c).split())[:60]}]"
                    where = f"{rel}:{c.lineno}"
                    if NARROW.search(t):
                        ctx.violated(rule, construct, f"conversion to {t}: the record / window / statistics leave double precision "
                                     "(about 7 significant digits: a leakage floor near -150 dB, backends no longer agree to rounding)", where)
                    else:
                        ctx.holds(rule, construct, t, where)
    ctx.need("dtype conversions on the data path", n, 40)


_LIKE_FIXTURE = """
def f(inputs, out, q, N):
    buf = np.empty_like(inputs[0], shape=(q + 1, N))
    buf[:q] = inputs
    buf[q] = out
    return buf
def g(inputs, out, q, N):
    buf = np.empty((q + 1, N), dtype=np.float64)
    buf[:q] = inputs
    buf[q] = out
    return buf
"""


def _borrowed_dtype_sites(mod):
    """[(function, buffer, allocation, store, source)] : a buffer allocated with the dtype of one array (np.empty_like(a, ...), dtype=a.dtype) that
    receives another array's samples: those are silently cast to a's dtype (an integer or float32 first channel truncates all the others)."""
    out = []
    for fn in [n for n in ast.walk(mod) if isinstance(n, ast.FunctionDef)]:
        allocs = {}
        for n in ast.walk(fn):
            if not (isinstance(n, ast.Assign) and len(n.targets) == 1 and isinstance(n.targets[0], ast.Name) and isinstance(n.value, ast.Call)): continue
            c = n.value; fname = ast.unparse(c.func).split(".")[-1]
            dt = next((k.value for k in c.keywords if k.arg == "dtype"), None)
            src = None
            if fname in ("empty_like", "zeros_like", "ones_like", "full_like") and c.args and dt is None: src = c.args[0]
            elif fname in ("empty", "zeros", "ones", "full") and isinstance(dt, ast.Attribute) and dt.attr == "dtype": src = dt.value
            if src is not None: allocs[n.targets[0].id] = (n, ast.unparse(src))
        if not allocs: continue
        for n in ast.walk(fn):
            if isinstance(n, ast.Assign):
                for t in n.targets:
                    if isinstance(t, ast.Subscript) and isinstance(t.value, ast.Name) and t.value.id in allocs:
                        a, src = allocs[t.value.id]
                        val = ast.unparse(n.value)
                        if val != src and not isinstance(n.value, ast.Constant): out.append((fn, t.value.id, a, n, src))
    return out


def check_borrowed_dtype(ctx, rule, files, floor=5):
    got = _borrowed_dtype_sites(ast.parse(_LIKE_FIXTURE))
    assert len(got) == 2 and all(g_[0].name == "f" for g_ in got), "rule self-test failed"
    nfun = 0; bad = 0
    for rel in files:
        if rel not in ctx.repo.mods: continue
        mod = ctx.repo.module(rel)
        nfun += sum(1 for n in ast.walk(mod) if isinstance(n, ast.FunctionDef))
        for fn, buf, a, stn, src in _borrowed_dtype_sites(mod):
            bad += 1
            ctx.violated(rule, f"{rel}::{fn.name}[{' '.join(ast.unparse(stn).split())[:60]}]", f"the buffer '{buf}' is allocated with the dtype of {src} (line {a.lineno}) and then receives "
                         f"{' '.join(ast.unparse(stn.value).split())[:40]}: records of another dtype are silently cast (an integer / float32 first channel truncates the others), so the "
                         "result depends on which channel is listed first", f"{rel}:{stn.lineno}")
    ctx.need("functions scanned for buffers with a borrowed dtype", nfun, floor)
    if not bad: ctx.holds(rule, ",".join(files), f"{nfun} functions: no channel buffer takes its dtype from one of the records it holds (positive control: the built-in fixture is reported)", files[0])
