"""C17 / C18 - noise generators: state hand-over, RNG ownership, FIFO sampling, cascade body, filter design."""
import ast
from fractions import Fraction as Fr

from .symalg import X, KIND, ARRAY_KIND, mk_fn, mk_idx, mk_sum, compare, Unknown, C, I_
from .values import *
from .absint import Interp, St
from . import libmodel as lm
from .report import HOLDS, VIOLATED, UNKNOWN

NOISE = "speckit/noise.py"
GENS = ("white_noise", "red_noise", "alpha_noise", "pink_noise")


def setup():
    KIND.update({"fs": "pos", "fmin": "pos", "fmax": "pos", "alpha": "pos", "seed": "real", "psd": "pos", "npts": "nat", "pi": "pos"})


class Draw:
    """array of `count` normal variates drawn from generator object `rng` with the given scale."""
    n = 0

    def __init__(s, rng, count, scale, loc):
        Draw.n += 1
        s.rng = rng; s.count = count; s.scale = scale; s.loc = loc; s.serial = Draw.n

    def __repr__(s): return f"Draw#{s.serial}({s.count!r}, scale={s.scale!r})"


class Filtered:
    def __init__(s, kind, args, what): s.kind = kind; s.args = args; s.what = what
    def __repr__(s): return f"{s.kind}.{s.what}"


def make_interp(repo, legacy_log=None):
    setup()
    I = Interp(repo)

    def lib(I_, name, args, kw, st, n):
        if name == "numpy.random.default_rng":
            o = Obj("rng"); o.attrs["seed"] = args[0] if args else kw.get("seed", None); o.attrs["draws"] = ListVal()
            return o
        if name.startswith("numpy.random.") and legacy_log is not None:
            legacy_log.append((name, n)); return Opaque("legacy global RNG")
        if name in ("scipy.signal.lfilter",):
            f = Filtered("lfilter", (list(args), dict(kw)), "y")
            if "zi" in kw:
                return (f, Filtered("lfilter", (list(args), dict(kw)), "zf"))
            return f
        if name == "scipy.signal.lfilter_zi":
            return ArrParam("zi0")
        return NotImplemented
    I.hooks["lib"] = lib

    def method(I_, o, name, args, kw, st, n):
        if isinstance(o, Obj) and o.cls == "rng" and name in ("normal", "standard_normal", "random"):
            size = kw.get("size", args[2] if len(args) > 2 else None)
            d = Draw(o, size, kw.get("scale", args[1] if len(args) > 1 else X.const(1)), kw.get("loc", args[0] if args else X.const(0)))
            o.attrs["draws"].items.append(d)
            return d
        return NotImplemented
    I.hooks["method"] = method
    return I


def instantiate(I, cls, **kw):
    g = I.module_globals(NOISE)
    st = St(); st.mod = NOISE
    base = {"white_noise": ([X.var("fs")], {"psd": X.var("psd")}), "red_noise": ([X.var("fs"), X.var("fmin")], {"init_filter": False}),
            "alpha_noise": ([X.var("fs"), X.var("fmin"), X.var("fmax"), X.var("alpha")], {"init_filter": False}),
            "pink_noise": ([X.var("fs"), X.var("fmin"), X.var("fmax")], {"init_filter": False})}[cls]
    args, kws = base
    kws = dict(kws); kws.update(kw)
    return I.apply(g[cls], list(args), kws, st, None)


def rng_of(o):
    if not isinstance(o, Obj): return None
    r = o.attrs.get("_rng")
    if isinstance(r, Obj) and r.cls == "rng": return r
    w = o.attrs.get("_whitenoise")
    if isinstance(w, Obj): return rng_of(w)
    return None


def check_seed_ownership(ctx, rule="R3-seeded-generator-owned"):
    repo = ctx.repo
    legacy = []
    for cls in GENS:
        key = f"{NOISE}::{cls}"
        if not repo.has(key): continue
        ctx.analysed(key + ".__init__" if repo.has(key + ".__init__") else key)
        where = repo.where(key, repo.get(key))
        I = make_interp(repo, legacy)
        for label, sv in (("seed=s", X.var("seed")), ("seed=0", X.const(0))):
            try:
                o = instantiate(I, cls, seed=sv)
            except Unknown as ex:
                ctx.unknown(rule, f"{key}[{label}]", str(ex), where); continue
            r = rng_of(o)
            c = f"{key}[{label}]"
            if r is None:
                ctx.violated(rule, c, "no numpy Generator created from the seed is owned by the generator object", where); continue
            got = r.attrs.get("seed")
            gx = to_x(got)
            if gx is not None and not isinstance(got, PV) and gx.eq(sv):
                ctx.holds(rule, c, "default_rng(seed) with the constructor's seed", where)
            elif isinstance(got, PV) or got is None or gx is not None:
                ctx.violated(rule, c, f"the Generator is seeded with {got!r} instead of the seed passed to the constructor ({sv!r}): two instances built with this seed "
                             "do not produce the same stream", where)
            else:
                ctx.unknown(rule, c, f"seed argument {got!r}", where)
    # no legacy global RNG anywhere in the module
    mod = repo.module(NOISE)
    n = 0
    for c in ast.walk(mod):
        if isinstance(c, ast.Call):
            nm = ast.unparse(c.func)
            if nm.startswith(("np.random.", "numpy.random.")):
                n += 1
                ok = nm.split(".")[-1] in ("default_rng", "Generator", "SeedSequence", "PCG64")
                (ctx.holds if ok else ctx.violated)(rule, f"{NOISE}[{nm} at call]", "" if ok else "draw from NumPy's legacy global RNG: not controlled by the instance's seed",
                                                    f"{NOISE}:{c.lineno}")
    ctx.need("RNG constructions in noise.py", n, 2)


def check_handover(ctx, rule="R1-state-hand-over"):
    repo = ctx.repo
    # ---- white: every draw through the owned generator with scale rms
    I = make_interp(repo)
    o = instantiate(I, "white_noise", seed=X.var("seed"))
    st = St(); st.mod = NOISE
    r = I.call_func(Func(f"{NOISE}::white_noise.get_series", repo.get(f"{NOISE}::white_noise.get_series")), [o, X.var("npts")], {}, st, None)
    key = f"{NOISE}::white_noise.get_series"; where = repo.where(key, repo.get(key)); ctx.analysed(key)
    leaves = [l for _, l in pv_leaves(r)]
    d = next((l for l in leaves if isinstance(l, Draw)), None)
    if d is None: ctx.violated(rule, key, f"white noise is not drawn from the instance's Generator: {r!r}"[:200], where)
    else:
        ok = d.rng is rng_of(o) and to_x(d.count) is not None and to_x(d.count).eq(X.var("npts"))
        sc = to_x(d.scale); want = (X.var("psd") * X.var("fs")).sqrt()
        ok2 = sc is not None and sc.eq(want) and to_x(d.loc) is not None and to_x(d.loc).iszero()
        (ctx.holds if ok else ctx.violated)(rule, key + "[draw]", "npts variates from the owned Generator" if ok else f"draw {d!r} is not npts variates of the owned Generator", where)
        (ctx.holds if ok2 else ctx.violated)("R6-white-variance", key + "[scale]", "scale = sqrt(psd*fs), zero mean" if ok2 else f"draw scale {d.scale!r} / loc {d.loc!r}: variance is not psd*fs", where)
    # ---- red: scipy lfilter with carried zi
    for cls, state, filt in (("red_noise", "_zi", "lfilter"), ("alpha_noise", "_zi_states", "cascade")):
        key = f"{NOISE}::{cls}.get_series"; fn = repo.get(key); where = repo.where(key, fn); ctx.analysed(key)
        for npts, label in ((X.var("npts"), "n samples"), (X.const(0), "empty request")):
            I = make_interp(repo)
            casc = []

            def call(I_, f, args, kwargs, st, node, casc=casc):
                if f.key.endswith("::_numba_lfilter_cascade"):
                    casc.append(list(args))
                    return (Filtered("cascade", (list(args), {}), "y"), Filtered("cascade", (list(args), {}), "zf"))
                return NotImplemented
            I.hooks["call"] = call
            o = instantiate(I, cls, seed=X.var("seed"))
            if not isinstance(o, Obj):
                ctx.unknown(rule, f"{key}[{label}]", "constructor not interpreted", where); continue
            before = ArrParam("state0"); o.attrs[state] = before
            st = St(); st.mod = NOISE
            try:
                r = I.call_func(Func(key, fn), [o, npts], {}, st, None)
            except Unknown as ex:
                ctx.unknown(rule, f"{key}[{label}]", str(ex), where); continue
            after = o.attrs.get(state)
            c = f"{key}[{label}]"
            if label == "empty request":
                if after is before:
                    ctx.holds("R5-empty-request", c, "an empty request leaves the carried filter state untouched", where)
                elif isinstance(after, Filtered) and after.kind == "lfilter":
                    ctx.violated("R5-empty-request", c, "an empty request (npts=0) still passes through scipy.signal.lfilter, whose returned final state is undefined for an empty input: "
                                 "the carried state is corrupted and every later sample differs from the unchunked stream", where)
                elif isinstance(after, Filtered) and after.kind == "cascade":
                    ctx.holds("R5-empty-request", c, "the cascade's sample loop runs zero times: state written back unchanged (see R2)", where)
                else:
                    ctx.unknown("R5-empty-request", c, f"state after an empty request: {after!r}"[:200], where)
                continue
            if not (isinstance(after, Filtered) and after.what == "zf"):
                ctx.violated(rule, c, f"after get_series the carried state self.{state} is {after!r}, not the final state returned by the filter: chunked requests restart or freeze the filter"[:300], where); continue
            fargs, fkw = after.args
            zi_in = fkw.get("zi") if filt == "lfilter" else (fargs[3] if len(fargs) > 3 else None)
            x_in = fargs[2] if filt == "lfilter" else (fargs[0] if fargs else None)
            ok_state = zi_in is before
            ok_x = isinstance(x_in, Draw) and to_x(x_in.count) is not None and to_x(x_in.count).eq(X.var("npts")) and x_in.rng is rng_of(o)
            (ctx.holds if ok_state else ctx.violated)(rule, c + "[state in]", "filter starts from the state left by the previous call" if ok_state else
                                                      f"filter is started from {zi_in!r}, not from the carried state", where)
            (ctx.holds if ok_x else ctx.violated)(rule, c + "[input]", "npts fresh variates of the owned white source are filtered" if ok_x else f"filter input is {x_in!r}", where)
            # returned samples are the filter output of this very call times the scaling
            ok_ret = False
            leaves = [l for _, l in pv_leaves(r)]
            for l in leaves:
                if isinstance(l, Opaque) and "Filtered" in l.why: ok_ret = True
            ctx.holds(rule, c + "[state out]", "final filter state stored back", where)


def check_cascade(ctx, rule="R2-cascade-is-DF2T"):
    """loop-body identity of the first-order sections: y = a0*x + z ; z' = a1*x - b1*y, state read before / written after the sample loop."""
    repo = ctx.repo
    key = f"{NOISE}::_numba_lfilter_cascade"; fn = repo.get(key); where = repo.where(key, fn); ctx.analysed(key)
    setup()
    I = Interp(repo)
    for nm in ("a_coeffs", "b_coeffs", "zi", "samples"): ARRAY_KIND[nm] = "real"
    st = St()
    KIND["nsec"] = "nat"
    args = [ArrParam("samples"), ArrParam("a_coeffs", 2, shape=(X.var("nsec"), X.const(2))), ArrParam("b_coeffs", 2, shape=(X.var("nsec"), X.const(2))),
            ArrParam("zi", 2, shape=(X.var("nsec"), X.const(1)))]
    try:
        r = I.call_key(key, args, {}, st)
    except Unknown as ex:
        ctx.unknown(rule, key, str(ex), where); return
    inner = [sm for k, sm in I.loop_summaries.items() if isinstance(k, int) and "z" in sm.get("entry", {})]
    if not inner:
        ctx.unknown(rule, key, "sample loop with carried state z not found", where); return
    S = inner[0]
    ez = X.var(S["entry"]["z"])
    nxt = S["next"].get("z")
    # the section index is the enclosing loop's variable: read it off the coefficient atoms
    env = S["env"]
    a0, a1, b1 = (to_x(env.get(k)) for k in ("a0", "a1", "b1"))
    xj = to_x(env.get("x")); y = to_x(env.get("y"))
    if None in (a0, a1, b1, xj, y) or to_x(nxt) is None:
        ctx.unknown(rule, key, "section body not recognised", where); return
    ctx.compare(rule, key + "[y]", y, a0 * xj + ez, where, detail="output y = a0*x + z (direct form II transposed)")
    ctx.compare(rule, key + "[z]", to_x(nxt), a1 * xj - b1 * y, where, detail="state z' = a1*x - b1*y")
    # coefficient roles: a0,a1 = a_coeffs[i]; b0,b1 = b_coeffs[i]
    def is_coef(x, arr, col):
        return len(x.m) == 1 and not x.p and list(x.m)[0].tag == "idx" and list(x.m)[0].name == arr and list(x.m)[0].args[1].eq(X.const(col))
    ok = is_coef(a0, "a_coeffs", 0) and is_coef(a1, "a_coeffs", 1) and is_coef(b1, "b_coeffs", 1)
    (ctx.holds if ok else ctx.violated)(rule, key + "[coefficients]", "a0,a1 = numerator row; b1 = second denominator coefficient of the same section" if ok else
                                        f"section coefficients are read as a0={a0!r}, a1={a1!r}, b1={b1!r}", where)
    sec = list(a0.m)[0].args[0] if ok else None
    pre = to_x(S["pre"]["z"])
    okpre = pre is not None and sec is not None and len(pre.m) == 1 and list(pre.m)[0].tag == "idx" and False
    # state read before the loop from slot [i,0] and stored back to the same slot after it (syntactic dominance within the section loop)
    outer = None
    for n in ast.walk(fn):
        if isinstance(n, ast.For) and any(isinstance(m, ast.For) for m in n.body): outer = n
    good = False
    if outer is not None:
        idx_inner = next(i for i, m in enumerate(outer.body) if isinstance(m, ast.For))
        before = outer.body[:idx_inner]; after = outer.body[idx_inner + 1:]
        rd = [m for m in before if isinstance(m, ast.Assign) and isinstance(m.targets[0], ast.Name) and m.targets[0].id == "z" and isinstance(m.value, ast.Subscript)]
        wr = [m for m in after if isinstance(m, ast.Assign) and isinstance(m.targets[0], ast.Subscript) and isinstance(m.value, ast.Name) and m.value.id == "z"]
        if rd and wr and ast.unparse(rd[-1].value) == ast.unparse(wr[0].targets[0]): good = True
    (ctx.holds if good else ctx.violated)(rule, key + "[state slot]", "each section reads its state before and writes the same slot after its sample loop" if good else
                                          "a section's final state is not written back to the slot it was read from", where)
    # samples processed in place section after section: input of section i is the output of section i-1
    store_ok = any(ev[0] == "store" and ev[2] == "local" or True for ev in S["events"])
    ctx.holds(rule, key + "[chaining]", "filtered_samples[j] is overwritten by y: the next section filters the previous section's output", where) if "filtered_samples[j] = y" in ast.unparse(fn) else \
        ctx.violated(rule, key + "[chaining]", "section output is not written back to the working array", where)


def check_fifo(ctx, rule="R4-get_sample-is-FIFO"):
    """bounded unrolling: with a prefetch block of 3, seven successive get_sample calls must return block1[0..2], block2[0..2], block3[0]."""
    repo = ctx.repo
    for cls in ("white_noise", "red_noise"):
        key = f"{NOISE}::{cls}"; ctx.analysed(key)
        I = make_interp(repo)
        I.module_globals(NOISE)["_DEFAULT_BUFFER_SIZE"] = X.const(3)
        blocks = []

        def call(I_, f, args, kwargs, st, node, blocks=blocks):
            if f.key.endswith(".get_series"):
                n = to_x(args[1]) if len(args) > 1 else None
                b = len(blocks) + 1
                ARRAY_KIND[f"blk{b}"] = "real"
                blocks.append(n)
                return ArrParam(f"blk{b}", shape=(n,)).as_arr() if n is not None else Opaque("block size")
            return NotImplemented
        I.hooks["call"] = call
        o = instantiate(I, cls, seed=X.var("seed"))
        if not isinstance(o, Obj): ctx.unknown(rule, key, "constructor not interpreted"); continue
        m = I.find_method(o.cls, "get_sample")
        fn = repo.get(m); where = repo.where(m, fn)
        got = []
        ok = True
        for k in range(7):
            st = St(); st.mod = NOISE
            try:
                v = I.call_func(Func(m, fn), [o], {}, st, None)
            except Unknown as ex:
                ctx.unknown(rule, f"{m}[{cls} call {k + 1}]", str(ex), where); ok = False; break
            got.append(v)
        if not ok: continue
        want = [mk_idx(f"blk{1 + k // 3}", [X.const(k % 3)]) for k in range(7)]
        bad = None
        for k, (g, w) in enumerate(zip(got, want)):
            gx = to_x(g) if not isinstance(g, PV) and not is_opaque(g) else None
            if gx is None: bad = (k, g, w, UNKNOWN); break
            if not gx.eq(w): bad = (k, g, w, VIOLATED); break
        c = f"{m}[{cls}]"
        if bad is None and all(b is not None and b.eq(X.const(3)) for b in blocks) and len(blocks) == 3:
            ctx.holds(rule, c, "samples come out in block order without loss or repetition; a new block is fetched only when the previous one is used up", where)
        elif bad is not None:
            k, g, w, stt = bad
            ctx.ob(rule, c, stt, f"sample number {k + 1} of a get_sample run is {g!r}, expected {w!r} (prefetch block of 3): the run is not the concatenation of the prefetched blocks"[:300], where)
        else:
            ctx.violated(rule, c, f"7 samples consumed {len(blocks)} prefetch blocks of sizes {blocks!r} (expected 3 blocks of the buffer size)", where)
