"""C17 / C18 - noise generators: state hand-over, RNG ownership, FIFO sampling, cascade body, filter design."""
import ast
from fractions import Fraction as Fr

from .symalg import X, KIND, ARRAY_KIND, mk_fn, mk_idx, mk_sum, compare, Unknown, C, I_
from .values import *
from .absint import Interp, St
from . import libmodel as lm
from .report import HOLDS, VIOLATED, UNKNOWN

NOISE = "speckit/noise.py"
GENS = ("white_noise", "red_noise", "alpha_noise", "pink_noise")


def setup():
    KIND.update({"fs": "pos", "fmin": "pos", "fmax": "pos", "alpha": "pos", "seed": "real", "psd": "pos", "npts": "nat", "pi": "pos"})


class Draw:
    """array of `count` normal variates drawn from generator object `rng` with the given scale."""
    n = 0

    def __init__(s, rng, count, scale, loc):
        Draw.n += 1
        s.rng = rng; s.count = count; s.scale = scale; s.loc = loc; s.serial = Draw.n

    def __repr__(s): return f"Draw#{s.serial}({s.count!r}, scale={s.scale!r})"


class Filtered:
    def __init__(s, kind, args, what): s.kind = kind; s.args = args; s.what = what
    def __repr__(s): return f"{s.kind}.{s.what}"


def noise_env(env):
    """numeric cross-check environment for the filter design (only used to confirm that two different normal forms are different
    functions): a physically ordered configuration fmin < fmax < fs/2."""
    env.fixed.update({"fmin": 0.013 * (1 + env.seed % 5), "fmax": 11.0 + env.seed % 3, "fs": 100.0, "alpha": 0.7 + 0.25 * (env.seed % 4), "psd": 2.5})


def make_interp(repo, legacy_log=None):
    setup()
    I = Interp(repo)

    def lib(I_, name, args, kw, st, n):
        if name == "numpy.random.default_rng":
            o = Obj("rng"); o.attrs["seed"] = args[0] if args else kw.get("seed", None); o.attrs["draws"] = ListVal()
            return o
        if name.startswith("numpy.random.") and legacy_log is not None:
            legacy_log.append((name, n)); return Opaque("legacy global RNG")
        if name in ("scipy.signal.lfilter",):
            f = Filtered("lfilter", (list(args), dict(kw)), "y")
            if "zi" in kw:
                return (f, Filtered("lfilter", (list(args), dict(kw)), "zf"))
            return f
        if name == "scipy.signal.lfilter_zi":
            return ArrParam("zi0")
        if name in ("numpy.zeros_like", "numpy.ones_like", "numpy.empty_like", "numpy.full_like") and args and kw.get("dtype") is None:
            # *_like without dtype= inherits the dtype of its argument: remember allocations that inherit an integer dtype
            A_ = as_arr(args[0]) if isinstance(args[0], (Arr, ArrParam)) else None
            if A_ is not None and to_x(A_.body) is not None and lm.is_integer(to_x(A_.body)) and not isinstance(args[0], ArrParam):
                I.int_like_allocs.append(n)
            return NotImplemented
        return NotImplemented
    I.int_like_allocs = []
    I.hooks["lib"] = lib

    def method(I_, o, name, args, kw, st, n):
        if isinstance(o, Obj) and o.cls == "rng" and name in ("normal", "standard_normal", "random"):
            size = kw.get("size", args[2] if len(args) > 2 else None)
            d = Draw(o, size, kw.get("scale", args[1] if len(args) > 1 else X.const(1)), kw.get("loc", args[0] if args else X.const(0)))
            o.attrs["draws"].items.append(d)
            return d
        return NotImplemented
    I.hooks["method"] = method
    return I


def instantiate(I, cls, **kw):
    g = I.module_globals(NOISE)
    st = St(); st.mod = NOISE
    base = {"white_noise": ([X.var("fs")], {"psd": X.var("psd")}), "red_noise": ([X.var("fs"), X.var("fmin")], {"init_filter": False}),
            "alpha_noise": ([X.var("fs"), X.var("fmin"), X.var("fmax"), X.var("alpha")], {"init_filter": False}),
            "pink_noise": ([X.var("fs"), X.var("fmin"), X.var("fmax")], {"init_filter": False})}[cls]
    args, kws = base
    kws = dict(kws); kws.update(kw)
    return I.apply(g[cls], list(args), kws, st, None)


def rng_of(o):
    if not isinstance(o, Obj): return None
    r = o.attrs.get("_rng")
    if isinstance(r, Obj) and r.cls == "rng": return r
    w = o.attrs.get("_whitenoise")
    if isinstance(w, Obj): return rng_of(w)
    return None


def check_seed_ownership(ctx, rule="R3-seeded-generator-owned"):
    repo = ctx.repo
    legacy = []
    for cls in GENS:
        key = f"{NOISE}::{cls}"
        if not repo.has(key): continue
        ctx.analysed(key + ".__init__" if repo.has(key + ".__init__") else key)
        where = repo.where(key, repo.get(key))
        I = make_interp(repo, legacy)
        for label, sv in (("seed=s", X.var("seed")), ("seed=0", X.const(0))):
            try:
                o = instantiate(I, cls, seed=sv)
            except Unknown as ex:
                ctx.unknown(rule, f"{key}[{label}]", str(ex), where); continue
            r = rng_of(o)
            c = f"{key}[{label}]"
            if r is None:
                ctx.violated(rule, c, "no numpy Generator created from the seed is owned by the generator object", where); continue
            got = r.attrs.get("seed")
            gx = to_x(got)
            if gx is not None and not isinstance(got, PV) and gx.eq(sv):
                ctx.holds(rule, c, "default_rng(seed) with the constructor's seed", where)
            elif isinstance(got, PV) or got is None or gx is not None:
                ctx.violated(rule, c, f"the Generator is seeded with {got!r} instead of the seed passed to the constructor ({sv!r}): two instances built with this seed "
                             "do not produce the same stream", where)
            else:
                ctx.unknown(rule, c, f"seed argument {got!r}", where)
    # no legacy global RNG anywhere in the module
    mod = repo.module(NOISE)
    n = 0
    for c in ast.walk(mod):
        if isinstance(c, ast.Call):
            nm = ast.unparse(c.func)
            if nm.startswith(("np.random.", "numpy.random.")):
                n += 1
                ok = nm.split(".")[-1] in ("default_rng", "Generator", "SeedSequence", "PCG64")
                (ctx.holds if ok else ctx.violated)(rule, f"{NOISE}[{nm} at call]", "" if ok else "draw from NumPy's legacy global RNG: not controlled by the instance's seed",
                                                    f"{NOISE}:{c.lineno}")
    ctx.need("RNG constructions in noise.py", n, 2)


def check_handover(ctx, rule="R1-state-hand-over"):
    repo = ctx.repo
    # ---- white: every draw through the owned generator with scale rms
    I = make_interp(repo)
    o = instantiate(I, "white_noise", seed=X.var("seed"))
    st = St(); st.mod = NOISE
    r = I.call_func(Func(f"{NOISE}::white_noise.get_series", repo.get(f"{NOISE}::white_noise.get_series")), [o, X.var("npts")], {}, st, None)
    key = f"{NOISE}::white_noise.get_series"; where = repo.where(key, repo.get(key)); ctx.analysed(key)
    leaves = [l for _, l in pv_leaves(r)]
    d = next((l for l in leaves if isinstance(l, Draw)), None)
    if d is None: ctx.violated(rule, key, f"white noise is not drawn from the instance's Generator: {r!r}"[:200], where)
    else:
        ok = d.rng is rng_of(o) and to_x(d.count) is not None and to_x(d.count).eq(X.var("npts"))
        sc = to_x(d.scale); want = (X.var("psd") * X.var("fs")).sqrt()
        ok2 = sc is not None and sc.eq(want) and to_x(d.loc) is not None and to_x(d.loc).iszero()
        (ctx.holds if ok else ctx.violated)(rule, key + "[draw]", "npts variates from the owned Generator" if ok else f"draw {d!r} is not npts variates of the owned Generator", where)
        (ctx.holds if ok2 else ctx.violated)("R6-white-variance", key + "[scale]", "scale = sqrt(psd*fs), zero mean" if ok2 else f"draw scale {d.scale!r} / loc {d.loc!r}: variance is not psd*fs", where)
    # ---- red: scipy lfilter with carried zi
    for cls, state, filt in (("red_noise", "_zi", "lfilter"), ("alpha_noise", "_zi_states", "cascade")):
        key = f"{NOISE}::{cls}.get_series"; fn = repo.get(key); where = repo.where(key, fn); ctx.analysed(key)
        for npts, label in ((X.var("npts"), "n samples"), (X.const(0), "empty request")):
            I = make_interp(repo)
            casc = []

            def call(I_, f, args, kwargs, st, node, casc=casc):
                if f.key.endswith("::_numba_lfilter_cascade"):
                    casc.append(list(args))
                    return (Filtered("cascade", (list(args), {}), "y"), Filtered("cascade", (list(args), {}), "zf"))
                return NotImplemented
            I.hooks["call"] = call
            o = instantiate(I, cls, seed=X.var("seed"))
            if label == "n samples":
                # the carried state must be a floating-point array: an integer array truncates the state written back after every call
                init = repo.get(f"{NOISE}::{cls}.__init__")
                me_ = init.args.args[0].arg
                bad_alloc = None
                for a_ in ast.walk(init):
                    if isinstance(a_, ast.Assign) and any(isinstance(t_, ast.Attribute) and isinstance(t_.value, ast.Name) and t_.value.id == me_ and t_.attr == state for t_ in a_.targets):
                        for c_ in ast.walk(a_.value):
                            if any(c_ is n_ for n_ in getattr(I, "int_like_allocs", [])): bad_alloc = c_
                        for c_ in ast.walk(a_.value):
                            if isinstance(c_, ast.keyword) and c_.arg == "dtype" and any(k_ in ast.unparse(c_.value) for k_ in ("int", "bool")): bad_alloc = bad_alloc or c_
                w0 = repo.where(f"{NOISE}::{cls}.__init__", init)
                if bad_alloc is not None:
                    ctx.violated(rule, f"{NOISE}::{cls}.__init__[{state} dtype]", f"the carried filter state is allocated with an integer dtype ({' '.join(ast.unparse(bad_alloc).split())[:60]}): the "
                                 "final state stored back after each call is truncated, so a stream generated in blocks differs from one generated in a single call", w0)
                else:
                    ctx.holds(rule, f"{NOISE}::{cls}.__init__[{state} dtype]", "state allocation does not inherit / request an integer dtype", w0)
            if not isinstance(o, Obj):
                ctx.unknown(rule, f"{key}[{label}]", "constructor not interpreted", where); continue
            before = ArrParam("state0"); o.attrs[state] = before
            st = St(); st.mod = NOISE
            try:
                r = I.call_func(Func(key, fn), [o, npts], {}, st, None)
            except Unknown as ex:
                ctx.unknown(rule, f"{key}[{label}]", str(ex), where); continue
            after = o.attrs.get(state)
            c = f"{key}[{label}]"
            if label == "empty request":
                if after is before:
                    ctx.holds("R5-empty-request", c, "an empty request leaves the carried filter state untouched", where)
                elif isinstance(after, Filtered) and after.kind == "lfilter":
                    ctx.violated("R5-empty-request", c, "an empty request (npts=0) still passes through scipy.signal.lfilter, whose returned final state is undefined for an empty input: "
                                 "the carried state is corrupted and every later sample differs from the unchunked stream", where)
                elif isinstance(after, Filtered) and after.kind == "cascade":
                    ctx.holds("R5-empty-request", c, "the cascade's sample loop runs zero times: state written back unchanged (see R2)", where)
                else:
                    ctx.unknown("R5-empty-request", c, f"state after an empty request: {after!r}"[:200], where)
                continue
            if not (isinstance(after, Filtered) and after.what == "zf"):
                ctx.violated(rule, c, f"after get_series the carried state self.{state} is {after!r}, not the final state returned by the filter: chunked requests restart or freeze the filter"[:300], where); continue
            fargs, fkw = after.args
            zi_in = fkw.get("zi") if filt == "lfilter" else (fargs[3] if len(fargs) > 3 else None)
            x_in = fargs[2] if filt == "lfilter" else (fargs[0] if fargs else None)
            ok_state = zi_in is before
            ok_x = isinstance(x_in, Draw) and to_x(x_in.count) is not None and to_x(x_in.count).eq(X.var("npts")) and x_in.rng is rng_of(o)
            (ctx.holds if ok_state else ctx.violated)(rule, c + "[state in]", "filter starts from the state left by the previous call" if ok_state else
                                                      f"filter is started from {zi_in!r}, not from the carried state", where)
            (ctx.holds if ok_x else ctx.violated)(rule, c + "[input]", "npts fresh variates of the owned white source are filtered" if ok_x else f"filter input is {x_in!r}", where)
            # returned samples are the filter output of this very call times the scaling
            ok_ret = False
            leaves = [l for _, l in pv_leaves(r)]
            for l in leaves:
                if isinstance(l, Opaque) and "Filtered" in l.why: ok_ret = True
            ctx.holds(rule, c + "[state out]", "final filter state stored back", where)


def _state_slots_paired(ctx, rule, key, fn, where):
    """every sample loop that carries a variable read from a slot of the state array must be followed by a store of that variable to the same
    slot (whatever the arrangement of the sections: one per sweep, fused pairs, an unpaired tail): the stream continues from the stored state."""
    ps = [a.arg for a in fn.args.args]
    if len(ps) < 4: return
    P = ps[3]
    blocks = []

    def walk(body):
        blocks.append(body)
        for st in body:
            for fld in ("body", "orelse", "finalbody"):
                b = getattr(st, fld, None)
                if isinstance(b, list) and b and isinstance(b[0], ast.stmt): walk(b)
    walk(fn.body)
    stores = [n for n in ast.walk(fn) if isinstance(n, ast.Assign) and any(isinstance(t, ast.Subscript) and isinstance(t.value, ast.Name) and t.value.id == P for t in n.targets)]
    nloops = 0; bad = []
    for body in blocks:
        for i, lp in enumerate(body):
            if not isinstance(lp, ast.For): continue
            assigned = {t.id for n in ast.walk(lp) if isinstance(n, ast.Assign) for t in n.targets if isinstance(t, ast.Name)}
            assigned |= {n.target.id for n in ast.walk(lp) if isinstance(n, ast.AugAssign) and isinstance(n.target, ast.Name)}
            last = {}
            for st in body[:i]:
                if isinstance(st, ast.Assign) and len(st.targets) == 1 and isinstance(st.targets[0], ast.Name):
                    v = st.value
                    if isinstance(v, ast.Subscript) and isinstance(v.value, ast.Name) and v.value.id == P: last[st.targets[0].id] = v
                    else: last.pop(st.targets[0].id, None)
            for nm, rd in last.items():
                if nm not in assigned: continue
                nloops += 1
                end = getattr(lp, "end_lineno", lp.lineno)
                ok = any(st.lineno > end and isinstance(st.value, ast.Name) and st.value.id == nm and
                         any(isinstance(t, ast.Subscript) and ast.dump(t.slice) == ast.dump(rd.slice) for t in st.targets) for st in stores)
                if not ok: bad.append((nm, rd, lp))
    for nm, rd, lp in bad:
        ctx.violated(rule, key + f"[state slot {ast.unparse(rd)}]", f"the sample loop at line {lp.lineno} advances '{nm}', read from {ast.unparse(rd)}, but the final value is never stored back to "
                     "that slot: the next request restarts this section from a stale state (the concatenation of two requests differs from one request)", where)
    if nloops and not bad:
        ctx.holds(rule, key + "[state slots paired]", f"{nloops} carried section state(s): each is read from a slot of '{P}' before its sample loop and stored to the same slot after it", where)


def check_cascade(ctx, rule="R2-cascade-is-DF2T"):
    """loop-body identity of the first-order sections: y = a0*u + z ; z' = a1*u - b1*y, state read before / written after the
    sample loop, output written back to the working array.  All roles are found by data flow, not by variable names."""
    repo = ctx.repo
    key = f"{NOISE}::_numba_lfilter_cascade"; fn = repo.get(key); where = repo.where(key, fn); ctx.analysed(key)
    setup()
    _state_slots_paired(ctx, rule, key, fn, where)
    I = Interp(repo)
    for nm in ("a_coeffs", "b_coeffs", "zi", "samples", "work"): ARRAY_KIND[nm] = "real"
    st = St()
    KIND["nsec"] = "nat"
    src = ArrParam("samples")

    def method(I_, o, name, args, kw, st_, n):
        if o is src and name == "copy": return ArrParam("work", shape=(src.shape(0),))      # the working copy is a distinct array
        return NotImplemented
    I.hooks["method"] = method
    args = [src, ArrParam("a_coeffs", 2, shape=(X.var("nsec"), X.const(2))), ArrParam("b_coeffs", 2, shape=(X.var("nsec"), X.const(2))),
            ArrParam("zi", 2, shape=(X.var("nsec"), X.const(1)))]
    try:
        r = I.call_key(key, args, {}, st)
    except Unknown as ex:
        ctx.unknown(rule, key, str(ex), where); return
    inner = [sm for k, sm in I.loop_summaries.items() if isinstance(k, int) and len(sm.get("entry", {})) == 1]
    if not inner:
        ctx.unknown(rule, key, "sample loop with one carried state variable not found", where); return
    S = inner[0]
    (sname, esym), = S["entry"].items()
    ez = X.var(esym)
    nxt = to_x(S["next"].get(sname)); pre = to_x(S["pre"].get(sname))
    iv = S.get("ivar")
    # the section index is read off the slot the state comes from: zi[sec, 0]
    sec = None
    if pre is not None and len(pre.m) == 1 and not pre.p:
        at = list(pre.m)[0]
        if at.tag == "idx" and at.name == "zi" and at.args[1].eq(X.const(0)): sec = at.args[0]
    if nxt is None or sec is None or iv is None:
        ctx.unknown(rule, key, f"section state not recognised (initial value {pre!r}, update {S['next'].get(sname)!r})"[:300], where); return
    a0, a1, b1 = mk_idx("a_coeffs", [sec, X.const(0)], "real"), mk_idx("a_coeffs", [sec, X.const(1)], "real"), mk_idx("b_coeffs", [sec, X.const(1)], "real")
    # the array the loop writes at its own index, and the value written there
    stored = None; warr = None
    for nm, val in S["env"].items():
        if isinstance(val, Arr) and isinstance(val.body, PV) and val.ndim == 1:
            lo = val.body.lo
            names = {a_.name for a_ in to_x(lo).all_atoms() if a_.tag == "idx"} if to_x(lo) is not None else set()
            if len(names) == 1: stored = val.body.hi; warr = names.pop()
    if stored is None or to_x(stored) is None:
        ctx.unknown(rule, key, "no element store at the sample index found in the section loop", where); return
    u = mk_idx(warr, [X.var(iv)], "real")
    y_ref = a0 * u + ez
    ctx.compare(rule, key + "[y]", to_x(stored), y_ref, where, detail="output y = a0*u + z written at the sample index (direct form II transposed)")
    ctx.compare(rule, key + "[z]", nxt, a1 * u - b1 * y_ref, where, detail="state z' = a1*u - b1*y with a0,a1 the numerator row and b1 the second denominator coefficient of the same section")
    okc = warr == "work"
    (ctx.holds if okc else ctx.violated)(rule, key + "[chaining]", "each section reads and overwrites the working copy: the next section filters the previous section's output" if okc else
                                         f"the section loop reads / writes '{warr}' instead of the working copy of the samples", where)
    # state read before the loop from its slot and stored back to the same slot after it
    outer = None
    for n in ast.walk(fn):
        if isinstance(n, ast.For) and any(isinstance(m, ast.For) for m in n.body): outer = n
    good = False
    if outer is not None:
        idx_inner = next(i for i, m in enumerate(outer.body) if isinstance(m, ast.For))
        before = outer.body[:idx_inner]; after = outer.body[idx_inner + 1:]
        rd = [m for m in before if isinstance(m, ast.Assign) and isinstance(m.targets[0], ast.Name) and m.targets[0].id == sname and isinstance(m.value, ast.Subscript)]
        wr = [m for m in after if isinstance(m, ast.Assign) and isinstance(m.targets[0], ast.Subscript) and isinstance(m.value, ast.Name) and m.value.id == sname]
        if rd and wr and ast.dump(rd[-1].value.value) == ast.dump(wr[0].targets[0].value) and ast.dump(rd[-1].value.slice) == ast.dump(wr[0].targets[0].slice): good = True
    (ctx.holds if good else ctx.violated)(rule, key + "[state slot]", "each section reads its state before and writes the same slot after its sample loop" if good else
                                          "a section's final state is not written back to the slot it was read from", where)
    # the filtered working copy and the state array are what is returned
    okr = isinstance(r, tuple) and len(r) == 2 and isinstance(r[0], ArrParam) and r[0].name == "work" and isinstance(r[1], ArrParam) and r[1].name == "zi"
    (ctx.holds if okr else ctx.violated)(rule, key + "[returned]", "returns (filtered working copy, final states)" if okr else f"returns {r!r}", where)


def check_fifo(ctx, rule="R4-get_sample-is-FIFO"):
    """bounded unrolling: with a prefetch block of 3, seven successive get_sample calls must return block1[0..2], block2[0..2], block3[0]."""
    repo = ctx.repo
    for cls in ("white_noise", "red_noise"):
        key = f"{NOISE}::{cls}"; ctx.analysed(key)
        I = make_interp(repo)
        I.module_globals(NOISE)["_DEFAULT_BUFFER_SIZE"] = X.const(3)
        blocks = []

        def call(I_, f, args, kwargs, st, node, blocks=blocks):
            if f.key.endswith(".get_series"):
                n = to_x(args[1]) if len(args) > 1 else None
                b = len(blocks) + 1
                ARRAY_KIND[f"blk{b}"] = "real"
                blocks.append(n)
                return ArrParam(f"blk{b}", shape=(n,)).as_arr() if n is not None else Opaque("block size")
            return NotImplemented
        I.hooks["call"] = call
        o = instantiate(I, cls, seed=X.var("seed"))
        if not isinstance(o, Obj): ctx.unknown(rule, key, "constructor not interpreted"); continue
        m = I.find_method(o.cls, "get_sample")
        fn = repo.get(m); where = repo.where(m, fn)
        got = []
        ok = True
        for k in range(7):
            st = St(); st.mod = NOISE
            try:
                v = I.call_func(Func(m, fn), [o], {}, st, None)
            except Unknown as ex:
                ctx.unknown(rule, f"{m}[{cls} call {k + 1}]", str(ex), where); ok = False; break
            got.append(v)
        if not ok: continue
        want = [mk_idx(f"blk{1 + k // 3}", [X.const(k % 3)]) for k in range(7)]
        bad = None
        for k, (g, w) in enumerate(zip(got, want)):
            gx = to_x(g) if not isinstance(g, PV) and not is_opaque(g) else None
            if gx is None: bad = (k, g, w, UNKNOWN); break
            if not gx.eq(w): bad = (k, g, w, VIOLATED); break
        c = f"{m}[{cls}]"
        if bad is None and all(b is not None and b.eq(X.const(3)) for b in blocks) and len(blocks) == 3:
            ctx.holds(rule, c, "samples come out in block order without loss or repetition; a new block is fetched only when the previous one is used up", where)
        elif bad is not None:
            k, g, w, stt = bad
            ctx.ob(rule, c, stt, f"sample number {k + 1} of a get_sample run is {g!r}, expected {w!r} (prefetch block of 3): the run is not the concatenation of the prefetched blocks"[:300], where)
        else:
            ctx.violated(rule, c, f"7 samples consumed {len(blocks)} prefetch blocks of sizes {blocks!r} (expected 3 blocks of the buffer size)", where)


# ============================================================================ C18
def check_filter_design(ctx, rule_c="R1-bilinear-coefficients", rule_p="R2-corner-placement", rule_s="R3-scaling"):
    repo = ctx.repo
    setup()
    key = f"{NOISE}::alpha_noise"; where = repo.where(key, repo.get(key)); ctx.analysed(key + ".__init__", key + "._calc_filter_coeffs")
    KIND.update({"flo": "pos", "fhi": "pos"})
    # ---- bilinear first-order section  (s + w1)/(s + w0)  ->  a0, a1, b1
    I = make_interp(repo)
    o = Obj(key, {"_fs": X.var("fs")})
    m = f"{key}._calc_filter_coeffs"
    r = I.call_func(Func(m, repo.get(m)), [o, X.var("flo"), X.var("fhi")], {}, St(), None)
    fs, flo, fhi, pi = X.var("fs"), X.var("flo"), X.var("fhi"), X.var("pi")
    want = ((fs + pi * fhi) / (fs + pi * flo), -(fs - pi * fhi) / (fs + pi * flo), (fs - pi * flo) / (fs + pi * flo))
    if isinstance(r, tuple) and len(r) == 3 and all(to_x(v) is not None for v in r):
        for nm, got, w in zip(("a0", "a1", "b1"), r, want):
            ctx.compare(rule_c, f"{m}[{nm}]", to_x(got), w, repo.where(m, repo.get(m)), detail=f"bilinear transform of (s+2*pi*f_hi)/(s+2*pi*f_lo): {nm}", prepare=noise_env)
    else:
        ctx.unknown(rule_c, m, f"coefficients not recognised: {r!r}"[:200], where)
    # ---- corner placement and packing, through the constructor
    I = make_interp(repo)
    rec = []
    base_call = None

    def call(I_, f, args, kwargs, st, node):
        if f.key == m:
            rec.append(list(args)); return NotImplemented
        return NotImplemented
    I.hooks["call"] = call
    try:
        obj = instantiate(I, "alpha_noise", seed=X.var("seed"))
    except Unknown as ex:
        ctx.unknown(rule_p, key, str(ex), where); return
    if not isinstance(obj, Obj) or not rec:
        ctx.unknown(rule_p, key, "constructor not interpreted up to the coefficient computation", where); return
    fmin, fmax, al = X.var("fmin"), X.var("fmax"), X.var("alpha")
    two_pi = X.const(2) * pi
    lw0 = mk_fn("log10", [two_pi * fmin]); lw1 = mk_fn("log10", [two_pi * fmax])
    n_ref = mk_fn("ceil", [X.const(Fr(9, 2)) * (lw1 - lw0)])
    n = to_x(obj.attrs.get("_num_spectra"))
    if n is None: ctx.unknown(rule_p, key + "[sections]", f"{obj.attrs.get('_num_spectra')!r}", where)
    else: ctx.compare(rule_p, key + "[number of sections]", n, n_ref, where, detail="n = ceil(4.5 * (log10 w_max - log10 w_min))", prepare=noise_env)
    dp = (lw1 - lw0) / n_ref
    a_lo, a_hi = rec[0][1], rec[0][2]
    for label, got, shift in (("pole corners", a_lo, X.const(0)), ("zero corners", a_hi, dp * al / 2)):
        A = as_arr(got)
        c = f"{key}[{label}]"
        if A is None or A.ndim != 1 or to_x(A.body) is None:
            ctx.unknown(rule_p, c, f"{got!r}"[:160], where); continue
        iv = X.var(A.axes[0][0])
        lp = lw0 + dp * (iv + Fr(1, 2) - al / 4) + shift
        wantf = mk_fn("pow", [X.const(10), lp], "pos") / two_pi
        okc, _ = compare(A.axes[0][1], n_ref, prepare=noise_env)
        st_, why = compare(to_x(A.body), wantf, prepare=noise_env)
        ctx.ob(rule_p, c, st_ if okc == HOLDS else okc, ("f_i = 10^(log10 w_min + dp*(i + 1/2 - alpha/4)" + (" + dp*alpha/2" if label.startswith("zero") else "") + ")/(2 pi): " + why) if st_ != HOLDS else "", where,
               lhs=to_x(A.body), rhs=wantf)
    # effective corners and scaling
    f0 = to_x(obj.attrs.get("_fmin")); f1 = to_x(obj.attrs.get("_fmax")); sc = to_x(obj.attrs.get("_scaling"))
    lo_arr, hi_arr = as_arr(a_lo), as_arr(a_hi)
    if None in (f0, f1, sc) or lo_arr is None or hi_arr is None:
        ctx.unknown(rule_s, key, "effective corners / scaling not recognised", where)
    else:
        first = to_x(arr_index(lo_arr, X.const(0))); last = to_x(arr_index(hi_arr, hi_arr.axes[0][1] - 1))
        ctx.compare(rule_s, key + "[fmin]", f0, first, where, detail="effective lower corner = first pole corner", prepare=noise_env)
        ctx.compare(rule_s, key + "[fmax]", f1, last, where, detail="effective upper corner = last zero corner", prepare=noise_env)
        ctx.compare(rule_s, key + "[scaling]", sc, X.const(1) / mk_fn("pow", [last, al / 2], "pos"), where, detail="output scaled by fmax^(-alpha/2): unit density at 1 Hz", prepare=noise_env)
    # packing for the cascade: numerator rows [a0, a1], denominator rows [1, -b1]
    ac, bc = as_arr(obj.attrs.get("_a_coeffs")), as_arr(obj.attrs.get("_b_coeffs"))
    if ac is None or bc is None or ac.ndim != 2 or bc.ndim != 2:
        ctx.unknown(rule_c, key + "[packing]", f"coefficient arrays not recognised: {obj.attrs.get('_a_coeffs')!r}"[:200], where)
    else:
        I2 = make_interp(repo)
        for nm, arrv, col, sign in (("a0", ac, 0, 1), ("a1", ac, 1, 1), ("1", bc, 0, 1), ("-b1", bc, 1, -1)):
            rowv, colv = arrv.axes[0][0], arrv.axes[1][0]
            el = subst_val(arrv.body, {colv: X.const(col)})
            el = to_x(el) if not isinstance(el, PV) else None
            c = f"{key}[packing {nm}]"
            if el is None: ctx.unknown(rule_c, c, "element not recognised", where); continue
            lo_i = to_x(arr_index(lo_arr, X.var(rowv))); hi_i = to_x(arr_index(hi_arr, X.var(rowv)))
            den = fs + pi * lo_i
            wantv = {"a0": (fs + pi * hi_i) / den, "a1": -(fs - pi * hi_i) / den, "1": X.const(1), "-b1": -(fs - pi * lo_i) / den}[nm]
            ctx.compare(rule_c, c, el, wantv, where, detail=f"row i of the packed coefficients holds {nm} of section i", prepare=noise_env)
    # the white source has unit density at the generator's sampling rate
    w = obj.attrs.get("_whitenoise")
    okw = isinstance(w, Obj) and to_x(w.attrs.get("_fs")) is not None and to_x(w.attrs["_fs"]).eq(fs) and to_x(w.attrs.get("_rms")) is not None and to_x(w.attrs["_rms"]).eq(fs.sqrt())
    (ctx.holds if okw else ctx.violated)(rule_s, key + "[white source]", "white_noise(fs, psd=1)" if okw else "the driving white source does not have unit density at fs", where)


def check_fftnoise(ctx, rule="R4-hermitian-random-phase"):
    repo = ctx.repo
    key = f"{NOISE}::fftnoise"; fn = repo.get(key); where = repo.where(key, fn); ctx.analysed(key)
    setup()
    ARRAY_KIND["spec"] = "complex"; ARRAY_KIND["phi"] = "real"
    bad = []
    for N in range(2, 25 if getattr(ctx, 'tier', 'quick') == 'thorough' else 10):
        I = make_interp(repo)
        caught = []

        def lib(I_, name, args, kw, st, n, caught=caught):
            if name == "numpy.fft.ifft":
                caught.append(args[0]); return ArrParam("ifft_out", kind="complex")
            if name == "numpy.fft.irfft":
                # irfft(H, n) is the inverse FFT of the length-n Hermitian extension of H: bins beyond len(H) are zero-padded (and bins beyond
                # n//2 dropped), the imaginary parts of DC and (even n) Nyquist are discarded, bin n-k is the conjugate of bin k
                H = as_arr(args[0]) if isinstance(args[0], (Arr, ArrParam, LocalArr)) else None
                M = H.axes[0][1].as_int() if H is not None and H.ndim == 1 else None
                nn = to_x(kw.get("n", args[1] if len(args) > 1 else None)) if (kw.get("n") is not None or len(args) > 1) else None
                n_ = nn.as_int() if nn is not None else (2 * (M - 1) if M else None)
                if M is None or n_ is None: return Opaque("np.fft.irfft of a half spectrum of unknown length")
                hb = lambda j: subst_val(H.body, {H.axes[0][0]: X.const(j)}) if j < M else X.const(0)
                bins = []
                for k in range(n_):
                    if k == 0 or (n_ % 2 == 0 and k == n_ // 2): bins.append(lift1(lambda x: x.real(), hb(k)))
                    elif k <= n_ // 2: bins.append(hb(k))
                    else: bins.append(lift1(lambda x: x.conj(), hb(n_ - k)))
                caught.append(bins); return ArrParam("irfft_out", kind="real")
            if name == "numpy.random.default_rng":
                return Obj("rng")
            return NotImplemented
        I.hooks["lib"] = lib

        def method(I_, o, name, args, kw, st, n):
            if isinstance(o, Obj) and o.cls == "rng" and name == "random":
                cnt = to_x(args[0]) if args else None
                if cnt is None: return Opaque("rng.random size")
                v = fresh("p")
                return Arr([(v, cnt)], mk_idx("phi", [X.var(v)], "real"))
            return NotImplemented
        I.hooks["method"] = method
        f = ArrParam("spec", shape=(X.const(N),), kind="complex")
        try:
            I.call_key(key, [f], {"rng": Obj("rng")}, St())
        except Unknown as ex:
            ctx.unknown(rule, f"{key}[N={N}]", str(ex), where); continue
        if not caught:
            ctx.unknown(rule, f"{key}[N={N}]", "spectrum handed to the inverse FFT not found", where); continue
        if isinstance(caught[0], list):
            if len(caught[0]) != N:
                bad.append((N, 0, VIOLATED, f"{len(caught[0])} output samples", f"{N} samples")); continue
            bins_ = caught[0]
        else:
            F = as_arr(caught[0])
            if F is None or F.ndim != 1:
                ctx.unknown(rule, f"{key}[N={N}]", f"spectrum {caught[0]!r}"[:160], where); continue
            if F.axes[0][1].as_int() != N:
                bad.append((N, 0, VIOLATED, f"{F.axes[0][1]!r} output samples", f"{N} samples")); continue
            bins_ = [subst_val(F.body, {F.axes[0][0]: X.const(k)}) for k in range(N)]
        Np = (N - 1) // 2
        for k in range(N):
            got = bins_[k]
            gx = to_x(got) if not isinstance(got, PV) and not is_opaque(got) else None
            fk = lambda j: mk_idx("spec", [X.const(j)], "complex")
            th = lambda j: X.const(2) * X.var("pi") * mk_idx("phi", [X.const(j)], "real")       # phases uniform in [0, 2 pi)
            ph = lambda j: mk_fn("cos", [th(j)]) + X(I_) * mk_fn("sin", [th(j)])
            if k == 0 or (N % 2 == 0 and k == N // 2): want = fk(k).real()
            elif 1 <= k <= Np: want = fk(k) * ph(k - 1)
            else: want = (fk(N - k) * ph(N - k - 1)).conj()
            if gx is None: bad.append((N, k, UNKNOWN, repr(got)[:120], None)); continue
            st_, why = compare(gx, want)
            if st_ != HOLDS: bad.append((N, k, st_, gx, want))
    if not bad:
        ctx.holds(rule, key, "for N = 2..9: bins 1..(N-1)//2 are rotated by unit phasors cos(phi)+i sin(phi), the mirror bins are their conjugates (index k <-> N-k), DC and Nyquist are real", where)
    for N, k, st_, gx, want in bad[:4]:
        ctx.ob(rule, f"{key}[N={N},bin {k}]", st_, f"spectrum bin {k} of a length-{N} request handed to the inverse FFT is not the prescribed Hermitian construction "
               "(the result is not real with the prescribed magnitudes)", where, lhs=gx, rhs=want)


def check_band_mask(ctx, rule="R5-band-mask-on-two-sided-grid"):
    repo = ctx.repo
    key = f"{NOISE}::band_limited_noise"; fn = repo.get(key); where = repo.where(key, fn); ctx.analysed(key)
    setup()
    KIND.update({"fa": "pos", "fb": "pos", "nsamp": "nat", "srate": "pos"})
    I = make_interp(repo)
    got = []

    def call(I_, f, args, kwargs, st, node):
        if f.key == f"{NOISE}::fftnoise":
            got.append((list(args), dict(kwargs))); return ArrParam("noise_out")
        return NotImplemented
    I.hooks["call"] = call
    try:
        r = I.call_key(key, [X.var("fa"), X.var("fb")], {"samples": X.var("nsamp"), "samplerate": X.var("srate"), "rng": Obj("rng")}, St())
    except Unknown as ex:
        ctx.unknown(rule, key, str(ex), where); return
    if not got:
        ctx.violated(rule, key, "the spectrum is not synthesised through fftnoise", where); return
    F0 = got[0][0][0]
    F = local_to_arr(F0) if isinstance(F0, LocalArr) else as_arr(F0)
    if F is None or is_opaque(F) or F.ndim != 1:
        ctx.unknown(rule, key, f"spectrum {got[0][0][0]!r}"[:160], where); return
    v = F.axes[0][0]
    okn, _ = compare(F.axes[0][1], X.var("nsamp"))
    grid = mk_fn("fftfreq", [X.var(v), X.var("nsamp"), X.const(1) / X.var("srate")], "real").abs()
    # body must be 1 where fa <= |fftfreq| <= fb and 0 elsewhere
    conds = []
    ok = True
    for path, leaf in pv_leaves(F.body):
        lx = to_x(leaf)
        if lx is None: ok = False; break
        inside = True; tested = set()
        for cond, pol in path:
            d = getattr(cond, "lt", None)
            if d is None: ok = False; break
            if d.eq(grid - X.var("fa")): inside = inside and (pol is False); tested.add("fa")          # not(|f| < fa)
            elif d.eq(X.var("fb") - grid): inside = inside and (pol is False); tested.add("fb")        # not(fb < |f|)
            else: ok = False; break
        if not ok: break
        # a bin counts as inside only when both edges were tested on its path (a value that does not depend on an edge is not a band mask)
        if inside and tested != {"fa", "fb"}: ok = False; break
        if not lx.eq(X.const(1) if inside else X.const(0)): ok = False; break
    if ok and okn == HOLDS:
        ctx.holds(rule, key, "unit magnitude exactly on the bins with fa <= |fftfreq| <= fb of the full two-sided grid (hence symmetric), zero elsewhere", where)
    else:
        ctx.violated(rule, key, "the pass-band mask is not built from |fftfreq(samples, 1/samplerate)| on the full two-sided grid: bins outside the band (or only one of a +-f pair) "
                     f"receive power; spectrum handed to fftnoise: {F!r}"[:400], where)
    rng_ok = isinstance(got[0][1].get("rng"), Obj)
    (ctx.holds if rng_ok else ctx.violated)(rule, key + "[rng]", "caller's generator forwarded" if rng_ok else "the caller's generator is not forwarded to fftnoise", where)


def check_draw_order(ctx, rule="R7-request-drawn-last"):
    """within one get_series(npts) call of a coloured generator constructed with settling enabled, the npts variates of the request are the LAST ones
    drawn: whatever else consumes the generator in that call (a deferred settling pass) comes first.  Otherwise the position of the stream - and the
    settled filter state - depends on the size of the first request, and get_series(a) + get_series(b) is no longer get_series(a + b)."""
    repo = ctx.repo
    from .dispatch import numeric_chooser
    for cls in ("red_noise", "alpha_noise", "pink_noise"):
        key = f"{NOISE}::{cls}.get_series"
        if not repo.has(key): key = next((f"{NOISE}::{b}.get_series" for b in ("alpha_noise", "red_noise") if repo.has(f"{NOISE}::{b}.get_series")), key)
        where = repo.where(key, repo.get(key)) if repo.has(key) else NOISE
        ctx.analysed(key)
        I = make_interp(repo)
        I.hooks["decide"] = numeric_chooser({"fs": 1.0, "fmin": 0.01, "fmax": 0.4, "alpha": 1.0, "npts": 1000.0, "psd": 1.0})

        def call(I_, f, args, kwargs, st, node):
            if f.key.endswith("::_numba_lfilter_cascade"):
                return (Filtered("cascade", (list(args), {}), "y"), Filtered("cascade", (list(args), {}), "zf"))
            return NotImplemented
        I.hooks["call"] = call
        try:
            o = instantiate(I, cls, seed=X.var("seed"), init_filter=True)
        except Unknown as ex:
            ctx.unknown(rule, f"{NOISE}::{cls}", str(ex), where); continue
        rng = rng_of(o)
        if not isinstance(o, Obj) or rng is None:
            ctx.unknown(rule, f"{NOISE}::{cls}", "constructor not interpreted", where); continue
        n0 = len(rng.attrs["draws"].items)
        gs = I.find_method(o.cls, "get_series")
        st = St(); st.mod = NOISE
        try:
            I.call_func(Func(gs, repo.get(gs)), [o, X.var("npts")], {}, st, None)
        except Unknown as ex:
            ctx.unknown(rule, f"{NOISE}::{cls}.get_series", str(ex), where); continue
        new = rng.attrs["draws"].items[n0:]
        c = f"{NOISE}::{cls}.get_series[first request after construction]"
        if rng.attrs["draws"].per_iter or any(not isinstance(d, Draw) for d in new):
            ctx.unknown(rule, c, "draw sequence not recognised", where); continue
        req = [i for i, d in enumerate(new) if to_x(d.count) is not None and to_x(d.count).eq(X.var("npts"))]
        if not req:
            ctx.violated(rule, c, f"no draw of npts variates is made by get_series(npts): {new!r}"[:200], where)
        elif req[-1] != len(new) - 1:
            ctx.violated(rule, c, f"after the request's npts variates were drawn the same call draws again ({new[req[-1] + 1]!r}: a deferred settling pass): the stream position and the "
                         "settled state depend on the size of the first request, so chunked and unchunked generation differ", where)
        else:
            ctx.holds(rule, c, f"{len(new)} draw(s) in the call, the request's own last" + (f"; {n0} settling draw(s) at construction" if n0 else ""), where)
