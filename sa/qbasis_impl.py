import ast
from .symalg import X, KIND, compare
from .values import *
from .absint import Interp, St
from .libcalls import QROf
from .report import HOLDS, VIOLATED, UNKNOWN


def analyse(repo, fn):
    """yield (rule, status, detail, line)."""
    KIND["L"] = "nat"
    out = []
    for order in (1, 2):
        I = Interp(repo)
        st = St()
        r = I.call_key("speckit/core.py::_build_Q", [X.var("L"), X.const(order)], {}, st)
        tag = f"R6-basis[order={order}]"
        if isinstance(r, PV) or (not isinstance(r, QROf) and not is_opaque(r)):
            # not (only) a QR factor: the kernels compute the trend as Q (Q^T x), an orthogonal projection only if Q^T Q = I.
            # Decide that on concrete small lengths by partial evaluation in exact arithmetic (a counterexample is a violation).
            bad = None; proved = 0
            for Lc in (5, 8, 11):
                g = gram_instance(repo, Lc, order)
                if g is None: bad = ("unknown", Lc); break
                if g is True: proved += 1; continue
                bad = ("violated", Lc, g); break
            if bad and bad[0] == "violated":
                out.append((tag, VIOLATED, f"the basis returned for L={bad[1]}, order={order} is not orthonormal: {bad[2]}; Q(Q^T x) is then not the least-squares "
                            f"polynomial of degree {order}, so a polynomial trend is not removed exactly", fn.lineno)); continue
            out.append((tag, UNKNOWN, f"_build_Q does not return the Q factor of a QR decomposition on every path ({r!r}); orthonormal on {proved} concrete lengths only"[:300], fn.lineno)); continue
        if not isinstance(r, QROf):
            out.append((tag, UNKNOWN, f"_build_Q does not return the Q factor of a QR decomposition: {r!r}"[:200], fn.lineno)); continue
        if r.mode != "reduced":
            out.append((tag, VIOLATED, f"QR mode is {r.mode!r}, not 'reduced' (Q would not be L x (p+1))", fn.lineno)); continue
        Vm = r.V
        if isinstance(Vm, LocalArr):
            # a preallocated matrix filled column by column
            from .values import local_to_arr
            Vm = local_to_arr(Vm, st)
        if not isinstance(Vm, Arr) or Vm.ndim != 2:
            out.append((tag, UNKNOWN, "Vandermonde matrix not recognised", fn.lineno)); continue
        (nv, nc), (kv, kc) = Vm.axes
        if not nc.eq(X.var("L")) or kc.as_int() is None:
            out.append((tag, UNKNOWN if kc.as_int() is None else VIOLATED, f"basis matrix has shape ({nc!r}, {kc!r}), expected (L, {order + 1})", fn.lineno)); continue
        if kc.as_int() != order + 1:
            out.append((tag, VIOLATED, f"basis for order {order} has {kc.as_int()} columns, expected {order + 1} (degrees 0..{order})", fn.lineno)); continue
        t = X.const(-1) + X.const(2) * X.var(nv) / (X.var("L") - 1)
        status, detail = HOLDS, ""
        for k in range(order + 1):
            col = subst_val(Vm.body, {kv: X.const(k)})
            want = t.pow(k)
            if is_opaque(col) or isinstance(col, PV):
                status, detail = UNKNOWN, f"column {k}: {col!r}"[:200]; break
            s_, why = compare(to_x(col), want)
            if s_ != HOLDS:
                status = s_; detail = f"column {k} of the detrend basis is {col!r}, expected t^{k} with t=linspace(-1,1,L) {why}"; break
        out.append((tag, status, detail, fn.lineno))
    return out


def gram_instance(repo, Lc, order):
    """True if Q^T Q = I for the concrete length Lc (exact arithmetic), a description of the first wrong entry, or None if not evaluable."""
    I = Interp(repo)
    try:
        r = I.call_key("speckit/core.py::_build_Q", [X.const(Lc), X.const(order)], {}, St())
    except Exception:
        return None
    if isinstance(r, QROf): return True
    A = as_arr(r) if not is_opaque(r) and not isinstance(r, PV) else None
    if A is None or A.ndim != 2: return None
    (nv, nc), (kv, kc) = A.axes
    if nc.as_int() != Lc or kc.as_int() is None: return None
    p = kc.as_int()
    cols = []
    for k in range(p):
        col = []
        for n in range(Lc):
            v = subst_val(A.body, {nv: X.const(n), kv: X.const(k)})
            if is_opaque(v) or isinstance(v, PV) or to_x(v) is None: return None
            col.append(to_x(v))
        cols.append(col)
    for a in range(p):
        for b in range(a, p):
            tot = X.const(0)
            for n in range(Lc): tot = tot + cols[a][n] * cols[b][n]
            want = X.const(1 if a == b else 0)
            st_, _ = compare(tot, want)
            if st_ == VIOLATED: return f"column {a} . column {b} = {tot!r}, expected {want!r}"
            if st_ != HOLDS: return None
    return True
