import ast
from .symalg import X, KIND, compare
from .values import *
from .absint import Interp, St
from .libcalls import QROf
from .report import HOLDS, VIOLATED, UNKNOWN


def _judge_qr(r, st, order):
    """(status, detail) for a basis that is the Q factor of a QR decomposition of a matrix V: V must be the L x (order+1) Vandermonde matrix of t."""
    if r.mode != "reduced":
        return VIOLATED, f"QR mode is {r.mode!r}, not 'reduced' (Q would not be L x (p+1))"
    Vm = r.V
    if isinstance(Vm, LocalArr):
        # a preallocated matrix filled column by column
        from .values import local_to_arr
        Vm = local_to_arr(Vm, st)
    if not isinstance(Vm, Arr) or Vm.ndim != 2:
        return UNKNOWN, "Vandermonde matrix not recognised"
    (nv, nc), (kv, kc) = Vm.axes
    if not nc.eq(X.var("L")) or kc.as_int() is None:
        return (UNKNOWN if kc.as_int() is None else VIOLATED), f"basis matrix has shape ({nc!r}, {kc!r}), expected (L, {order + 1})"
    if kc.as_int() != order + 1:
        return VIOLATED, f"basis for order {order} has {kc.as_int()} columns, expected {order + 1} (degrees 0..{order})"
    t = X.const(-1) + X.const(2) * X.var(nv) / (X.var("L") - 1)
    for k in range(order + 1):
        col = subst_val(Vm.body, {kv: X.const(k)})
        want = t.pow(k)
        if is_opaque(col) or isinstance(col, PV):
            return UNKNOWN, f"column {k}: {col!r}"[:200]
        s_, why = compare(to_x(col), want)
        if s_ != HOLDS:
            return s_, f"column {k} of the detrend basis is {col!r}, expected t^{k} with t=linspace(-1,1,L) {why}"
    return HOLDS, ""


def analyse(repo, fn):
    """yield (rule, status, detail, line)."""
    KIND["L"] = "nat"
    out = []
    for order in (1, 2):
        I = Interp(repo)
        st = St()
        from . import symalg as _sa
        # generic segment length (L > order + 1): norms under a square root are positive there; the shortest lengths are instances of their own
        _sa.GENERIC_ROOTS[0] = True; del _sa.ROOT_ASSUMED[:]
        try: r = I.call_key("speckit/core.py::_build_Q", [X.var("L"), X.const(order)], {}, st)
        finally: _sa.GENERIC_ROOTS[0] = False
        tag = f"R6-basis[order={order}]"
        leaves = [l for _, l in pv_leaves(r)]
        if all(isinstance(l, QROf) for l in leaves):
            verdicts = [_judge_qr(l, st, order) for l in leaves]
            worst = next((v for v in verdicts if v[0] == VIOLATED), None) or next((v for v in verdicts if v[0] == UNKNOWN), None) or verdicts[0]
            out.append((tag, worst[0], worst[1], fn.lineno)); continue
        # not (only) a QR factor: the kernels compute the trend as Q (Q^T x), an orthogonal projection only if Q^T Q = I.
        # (a) every entry is finite for the shortest segments (a closed form may divide by a norm that vanishes for L <= order)
        deg = None
        for Lc in (1, 2, 3):
            f_ = finite_instance(repo, Lc, order)
            if f_ is not True and f_ is not None: deg = (Lc, f_); break
        if deg is not None:
            out.append((tag, VIOLATED, f"the basis for L={deg[0]}, order={order} has a non-finite entry ({deg[1]}): every statistic of such a segment is NaN, "
                        "although the record is finite", fn.lineno)); continue
        # (b) per path: a QR factor of the Vandermonde matrix, or a closed form in L with Q^T Q = I and column k of degree k in the sample index
        #     (proved for every L with the power-sum closed forms)
        verdicts = []
        for l in leaves:
            if isinstance(l, QROf): verdicts.append(_judge_qr(l, st, order))
            elif symbolic_gram(l, st, order) is True: verdicts.append((HOLDS, ""))
            else: verdicts.append((UNKNOWN, "closed form not proved orthonormal"))
        bad_qr = next((v for v, l in zip(verdicts, leaves) if isinstance(l, QROf) and v[0] == VIOLATED), None)
        if bad_qr is not None:
            out.append((tag, VIOLATED, bad_qr[1], fn.lineno)); continue
        if all(v[0] == HOLDS for v in verdicts):
            out.append((tag, HOLDS, "closed-form basis: Q^T Q = I for every L (power sums in closed form) and column k has degree k in the sample index", fn.lineno)); continue
        # (c) otherwise on concrete small lengths by partial evaluation in exact arithmetic (a counterexample is a violation).
        bad = None; proved = 0
        for Lc in (5, 8, 11):
            g = gram_instance(repo, Lc, order)
            if g is None: bad = ("unknown", Lc); break
            if g is True: proved += 1; continue
            bad = ("violated", Lc, g); break
        if bad and bad[0] == "violated":
            out.append((tag, VIOLATED, f"the basis returned for L={bad[1]}, order={order} is not orthonormal: {bad[2]}; Q(Q^T x) is then not the least-squares "
                        f"polynomial of degree {order}, so a polynomial trend is not removed exactly", fn.lineno)); continue
        out.append((tag, UNKNOWN, f"_build_Q does not return the Q factor of a QR decomposition on every path ({r!r}); orthonormal on {proved} concrete lengths only"[:300], fn.lineno))
    return out


def _basis_arr(r, st):
    from .values import local_to_arr
    if isinstance(r, LocalArr): r = local_to_arr(r, st)
    return as_arr(r) if r is not None and not is_opaque(r) and not isinstance(r, PV) else None


def finite_instance(repo, Lc, order):
    """True if every entry of the basis for the concrete length Lc is a finite number, a description of the first entry that is not
    (division by an exactly vanishing norm), None if not evaluable."""
    I = Interp(repo); st = St()
    try:
        r = I.call_key("speckit/core.py::_build_Q", [X.const(Lc), X.const(order)], {}, st)
    except ZeroDivisionError:
        return "division by zero while building the basis"
    except Exception:
        return None
    if isinstance(r, QROf): return True
    for ev in st.events:
        if ev[0] == "div":
            bx = to_x(ev[1]) if not is_opaque(ev[1]) and not isinstance(ev[1], (PV, Arr, ArrParam, LocalArr)) else None
            if bx is not None and bx.constval() is not None and bx.iszero():
                return f"division by {' '.join(ast.unparse(ev[2].right).split())[:60]} = 0"
        if ev[0] == "sqrt":
            ax_ = to_x(ev[1]) if not is_opaque(ev[1]) and not isinstance(ev[1], (PV, Arr, ArrParam, LocalArr)) else None
            c_ = ax_.constval() if ax_ is not None else None
            if c_ is not None and c_.im == 0 and c_.re < 0:
                return f"square root of {' '.join(ast.unparse(ev[2].args[0]).split())[:60]} = {c_.re} < 0"
    A = _basis_arr(r, st)
    if A is None: return None
    return True


def symbolic_gram(r, st, order):
    """True if the symbolic basis (length L) has orthonormal columns of degree 0..order; None if not decided."""
    from . import symalg as _sa
    A = _basis_arr(r, st)
    if A is None or A.ndim != 2: return None
    (nv, nc), (kv, kc) = A.axes
    if not nc.eq(X.var("L")) or kc.as_int() != order + 1: return None
    cols = []
    for k in range(order + 1):
        c = subst_val(A.body, {kv: X.const(k)})
        if is_opaque(c) or isinstance(c, PV) or to_x(c) is None: return None
        cols.append(to_x(c))
    _sa.FAULHABER[0] = True; _sa.GENERIC_ROOTS[0] = True
    try:
        for a in range(order + 1):
            for b in range(a, order + 1):
                try: tot = mk_sum(nv, X.var("L"), cols[a] * cols[b])
                except Unknown: return None
                st_, _ = compare(tot, X.const(1 if a == b else 0))
                if st_ != HOLDS: return None
        # degree of column k in the sample index: the (k+1)-th finite difference vanishes, the k-th does not
        for k, c in enumerate(cols):
            d = c
            for _ in range(k): d = d.subst({nv: X.var(nv) + 1}) - d
            if d.iszero(): return None                       # degree below k
            d = d.subst({nv: X.var(nv) + 1}) - d
            if not d.iszero(): return None                   # degree above k
    except Unknown:
        return None
    finally:
        _sa.FAULHABER[0] = False; _sa.GENERIC_ROOTS[0] = False
    return True


def gram_instance(repo, Lc, order):
    """True if Q^T Q = I for the concrete length Lc (exact arithmetic), a description of the first wrong entry, or None if not evaluable."""
    I = Interp(repo)
    try:
        r = I.call_key("speckit/core.py::_build_Q", [X.const(Lc), X.const(order)], {}, St())
    except Exception:
        return None
    if isinstance(r, QROf): return True
    A = _basis_arr(r, None)
    if A is None or A.ndim != 2: return None
    (nv, nc), (kv, kc) = A.axes
    if nc.as_int() != Lc or kc.as_int() is None: return None
    p = kc.as_int()
    cols = []
    for k in range(p):
        col = []
        for n in range(Lc):
            v = subst_val(A.body, {nv: X.const(n), kv: X.const(k)})
            if is_opaque(v) or isinstance(v, PV) or to_x(v) is None: return None
            col.append(to_x(v))
        cols.append(col)
    for a in range(p):
        for b in range(a, p):
            tot = X.const(0)
            for n in range(Lc): tot = tot + cols[a][n] * cols[b][n]
            want = X.const(1 if a == b else 0)
            st_, _ = compare(tot, want)
            if st_ == VIOLATED: return f"column {a} . column {b} = {tot!r}, expected {want!r}"
            if st_ != HOLDS: return None
    return True
