import ast
from .symalg import X, KIND, compare
from .values import *
from .absint import Interp, St
from .libcalls import QROf
from .report import HOLDS, VIOLATED, UNKNOWN


def analyse(repo, fn):
    """yield (rule, status, detail, line)."""
    KIND["L"] = "nat"
    out = []
    for order in (1, 2):
        I = Interp(repo)
        st = St()
        r = I.call_key("speckit/core.py::_build_Q", [X.var("L"), X.const(order)], {}, st)
        tag = f"R6-basis[order={order}]"
        if not isinstance(r, QROf):
            out.append((tag, UNKNOWN, f"_build_Q does not return the Q factor of a QR decomposition: {r!r}"[:200], fn.lineno)); continue
        if r.mode != "reduced":
            out.append((tag, VIOLATED, f"QR mode is {r.mode!r}, not 'reduced' (Q would not be L x (p+1))", fn.lineno)); continue
        Vm = r.V
        if not isinstance(Vm, Arr) or Vm.ndim != 2:
            out.append((tag, UNKNOWN, "Vandermonde matrix not recognised", fn.lineno)); continue
        (nv, nc), (kv, kc) = Vm.axes
        if not nc.eq(X.var("L")) or kc.as_int() is None:
            out.append((tag, UNKNOWN if kc.as_int() is None else VIOLATED, f"basis matrix has shape ({nc!r}, {kc!r}), expected (L, {order + 1})", fn.lineno)); continue
        if kc.as_int() != order + 1:
            out.append((tag, VIOLATED, f"basis for order {order} has {kc.as_int()} columns, expected {order + 1} (degrees 0..{order})", fn.lineno)); continue
        t = X.const(-1) + X.const(2) * X.var(nv) / (X.var("L") - 1)
        status, detail = HOLDS, ""
        for k in range(order + 1):
            col = subst_val(Vm.body, {kv: X.const(k)})
            want = t.pow(k)
            if is_opaque(col) or isinstance(col, PV):
                status, detail = UNKNOWN, f"column {k}: {col!r}"[:200]; break
            s_, why = compare(to_x(col), want)
            if s_ != HOLDS:
                status = s_; detail = f"column {k} of the detrend basis is {col!r}, expected t^{k} with t=linspace(-1,1,L) {why}"; break
        out.append((tag, status, detail, fn.lineno))
    return out
