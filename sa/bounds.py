"""C02.R6 - the memory-safety clause: a bounds check on the very (starts, L) handed to a JIT kernel dominates the call."""
import ast
from .symalg import X, Unknown
from .values import *
from .dispatch import *
from .report import HOLDS, VIOLATED, UNKNOWN


def _assumed_false(assumed):
    return [c for c, pol in assumed if pol is False] , [c for c, pol in assumed if pol is True]


def check_bounds_dominate(ctx, rule="R6-bounds-check-dominates-kernel"):
    setup()
    repo = ctx.repo
    for disp in ("core", "single"):
        fkey = AN + ("._lpsd_core" if disp == "core" else ".compute_single_bin")
        for order, iscsd in ((0, True), (2, False), (-1, True)):
            R = Run(repo, "numba")
            captured = []
            base = R._call

            def call2(I_, fn, args, kwargs, st, node, base=base, captured=captured):
                if fn.key.split("::")[-1].startswith("_stats_"):
                    captured.append((list(args), list(st.assumed), node))
                return base(I_, fn, args, kwargs, st, node)
            R.I.hooks["call"] = call2
            try:
                if disp == "core":
                    me = analyzer_obj(order, iscsd, True, plan_obj())
                    R.I.call_func(Func(fkey, repo.get(fkey)), [me, ArrParam("f_indices")], {}, St(), None)
                else:
                    me = analyzer_obj(order, iscsd, True)
                    R.I.hooks["decide"] = numeric_chooser(GENERIC)
                    R.I.call_func(Func(fkey, repo.get(fkey)), [me, X.var("freq")], {"L": X.var("Lreq")}, St(), None)
            except Unknown as ex:
                ctx.unknown(rule, fkey, str(ex)); continue
            c = f"{fkey}[order={order},{'csd' if iscsd else 'auto'}]"
            if not captured:
                ctx.unknown(rule, c, "no kernel call reached"); continue
            args, assumed, node = captured[0]
            where = f"speckit/analysis.py:{node.lineno}"
            choose = numeric_chooser(GENERIC)
            starts = select(args[2] if iscsd else args[1], choose)
            L = to_x(select(args[3] if iscsd else args[2], choose))
            N = X.var("N")
            lower = upper = False
            sk = _arr_key(starts)
            for cond, pol in assumed:
                A = getattr(cond, "any_of", None)
                if A is None or pol is not False: continue
                B = as_arr(A)
                if B is None or B.ndim != 1: continue
                v = B.axes[0][0]
                body = select(B.body, choose) if not (isinstance(B.body, PV) and B.body.hi is True) else B.body
                # body is PV(cond_lt(d), True, False): the elementwise test d < 0
                if not (isinstance(body, PV) and body.hi is True and body.lo is False and getattr(body.cond, "lt", None) is not None): continue
                d = body.cond.lt
                el = _elem(starts, v)
                if el is None or L is None: continue
                if d.eq(el): lower = True                       # starts[i] < 0
                if d.eq(N - L - el): upper = True               # starts[i] > N - L
            if lower and upper:
                ctx.holds(rule, c, "0 <= starts and starts <= N-L checked on the arguments of the call", where)
            else:
                miss = [t for t, ok in (("starts >= 0", lower), ("starts <= N - L", upper)) if not ok]
                ctx.violated(rule, c, f"no check of {' and '.join(miss)} on the very starts / L / N passed to the kernel dominates the call: an out-of-range start is an "
                             "out-of-bounds read inside a JIT kernel (custom schedulers are only validated here)", where)


def _arr_key(a):
    return None


def _elem(starts, v):
    """element v of the starts argument as an X (for an opaque plan array or a generated array)."""
    if isinstance(starts, ArrParam):
        from .symalg import mk_idx
        x = mk_idx(starts.name, [X.var(v)])
        return x
    if isinstance(starts, PV):
        return None
    A = as_arr(starts)
    if A is None or A.ndim != 1 or not isinstance(A.body, X): return None
    return A.body.subst({A.axes[0][0]: X.var(v)})


def check_plan_validation(ctx, rule="R6-plan-validation"):
    """plan() rejects K != len(D), empty D, L < 1 and out-of-range starts for any scheduler."""
    repo = ctx.repo
    skeys = scheduler_keys(repo)
    allkeys = []
    for ks in skeys.values():
        for k in ks:
            if k not in allkeys: allkeys.append(k)
    fkey = AN + ".plan"; fn = repo.get(fkey); where = repo.where(fkey, fn)
    try:
        R, plan, mref, me = run_plan(repo, allkeys, False)
    except Unknown as ex:
        ctx.unknown(rule, fkey, str(ex), where); return
    loops = [sm for k, sm in R.I.loop_summaries.items() if isinstance(k, int) and not sm.get("is_while")]
    # the per-bin validation: the loop (or comprehension) whose guards speak about the scheduler's K and D of the bin it visits
    def speaks(sm): return any("sch.K" in repr(getattr(c_, "eq", None) or getattr(c_, "lt", None) or "") or "sch.D" in repr(getattr(c_, "any_of", None) or getattr(c_, "eq", None) or "") for c_, _ in sm.get("assumed", []))
    S = next((sm for sm in loops if "D_norm" in sm.get("appends_by_name", {})), None) or next((sm for sm in loops if speaks(sm)), None)
    if S is None:
        ctx.unknown(rule, fkey, "validation loop over D not found", where); return
    assumed = S["assumed"]
    iv = S["ivar"]
    from .symalg import mk_idx
    Dlen = None
    found = {"K==len(D)": False, "D not empty": False, "L>=1": False, "starts>=0": False, "starts<=N-L": False}
    Lx = mk_idx("sch.L", [X.var(iv)]); Kx = mk_idx("sch.K", [X.var(iv)])
    N = X.var("N")
    for cond, pol in assumed:
        e = getattr(cond, "eq", None); d = getattr(cond, "lt", None); A = getattr(cond, "any_of", None)
        if e is not None and pol is True and (e[1].eq(Kx) or e[2].eq(Kx)): found["K==len(D)"] = True
        if e is not None and pol is False and (e[1].iszero() or e[2].iszero()): found["D not empty"] = True
        if d is not None and pol is False and d.eq(Lx - 1): found["L>=1"] = True
        if A is not None and pol is False:
            B = as_arr(A)
            if B is not None and isinstance(B.body, PV) and getattr(B.body.cond, "lt", None) is not None:
                dd = B.body.cond.lt
                v = B.axes[0][0]
                if "sch.D" in repr(dd) and dd.fv() <= {v, iv} | dd.fv() and not (N.fv() & dd.fv()): found["starts>=0"] = True
                if "sch.D" in repr(dd) and (N.fv() & dd.fv()) and Lx.atoms() <= dd.all_atoms(): found["starts<=N-L"] = True
    for k, ok in found.items():
        (ctx.holds if ok else ctx.violated)(rule, f"{fkey}[{k}]", "rejected with an exception before the plan is cached" if ok else
                                            f"plan() no longer rejects scheduler output violating {k}", where)
    _conforming_plans_accepted(ctx, R, S, rule, fkey, where)


# concrete conforming single-bin plans: (N, L, olap, fs, f) -> K by the count formula, evenly spread starts, reported overlap 1 - shift/L
_CONFORMING = [dict(N=1040, L=100, olap=0.0, fs=1.0, f=0.05), dict(N=1000, L=100, olap=0.5, fs=1.0, f=0.05), dict(N=4096, L=1000, olap=0.3, fs=2.0, f=0.01),
               dict(N=1000, L=300, olap=0.1, fs=1.0, f=0.02)]


def _instance_values(inst):
    import math
    N, L, olap, fs, f = inst["N"], inst["L"], inst["olap"], inst["fs"], inst["f"]
    K = min(math.floor(1 + (N - L) / ((1 - olap) * L) + 0.5), N - L + 1)
    shift = (N - L) / (K - 1) if K > 1 else None
    vals = {"sch.L": L, "sch.K": K, "sch.navg": K, "sch.f": f, "sch.r": fs / L, "sch.b": f * L / fs, "sch.m": f * L / fs}
    if shift is not None: vals["sch.O"] = 1 - shift / L
    return vals, {"N": float(N), "fs": fs, "olap": olap, "nx": float(N)}


def _eval3(cond, vals, fixed):
    """three-valued truth of an interpreter condition on one conforming bin: True / False / None (not evaluable)."""
    from .symalg import NumEnv, evalx
    from fractions import Fraction

    def num(x):
        table = {}
        for a in x.all_atoms():
            if a.tag == "idx" and a.name in vals: table[a.key] = X.const(Fraction(vals[a.name]).limit_denominator(10 ** 9))
            elif a.tag == "idx" and a.name.startswith("sch."): return None
        y = x.rewrite(table) if table else x
        if any(a.tag in ("idx", "fn") and not (a.tag == "fn" and a.name in ("abs", "min", "max", "nearest", "trunc", "floor", "ceil", "sqrt")) for a in y.all_atoms()): return None
        env = NumEnv(3); env.fixed.update(fixed)
        if any(a.tag == "v" and a.name not in fixed for a in y.all_atoms()): return None
        try: return evalx(y, env)
        except Exception: return None

    def tree(v):
        if isinstance(v, bool): return v
        if isinstance(v, PV):
            t = _eval3(v.cond, vals, fixed)
            if t is None:
                a, b = tree(v.hi), tree(v.lo)
                return a if a == b else None
            return tree(v.hi if t else v.lo)
        if isinstance(v, Arr): return tree(v.body)
        return None
    d = getattr(cond, "lt", None)
    if d is not None:
        z = num(d)
        return None if z is None else (z.real < 0)
    e = getattr(cond, "eq", None)
    if e is not None:
        z = num(e[1] - e[2])
        return None if z is None else (abs(z) < 1e-12)
    for attr in ("any_of", "all_of"):
        A = getattr(cond, attr, None)
        if A is not None:
            t = tree(as_arr(A).body if as_arr(A) is not None else None)
            return t          # one bin: any == all == the bin's own truth
    t = getattr(cond, "tree", None)
    if t is not None: return tree(t)
    return None


def _conforming_plans_accepted(ctx, R, S, rule, fkey, where):
    """plan() must not reject scheduler output that conforms to the scheduler rules: every guard that leads to an exception is evaluated on concrete
    conforming single-bin plans (count formula, evenly spread starts, reported overlap = 1 - shift/L, which is negative for widely spread segments)."""
    guards = list(getattr(R, "top", None).assumed if getattr(R, "top", None) is not None else []) + list(S["assumed"])
    rejected = None; n = 0
    for cond, pol in guards:
        for inst in _CONFORMING:
            vals, fixed = _instance_values(inst)
            t = _eval3(cond, vals, fixed)
            if t is None: continue
            n += 1
            if t != pol and rejected is None:
                rejected = (cond, inst, vals)
    if rejected is not None:
        cond, inst, vals = rejected
        ctx.violated(rule, f"{fkey}[conforming plan accepted]", f"plan() raises for a scheduler output that obeys every scheduler rule: the guard [{cond.text}] fires for the bin "
                     f"N={inst['N']}, L={inst['L']}, olap={inst['olap']} (K={vals['sch.K']}, reported overlap {vals.get('sch.O')!r:.8}): admissible configurations can no longer be planned"[:500], where)
    else:
        ctx.holds(rule, f"{fkey}[conforming plan accepted]", f"no exception guard fires on the conforming reference plans ({n} guard evaluations)", where)
