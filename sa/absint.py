"""E3/E5/E6 - abstract interpreter of the Python subset used by SpecKit over the algebraic
value domain (sa.values).  Nothing is executed: branch conditions that do not fold to a
constant stay opaque (values become decision trees), loops are never unrolled unless
they iterate over a literal; they are summarised by idiom (reduction, Goertzel
recurrence, array comprehension, per-iteration record).
"""
import ast
from fractions import Fraction as Fr

from .symalg import X, Unknown, mk_fn, mk_idx, mk_sum, V, Atom, C, KIND, ARRAY_KIND, _looks_negative
from .values import *
from .values import _fresh
from . import libmodel

MAX_UNROLL = 64
MAX_DEPTH = 12


class St:
    """interpreter state."""

    def __init__(s, env=None):
        s.env = dict(env or {})
        s.assumed = []        # (Cond, polarity)
        s.early = []          # guarded early returns: (path, value)
        s.ranges = {}         # index var name -> (lo X, count X)
        s.atom_eq = {}        # variable name -> X  (equalities learned from guards)
        s.events = []         # interpreter events (calls, stores) for clients
        s.under = []          # conditions under which the rest of the current function runs after a conditional early return

    def clone(s):
        memo = {}
        n = St()
        n.env = {k: clone_val(v, memo) for k, v in s.env.items()}
        n.assumed = list(s.assumed); n.early = list(s.early); n.ranges = dict(s.ranges)
        n.atom_eq = dict(s.atom_eq); n.events = s.events   # events shared (append-only log)
        n.under = list(s.under)
        for extra in ("mod", "fn_key", "loop_exits"):
            if hasattr(s, extra): setattr(n, extra, getattr(s, extra) if extra != "loop_exits" else list(s.loop_exits))
        n._memo = memo
        n._orig = getattr(s, "_orig_tmp", None) or {}
        return n


ORIG = {}


def clone_val(v, memo):
    if isinstance(v, (ListVal, DictVal, LocalArr, Obj)):
        if id(v) in memo: return memo[id(v)]
        ORIG[id(v)] = v
        if isinstance(v, ListVal):
            n = ListVal(); memo[id(v)] = n
            n.items = [clone_val(e, memo) for e in v.items]; n.per_iter = list(v.per_iter)
            for extra in ("trial", "sym_stores", "filter"):
                if hasattr(v, extra): setattr(n, extra, list(getattr(v, extra)) if extra == "sym_stores" else getattr(v, extra))
        elif isinstance(v, DictVal):
            n = DictVal(open_=v.open); memo[id(v)] = n
            n.d = {k: clone_val(e, memo) for k, e in v.d.items()}
        elif isinstance(v, LocalArr):
            n = LocalArr(v.name, v.shape, v.fill); n.ident = v.ident; memo[id(v)] = n
            n.stores = list(v.stores)
        else:
            n = object.__new__(type(v)); n.__dict__.update(v.__dict__); memo[id(v)] = n      # keeps subclass fields (markers, grids)
            n.attrs = {k: clone_val(e, memo) for k, e in v.attrs.items()}
        return n
    if type(v) in (tuple, list) and v and not isinstance(v[0], str):
        # plain sequences (star-args, literal tuples of buffers) may hold mutable containers
        new = [clone_val(e, memo) for e in v]
        if all(a is b for a, b in zip(new, v)): return v
        return tuple(new) if isinstance(v, tuple) else new
    return v


class Interp:
    def __init__(s, repo, hooks=None):
        s.repo = repo
        s.hooks = hooks or {}
        s.globals_cache = {}
        s.depth = 0
        s.trace = []          # log of notable events (for evidence)
        s.loop_summaries = {}  # id(node) -> summary dict
        s.call_log = []       # (callee key, args, node) for every package-function call
        s.last_env = {}       # function key -> local environment at the end of its last interpretation

    # ------------------------------------------------------------------ module globals
    def module_globals(s, rel):
        if rel in s.globals_cache: return s.globals_cache[rel]
        g = {}
        s.globals_cache[rel] = g
        mod = s.repo.module(rel)
        s._scan_module(rel, mod.body, g)
        return g

    def _scan_module(s, rel, body, g):
        for st in body:
            if isinstance(st, ast.Import):
                for a in st.names:
                    g[a.asname or a.name.split(".")[0]] = Lib(a.name if a.asname else a.name.split(".")[0])
            elif isinstance(st, ast.ImportFrom):
                modname = st.module or ""
                for a in st.names:
                    nm = a.asname or a.name
                    tgt = None
                    if st.level > 0 or modname.startswith("speckit"):
                        base = modname.replace("speckit.", "").replace("speckit", "")
                        cand = [f"speckit/{base}.py::{a.name}"] if base else []
                        if not base:
                            # from speckit import X  -> search package __init__ re-exports
                            for r2 in s.repo.mods:
                                cand.append(f"{r2}::{a.name}")
                        for k in cand:
                            if s.repo.has(k):
                                tgt = Func(k, s.repo.get(k)); break
                        if tgt is None and base and f"speckit/{base}.py" in s.repo.mods:
                            # module-level constant of a sibling module
                            g2 = s.module_globals(f"speckit/{base}.py")
                            if a.name in g2: tgt = g2[a.name]
                    if tgt is None:
                        tgt = Lib(f"{modname}.{a.name}" if modname else a.name)
                    g[nm] = tgt
            elif isinstance(st, (ast.FunctionDef, ast.ClassDef)):
                g[st.name] = Func(f"{rel}::{st.name}", st)
            elif isinstance(st, (ast.Assign, ast.AnnAssign)) and _is_empty_dict(st.value) and isinstance(st.targets[0] if isinstance(st, ast.Assign) else st.target, ast.Name):
                # a module-level memo dictionary: analysed cold (empty); staleness of its entries is the cache-key rule's business
                g[(st.targets[0] if isinstance(st, ast.Assign) else st.target).id] = DictVal()
            elif isinstance(st, ast.Assign) and len(st.targets) == 1 and isinstance(st.targets[0], ast.Name) and _memo_wrapped(st.value) is not None and _memo_wrapped(st.value) in g:
                # name = lru_cache(...)(function): the memoising wrapper computes what the function computes (its key is (args, kwargs): complete)
                g[st.targets[0].id] = g[_memo_wrapped(st.value)]
            elif isinstance(st, ast.Assign) and len(st.targets) == 1 and isinstance(st.targets[0], ast.Name):
                try:
                    g[st.targets[0].id] = libmodel.const_value(ast.literal_eval(st.value))
                except Exception:
                    nm = st.targets[0].id
                    if isinstance(st.value, ast.Name) and st.value.id in g:
                        g[nm] = g[st.value.id]
                    elif nm not in g:
                        g[nm] = s._const_expr(st.value, g, nm, rel)
            elif isinstance(st, ast.AnnAssign) and isinstance(st.target, ast.Name) and st.value is not None:
                try:
                    g[st.target.id] = libmodel.const_value(ast.literal_eval(st.value))
                except Exception:
                    g[st.target.id] = s._const_expr(st.value, g, st.target.id, rel)
            elif isinstance(st, ast.Try):
                s._scan_module(rel, st.body, g)
            elif isinstance(st, ast.If):
                s._scan_module(rel, st.body, g)

    def _const_expr(s, node, g, nm, rel=None):
        """module-level constant given by an arithmetic expression over literals and earlier constants (1 << 16, 2 * N_MAX, ...)."""
        if all(isinstance(n, (ast.BinOp, ast.UnaryOp, ast.Constant, ast.Name, ast.operator, ast.unaryop, ast.expr_context)) for n in ast.walk(node)):
            try:
                st0 = St(); st0.env.update(g)
                v = s.eval(node, st0)
                if isinstance(v, X) and v.constval() is not None: return v
            except Exception:
                pass
        # a machine constant: np.finfo(<type>).eps / .tiny / ...
        if isinstance(node, ast.Attribute) and isinstance(node.value, ast.Call) and ast.unparse(node.value.func).split(".")[-1] == "finfo":
            try:
                st0 = St(); st0.env.update(g)
                v = s.eval(node, st0)
                if isinstance(v, X) and v.constval() is not None: return v
            except Exception:
                pass
        # a literal table (dict / tuple / list) of constants, module-level functions and lambdas, e.g. a dispatch table of kernels or of formulas
        def table_ok(n):
            if isinstance(n, ast.Dict):
                key_ok = lambda k: isinstance(k, ast.Constant) or (isinstance(k, ast.Tuple) and all(isinstance(e, ast.Constant) for e in k.elts)) or \
                    (isinstance(k, ast.UnaryOp) and isinstance(k.operand, ast.Constant))
                return all(k is not None and key_ok(k) for k in n.keys) and all(table_ok(v) for v in n.values)
            if isinstance(n, ast.UnaryOp) and isinstance(n.operand, ast.Constant): return True
            if isinstance(n, (ast.Tuple, ast.List)): return all(table_ok(e) for e in n.elts)
            if isinstance(n, ast.Constant): return True
            if isinstance(n, ast.Name): return n.id in g
            if isinstance(n, ast.Lambda): return True
            return False
        if isinstance(node, (ast.Dict, ast.Tuple, ast.List)) and table_ok(node):
            try:
                st0 = St(); st0.env.update(g)
                if rel: st0.fn_key = f"{rel}::<module>"; st0.mod = rel
                v = s.eval(node, st0)
                if not is_opaque(v):
                    _detach_closures(v)
                    return v
            except Exception:
                pass
        return Opaque(f"module constant {nm}")

    # ------------------------------------------------------------------ classes
    def class_mro(s, cls_key):
        out = []
        stack = [cls_key]
        while stack:
            k = stack.pop(0)
            if k in out or not s.repo.has(k): continue
            node = s.repo.index[k]
            if not isinstance(node, ast.ClassDef): continue
            out.append(k)
            rel = k.split("::")[0]
            for b in node.bases:
                nm = ast.unparse(b)
                cand = f"{rel}::{nm}"
                if s.repo.has(cand): stack.append(cand)
                else:
                    g = s.module_globals(rel).get(nm)
                    if isinstance(g, Func): stack.append(g.key)
        return out

    def find_method(s, cls_key, name, after=None):
        mro = s.class_mro(cls_key)
        if after is not None and after in mro: mro = mro[mro.index(after) + 1:]
        for k in mro:
            m = f"{k}.{name}"
            if s.repo.has(m) and isinstance(s.repo.index[m], ast.FunctionDef): return m
        return None

    # ------------------------------------------------------------------ function calls
    def call_key(s, key, args, kwargs=None, st=None):
        fn = Func(key, s.repo.get(key))
        return s.call_func(fn, list(args), dict(kwargs or {}), st or St(), None)

    def bind_args(s, node, args, kwargs, defaults_env):
        a = node.args
        params = [p.arg for p in a.posonlyargs + a.args]
        env = {}
        if len(args) > len(params) and not a.vararg:
            raise Unknown(f"too many positional arguments for {node.name}")
        for p, v in zip(params, args): env[p] = v
        if a.vararg: env[a.vararg.arg] = tuple(args[len(params):])
        ndef = len(a.defaults)
        for i, p in enumerate(params):
            if p in env: continue
            if p in kwargs: env[p] = kwargs.pop(p); continue
            di = i - (len(params) - ndef)
            if di >= 0: env[p] = s.eval(a.defaults[di], defaults_env)
            else: raise Unknown(f"missing argument {p} for {node.name}")
        for p, d in zip(a.kwonlyargs, a.kw_defaults):
            if p.arg in kwargs: env[p.arg] = kwargs.pop(p.arg)
            elif d is not None: env[p.arg] = s.eval(d, defaults_env)
            else: raise Unknown(f"missing kw-only argument {p.arg}")
        if a.kwarg:
            env[a.kwarg.arg] = DictVal(kwargs); kwargs = {}
        if kwargs: raise Unknown(f"unexpected keyword arguments {sorted(kwargs)} for {node.name}")
        return env

    def call_func(s, fn, args, kwargs, st, callnode):
        if s.depth > MAX_DEPTH: return Opaque("call depth")
        node = fn.node
        if isinstance(node, ast.ClassDef):
            h = s.hooks.get("construct")
            if h:
                r = h(s, fn, args, kwargs, st, callnode)
                if r is not NotImplemented: return r
            obj = Obj(fn.key)
            init = s.find_method(fn.key, "__init__")
            if init is not None:
                s.call_func(Func(init, s.repo.get(init)), [obj] + list(args), kwargs, st, callnode)
            return obj
        h = s.hooks.get("call")
        if h:
            r = h(s, fn, args, kwargs, st, callnode)
            if r is not NotImplemented: return r
        rel = fn.key.split("::")[0]
        s.call_log.append((fn.key, args, kwargs, callnode))
        fst = St()
        fst.events = st.events
        fst.under = list(getattr(st, "under", []))
        fst.atom_eq = dict(st.atom_eq)
        fst.ranges = dict(st.ranges)
        genv = St(); genv.env = {}
        genv.mod = rel
        fst.mod = rel
        if fn.closure is not None:
            fst.env.update(fn.closure)
        try:
            fst.env.update(s.bind_args(node, list(args), dict(kwargs), fst))
        except Unknown as ex:
            return Opaque(str(ex))
        fst.fn_key = fn.key
        body = node.body
        if _is_generator(node):
            # a generator function consumed by a for loop / list(): the sequence of yielded values, collected like list.append
            body = _generator_body(node)
        s.depth += 1
        try:
            r = s.exec_block(body, fst)
        finally:
            s.depth -= 1
        s.last_env[fn.key] = fst.env
        val = r[1] if (r and r[0] == "return") else None
        if r and r[0] == "raise": val = AlwaysRaises("always raises")
        # fold guarded early returns into a decision tree
        for path, v in reversed(fst.early):
            for cond, pol in reversed(path):
                val = mk_pv(cond, v, val) if pol else mk_pv(cond, val, v)
        st.assumed.extend(a for a in fst.assumed if a not in st.assumed)
        return val

    # ------------------------------------------------------------------ statements
    def exec_block(s, stmts, st):
        for i, n in enumerate(stmts):
            r = s.exec_stmt(n, st, stmts[i + 1:])
            if r is not None:
                return r
        return None

    def exec_stmt(s, n, st, rest):
        h = s.hooks.get("stmt")
        if h:
            r = h(s, n, st)
            if r is not NotImplemented: return r
        if isinstance(n, ast.Expr):
            if isinstance(n.value, ast.Constant): return None
            try: s.eval(n.value, st)
            except Unknown: pass
            return None
        if isinstance(n, ast.Assign):
            v = s.eval(n.value, st)
            if isinstance(v, AlwaysRaises) and not getattr(s, "try_depth", 0):
                return ("raise",)          # the callee raises on every path: so does this statement (outside any try block)
            for t in n.targets: s.assign(t, v, st)
            return None
        if isinstance(n, ast.AnnAssign):
            if n.value is not None: s.assign(n.target, s.eval(n.value, st), st)
            return None
        if isinstance(n, ast.AugAssign):
            cur = s.eval(_load(n.target), st)
            v = s.eval(n.value, st)
            r = s.binop(n.op, cur, v)
            s.assign(n.target, r, st, aug=True)
            return None
        if isinstance(n, ast.Return):
            return ("return", s.eval(n.value, st) if n.value is not None else None)
        if isinstance(n, ast.Raise):
            return ("raise",)
        if isinstance(n, ast.Pass): return None
        if isinstance(n, ast.Break): return ("break",)
        if isinstance(n, ast.Continue): return ("continue",)
        if isinstance(n, ast.If): return s.exec_if(n, st)
        if isinstance(n, ast.For): return s.exec_for(n, st)
        if isinstance(n, ast.While): return s.exec_while(n, st)
        if isinstance(n, ast.With):
            for it in n.items:
                if it.optional_vars is not None:
                    s.assign(it.optional_vars, Opaque("context manager"), st)
            return s.exec_block(n.body, st)
        if isinstance(n, ast.Try):
            s.try_depth = getattr(s, "try_depth", 0) + (1 if n.handlers else 0)
            try: r = s.exec_block(n.body, st)
            finally: s.try_depth -= (1 if n.handlers else 0)
            if r is None and n.orelse: r = s.exec_block(n.orelse, st)
            if r is None and n.finalbody: r = s.exec_block(n.finalbody, st)
            return r
        if isinstance(n, ast.Assert):
            return None
        if isinstance(n, (ast.Import, ast.ImportFrom)):
            g = {}
            s._scan_module(getattr(st, "mod", ""), [n], g)
            st.env.update(g)
            return None
        if isinstance(n, ast.FunctionDef):
            st.env[n.name] = Func(f"{getattr(st, 'fn_key', '?')}.{n.name}", n, closure=st.env)
            return None
        if isinstance(n, (ast.Global, ast.Nonlocal, ast.Delete)):
            return None
        raise Unknown(f"statement {type(n).__name__}")

    # ---- if
    def exec_if(s, n, st):
        v = s.eval(n.test, st)
        if isinstance(v, Mismatch):
            # the test itself fails (IndexError / KeyError established by the model): an exception on this path
            st.events.append(("definite-exception", v.why, n))
            return ("raise",)
        t = s.truth(v, n.test)
        return s._branch(t, n.body, n.orelse, st)

    def _branch(s, t, body, orelse, st):
        """execute an if on a truth value: bool, (cond, polarity) or ('tree', decision tree of bools)."""
        if t is True: return s.exec_block(body, st)
        if t is False: return s.exec_block(orelse, st)
        if t[0] == "tree":
            T = t[1]
            if isinstance(T, bool): return s._branch(T, body, orelse, st)
            if not isinstance(T, PV):
                c = Cond.get(("src", repr(T)), repr(T))
                return s._branch((c, True), body, orelse, st)
            return s._fork(st, T.cond, lambda s1: s._branch(("tree", T.hi), body, orelse, s1),
                           lambda s2: s._branch(("tree", T.lo), body, orelse, s2))
        cond, pol = t
        if pol: return s._fork(st, cond, lambda s1: s.exec_block(body, s1), lambda s2: s.exec_block(orelse, s2))
        return s._fork(st, cond, lambda s1: s.exec_block(orelse, s1), lambda s2: s.exec_block(body, s2))

    def _fork(s, st, cond, run_true, run_false):
        # a condition already assumed on this path is not forked again
        for c0, p0 in st.assumed:
            if c0 is cond: return run_true(st) if p0 else run_false(st)
        dec = s.hooks.get("decide")
        if dec is not None:
            t = dec(cond)
            if t is not None:
                st.assumed.append((cond, bool(t)))
                _restrict_env(st, cond, bool(t))
                return run_true(st) if t else run_false(st)
        s1 = st.clone(); s2 = st.clone()
        _restrict_env(s1, cond, True); _restrict_env(s2, cond, False)
        s1.assumed.append((cond, True)); s2.assumed.append((cond, False))
        n0 = len(st.assumed)
        r1 = run_true(s1)
        r2 = run_false(s2)
        k1 = r1[0] if r1 else None; k2 = r2[0] if r2 else None
        if k1 is None and k2 is None:
            if len(s1.assumed) > n0 and s1.assumed[n0][0] is cond: s1.assumed.pop(n0)
            if len(s2.assumed) > n0 and s2.assumed[n0][0] is cond: s2.assumed.pop(n0)
            _merge_into(st, s1, s2, cond)
            return None
        if k1 == "raise" and k2 == "raise": return ("raise",)
        if k1 in ("raise",) and k2 is None:
            _adopt(st, s2); s._learn(st, cond, False); return None
        if k2 in ("raise",) and k1 is None:
            _adopt(st, s1); s._learn(st, cond, True); return None
        if k1 == "return" and k2 is None:
            _carry_effects(s1, s2, cond, True)
            _adopt(st, s2); st.early = list(st.early) + [(((cond, True),), r1[1])]
            return None
        if k2 == "return" and k1 is None:
            _carry_effects(s2, s1, cond, False)
            _adopt(st, s1); st.early = list(st.early) + [(((cond, False),), r2[1])]
            return None
        if k1 == "return" and k2 == "return":
            _adopt(st, s1)
            return ("return", mk_pv(cond, r1[1], r2[1]))
        if k1 == "return" and k2 == "raise":
            _adopt(st, s1); return r1
        if k2 == "return" and k1 == "raise":
            _adopt(st, s2); return r2
        if k1 in ("break", "continue") or k2 in ("break", "continue"):
            # loop exits are handled by the loop summariser: continue with the non-exiting branch
            if k1 in ("break", "continue") and k2 is None:
                if _wrote_arrays(s1): _carry_effects(s1, s2, cond, True)       # stores made before leaving the iteration live on, under the condition
                _adopt(st, s2); st.loop_exits = getattr(st, "loop_exits", []) + [(cond, True, k1)]; return None
            if k2 in ("break", "continue") and k1 is None:
                if _wrote_arrays(s2): _carry_effects(s2, s1, cond, False)
                _adopt(st, s1); st.loop_exits = getattr(st, "loop_exits", []) + [(cond, False, k2)]; return None
            if k1 == k2: _adopt(st, s1); return r1
            if k1 == "raise": _adopt(st, s2); return r2
            if k2 == "raise": _adopt(st, s1); return r1
        raise Unknown(f"control-flow merge {k1}/{k2}")

    def _learn(s, st, cond, pol):
        """learn an equality from an assumed (in)equality guard."""
        eq = getattr(cond, "eq", None)
        if eq is None: return
        is_eq, lhs, rhs = eq
        if (is_eq and pol) or ((not is_eq) and (not pol)):
            for a, b in ((lhs, rhs), (rhs, lhs)):
                if isinstance(a, X) and len(a.m) == 1 and not a.p and a.c == C(1):
                    (at, e), = a.m.items()
                    if e == 1 and at.tag == "v" and at.name not in b.fv():
                        st.atom_eq[at.name] = b
                        mp = {at.name: b}
                        for k in list(st.env):
                            v = st.env[k]
                            if isinstance(v, ListVal):
                                v.items = [subst_val(e, mp) for e in v.items]      # in place: identity matters
                            elif isinstance(v, (DictVal, Obj, LocalArr)):
                                continue
                            else:
                                st.env[k] = subst_val(v, mp)
                        return

    # ---- truth
    def truth(s, v, node):
        """True / False / Cond."""
        if isinstance(v, bool): return v
        if v is None: return False
        if isinstance(v, str): return bool(v)
        if isinstance(v, (tuple, list)): return bool(v)
        if isinstance(v, X):
            c = v.constval()
            if c is not None: return not c.iszero()
        if isinstance(v, PV):
            if v.hi is True and v.lo is False: return (v.cond, True)
            if v.hi is False and v.lo is True: return (v.cond, False)
            return ("tree", v)
        if isinstance(v, (Func, Lib, Obj, DictVal)):
            return True
        if isinstance(v, ListVal) and not v.per_iter:
            return bool(v.items)
        if isinstance(v, ListVal) and not v.items and len(v.per_iter) == 1 and isinstance(v.per_iter[0], tuple) and isinstance(v.per_iter[0][1], X):
            # a generated list is non-empty iff its count is positive
            from .values import _pos_x
            try:
                if _pos_x(v.per_iter[0][1]): return True          # counts declared as naturals are positive by convention (a plan has at least one bin)
            except Exception: pass
            t = libmodel.scal_compare(ast.Gt(), v.per_iter[0][1], X.const(0), "generated list is non-empty")
            if isinstance(t, bool): return t
            if isinstance(t, PV) and t.hi is True and t.lo is False: return (t.cond, True)
            if isinstance(t, PV) and t.hi is False and t.lo is True: return (t.cond, False)
        # opaque / symbolic: a fresh opaque condition keyed by source text
        txt = " ".join(ast.unparse(node).split())
        return (Cond.get(("src", txt), txt), True)

    # ---- loops
    def exec_for(s, n, st):
        it = s.eval(n.iter, st)
        seq = _concrete_seq(it)
        if seq is not None and len(seq) <= MAX_UNROLL and not n.orelse:
            for v in seq:
                s.assign(n.target, v, st)
                r = s.exec_block(n.body, st)
                if r is None: continue
                if r[0] == "break": break
                if r[0] == "continue": continue
                return r
            return None
        return s.summarise_loop(n, it, st)

    def exec_while(s, n, st):
        return s.summarise_loop(n, None, st)

    def summarise_loop(s, n, it, st):
        from .loops import summarise
        return summarise(s, n, it, st)

    # ------------------------------------------------------------------ assignment
    def assign(s, t, v, st, aug=False):
        if isinstance(t, ast.Name):
            st.env[t.id] = v
            return
        if isinstance(t, (ast.Tuple, ast.List)):
            seq = _concrete_seq(v)
            if seq is None and isinstance(v, (Arr, ArrParam)):
                A = as_arr(v)
                k = A.axes[0][1].as_int() if A.axes else None
                if k is not None and k == len(t.elts):
                    seq = [arr_index(A, X.const(i)) for i in range(k)]
            if seq is None and isinstance(v, ListVal) and not v.items and len(v.per_iter) == 1 and isinstance(v.per_iter[0], tuple):
                # a comprehension / generator over a symbolic iterable of known constant length, unpacked into that many names
                var_, cnt_, val_ = v.per_iter[0][:3]
                if isinstance(cnt_, X) and cnt_.as_int() == len(t.elts):
                    seq = [subst_val(val_, {var_: X.const(i)}) for i in range(len(t.elts))]
            if seq is None:
                if isinstance(v, PV):
                    parts = []
                    def pick(x, i):
                        if isinstance(x, (tuple, list)) and len(x) > i: return x[i]
                        if isinstance(x, (Arr, ArrParam)):
                            A = as_arr(x)
                            if A.axes and A.axes[0][1].as_int() == len(t.elts): return arr_index(A, X.const(i))
                        return Opaque("unpack")
                    for i in range(len(t.elts)):
                        parts.append(pv_apply(lambda x, i=i: pick(x, i), v))
                    seq = parts
                else:
                    seq = [Opaque("unpack of non-sequence " + type(v).__name__)] * len(t.elts)
            stars = [i for i, e in enumerate(t.elts) if isinstance(e, ast.Starred)]
            if len(stars) == 1 and len(seq) >= len(t.elts) - 1:
                # a, *rest, z = seq
                i0 = stars[0]; tail = len(t.elts) - 1 - i0
                mid = ListVal(list(seq[i0:len(seq) - tail]))
                for e, x in zip(t.elts[:i0], seq[:i0]): s.assign(e, x, st)
                st.env[t.elts[i0].value.id] = mid if isinstance(t.elts[i0].value, ast.Name) else None
                for e, x in zip(t.elts[i0 + 1:], seq[len(seq) - tail:] if tail else []): s.assign(e, x, st)
                return
            if len(seq) != len(t.elts):
                seq = [Opaque("unpack length mismatch")] * len(t.elts)
            for e, x in zip(t.elts, seq): s.assign(e, x, st)
            return
        if isinstance(t, ast.Attribute):
            o = s.eval(t.value, st)
            if isinstance(o, Obj):
                h = getattr(o, "hook", None)
                if h and h("setattr", o, t.attr, v, st) is not NotImplemented: return
                o.attrs[t.attr] = v
            return
        if isinstance(t, ast.Subscript):
            o = s.eval(t.value, st)
            libmodel.store_subscript(s, o, t, v, st, aug)
            return
        if isinstance(t, ast.Starred):
            s.assign(t.value, Opaque("starred"), st); return
        raise Unknown(f"assignment target {type(t).__name__}")

    # ------------------------------------------------------------------ expressions
    def eval(s, n, st):
        h = s.hooks.get("expr")
        if h:
            r = h(s, n, st)
            if r is not NotImplemented: return r
        m = getattr(s, "e_" + type(n).__name__, None)
        if m is None:
            return Opaque(f"expression {type(n).__name__}")
        return m(n, st)

    def e_Constant(s, n, st):
        return libmodel.const_value(n.value)

    def e_Name(s, n, st):
        if n.id in st.env: return st.env[n.id]
        g = s.module_globals(st.mod) if getattr(st, "mod", None) else {}
        if n.id in g: return g[n.id]
        if n.id in libmodel.BUILTINS: return Lib("builtins." + n.id)
        if n.id in ("True", "False", "None"): return {"True": True, "False": False, "None": None}[n.id]
        return Opaque(f"unbound name {n.id}")

    def e_Tuple(s, n, st):
        out = []
        for e in n.elts:
            if isinstance(e, ast.Starred):
                v = _concrete_seq(s.eval(e.value, st))
                if v is None: return Opaque("starred")
                out.extend(v)
            else: out.append(s.eval(e, st))
        return tuple(out)

    def e_List(s, n, st):
        t = s.e_Tuple(n, st)
        if is_opaque(t): return t
        return ListVal(list(t))

    def e_Set(s, n, st):
        return s.e_Tuple(n, st)

    def e_Dict(s, n, st):
        d = DictVal()
        for k, v in zip(n.keys, n.values):
            if k is None:
                sub = s.eval(v, st)
                if isinstance(sub, DictVal): d.d.update(sub.d); d.open = d.open or sub.open
                else: d.open = True
                continue
            kk = s.eval(k, st)
            if not isinstance(kk, str):
                kk = _const_key(kk)
                if kk is None: d.open = True; continue
            d.d[kk] = s.eval(v, st)
        return d

    def e_JoinedStr(s, n, st):
        out = []
        for p in n.values:
            if isinstance(p, ast.Constant): out.append(str(p.value))
            elif isinstance(p, ast.FormattedValue):
                v = s.eval(p.value, st)
                if isinstance(v, str): out.append(v)
                elif isinstance(v, X) and v.as_int() is not None and p.format_spec is None: out.append(str(v.as_int()))
                else: return Opaque("f-string")
        return "".join(out)

    def e_UnaryOp(s, n, st):
        v = s.eval(n.operand, st)
        if isinstance(n.op, ast.Not):
            def f(x):
                if isinstance(x, bool): return not x
                if x is None: return True
                if is_opaque(x): return x
                t = s.truth(x, n.operand)
                if isinstance(t, bool): return not t
                if t[0] == "tree": return Opaque("not of a tree")
                return mk_pv(t[0], not t[1], t[1])
            return pv_apply(f, v)
        if isinstance(n.op, ast.USub):
            return lift2("*", -1, v)
        if isinstance(n.op, ast.UAdd): return v
        if isinstance(n.op, ast.Invert):
            inv = lambda x: (not x) if isinstance(x, bool) else Opaque("~")
            if isinstance(v, Arr): return Arr(v.axes, pv_apply(inv, v.body))
            return pv_apply(inv, v)
        return Opaque("unary")

    def binop(s, op, a, b):
        if isinstance(op, ast.MatMult):
            hm = s.hooks.get("matmul")
            if hm is not None:
                r = hm(s, a, b)
                if r is not NotImplemented: return r
            return pv_apply(lambda x, y: x if is_opaque(x) else y if is_opaque(y) else arr_matmul(x, y), a, b)
        if isinstance(op, (ast.BitAnd, ast.BitOr)):
            def f(x, y):
                if isinstance(x, bool) and isinstance(y, bool):
                    return (x and y) if isinstance(op, ast.BitAnd) else (x or y)
                return Opaque("bit op")
            if isinstance(a, Arr) or isinstance(b, Arr):
                return _arr_bool(op, a, b)
            return pv_apply(f, a, b)
        if isinstance(op, (ast.LShift, ast.RShift)):
            xa, xb = to_x(a), to_x(b)
            if xa is not None and xb is not None and xa.as_int() is not None and xb.as_int() is not None and xb.as_int() >= 0:
                return X.const(xa.as_int() << xb.as_int() if isinstance(op, ast.LShift) else xa.as_int() >> xb.as_int())
            return Opaque("shift of non-constant integers")
        sym = {ast.Add: "+", ast.Sub: "-", ast.Mult: "*", ast.Div: "/", ast.Pow: "**",
               ast.FloorDiv: "//", ast.Mod: "%"}.get(type(op))
        if sym is None: return Opaque("operator " + type(op).__name__)
        if sym == "+" and isinstance(a, str) and isinstance(b, str): return a + b
        if sym in ("+", "-") and ((isinstance(a, str) and isinstance(b, X)) or (isinstance(a, X) and isinstance(b, str))):
            return Mismatch(f"TypeError: unsupported operand types for {sym}: text and number")
        if sym == "+" and isinstance(a, (tuple,)) and isinstance(b, (tuple,)): return a + b
        if sym == "-" and isinstance(a, tuple) and isinstance(b, tuple) and all(isinstance(e, str) for e in a + b):
            return tuple(e for e in a if e not in b)        # sets of names are modelled as tuples
        if sym == "+" and isinstance(a, ListVal) and isinstance(b, ListVal) and not a.per_iter and not b.per_iter:
            return ListVal(a.items + b.items)
        if sym == "*" and isinstance(a, ListVal) and to_x(b) is not None and to_x(b).as_int() is not None and not a.per_iter:
            return ListVal(a.items * to_x(b).as_int())
        if sym == "%" and isinstance(a, str): return Opaque("str %")
        if sym == "%":
            xa, xb = to_x(a), to_x(b)
            if xa is not None and xb is not None and xa.as_int() is not None and xb.as_int():
                return X.const(xa.as_int() % xb.as_int())
        if sym == "//":
            xa, xb = to_x(a), to_x(b)
            if xa is not None and xb is not None and xa.as_int() is not None and xb.as_int():
                return X.const(xa.as_int() // xb.as_int())
        return lift2(sym, a, b)

    def e_BinOp(s, n, st):
        a = s.eval(n.left, st); b = s.eval(n.right, st)
        if isinstance(n.op, (ast.Div, ast.FloorDiv, ast.Mod)):
            st.events.append(("div", b, n, list(st.assumed)))
        return s.binop(n.op, a, b)

    def e_BoolOp(s, n, st):
        vals = [s.eval(v, st) for v in n.values]
        is_and = isinstance(n.op, ast.And)

        def comb(x, y, node):
            if is_opaque(x) and not isinstance(x, Mismatch):
                # an operand the model cannot evaluate is an opaque condition of its own: the other operands keep their structure
                txt = " ".join(ast.unparse(node).split())
                tx = (Cond.get(("src", txt), txt), True)
            else:
                tx = x if isinstance(x, bool) else (None if is_opaque(x) else s.truth(x, node))
            if tx is None: return Opaque("bool of opaque")
            if is_and:
                if tx is True: return y
                if tx is False: return x
                return mk_pv(tx[0], y, False) if tx[1] else mk_pv(tx[0], False, y)
            else:
                if tx is True: return x
                if tx is False: return y
                return mk_pv(tx[0], True, y) if tx[1] else mk_pv(tx[0], y, True)
        acc = vals[-1]
        for v, node in zip(reversed(vals[:-1]), reversed(n.values[:-1])):
            acc = pv_apply(lambda x, acc=acc, node=node: comb(x, acc, node), v)
        return acc

    def e_Compare(s, n, st):
        left = s.eval(n.left, st)
        res = True
        for op, rn in zip(n.ops, n.comparators):
            right = s.eval(rn, st)
            r = s.compare(op, left, right, n)
            if res is True: res = r
            else:
                res = pv_apply(lambda a, b: (a and b) if isinstance(a, bool) and isinstance(b, bool) else (
                    b if a is True else a if b is True else False if (a is False or b is False) else Opaque("chain")), res, r)
            left = right
        return res

    def compare(s, op, a, b, node):
        return libmodel.compare(s, op, a, b, node)

    def e_IfExp(s, n, st):
        t = s.truth(s.eval(n.test, st), n.test)
        if isinstance(t, tuple) and t[0] != "tree":
            # a condition already assumed on this path is not re-opened
            for c0, p0 in st.assumed:
                if c0 is t[0]: t = (p0 == t[1]); break
        if t is True: return s.eval(n.body, st)
        if t is False: return s.eval(n.orelse, st)
        a = s.eval(n.body, st); b = s.eval(n.orelse, st)
        if t[0] == "tree": return tree_select(t[1], a, b)
        c, pol = t
        return mk_pv(c, pv_restrict(a, c, True), pv_restrict(b, c, False)) if pol else mk_pv(c, pv_restrict(b, c, True), pv_restrict(a, c, False))

    def e_Lambda(s, n, st):
        fd = ast.FunctionDef(name="<lambda>", args=n.args, body=[ast.Return(value=n.body)], decorator_list=[], lineno=n.lineno)
        return Func(f"{getattr(st, 'fn_key', '?')}.<lambda>", fd, closure=st.env)

    def e_Attribute(s, n, st):
        o = s.eval(n.value, st)
        return libmodel.get_attr(s, o, n.attr, st, n)

    def e_Subscript(s, n, st):
        o = s.eval(n.value, st)
        return libmodel.get_subscript(s, o, n, st)

    def e_Slice(s, n, st):
        return ("slice", s.eval(n.lower, st) if n.lower else None, s.eval(n.upper, st) if n.upper else None,
                s.eval(n.step, st) if n.step else None)

    def e_Call(s, n, st):
        f = s.eval(n.func, st)
        if isinstance(f, Lib) and f.name == "builtins.zip" and len(n.args) == 1 and isinstance(n.args[0], ast.Starred) and not n.keywords:
            # zip(*rows): transpose a list of equally long records into one sequence per component
            rows = s.eval(n.args[0].value, st)
            rec0 = rows.per_iter[0][2] if isinstance(rows, ListVal) and not rows.items and len(rows.per_iter) == 1 and isinstance(rows.per_iter[0], tuple) else None
            if isinstance(rec0, ListVal) and not rec0.per_iter: rec0 = tuple(rec0.items)
            if isinstance(rec0, tuple):
                var, count = rows.per_iter[0][:2]; rec = rec0
                cols = []
                for comp in rec:
                    c_ = ListVal(); c_.per_iter = [(var, count, comp)]; cols.append(c_)
                return tuple(cols)
        args = []
        for a in n.args:
            if isinstance(a, ast.Starred):
                v = _concrete_seq(s.eval(a.value, st))
                if v is None: return Opaque("star-args")
                args.extend(v)
            else: args.append(s.eval(a, st))
        kwargs = {}
        for k in n.keywords:
            if k.arg is None:
                v = s.eval(k.value, st)
                if isinstance(v, DictVal) and not v.open: kwargs.update(v.d)
                elif isinstance(v, DictVal): kwargs.update(v.d); kwargs["**"] = v
                else: kwargs["**"] = v
            else: kwargs[k.arg] = s.eval(k.value, st)
        return s.apply(f, args, kwargs, st, n)

    def apply(s, f, args, kwargs, st, n):
        if isinstance(f, Func):
            return s.call_func(f, args, kwargs, st, n)
        if isinstance(f, Lib):
            return libmodel.call_lib(s, f.name, args, kwargs, st, n)
        if isinstance(f, BoundMethod):
            return libmodel.call_method(s, f.obj, f.name, args, kwargs, st, n)
        if isinstance(f, libmodel.CudaLaunch):
            from .loops import cuda_launch
            return cuda_launch(s, f, args, kwargs, st, n)
        if isinstance(f, PV):
            return pv_apply(lambda g: s.apply(g, args, kwargs, st, n) if not is_opaque(g) else g, f)
        if is_opaque(f): return type(f)("call of " + f.why)
        return Opaque(f"call of {type(f).__name__}")

    def e_ListComp(s, n, st):
        return libmodel.list_comp(s, n, st)

    def e_GeneratorExp(s, n, st):
        return libmodel.list_comp(s, n, st)

    def e_Starred(s, n, st):
        return Opaque("starred")


# ---------------------------------------------------------------------------- helpers
_GEN_CACHE = {}


def _memo_wrapped(node):
    """f for  lru_cache(...)(f) / lru_cache(f) / cache(f)  (functools), else None."""
    if not isinstance(node, ast.Call) or len(node.args) != 1 or not isinstance(node.args[0], ast.Name) or node.keywords: return None
    f = node.func
    if isinstance(f, ast.Call): f = f.func
    nm = ast.unparse(f)
    if nm.split(".")[-1] in ("lru_cache", "cache"): return node.args[0].id
    return None


def _detach_closures(v):
    """lambdas of a module-level table resolve their free names in the module's globals when called (not in a snapshot taken while scanning)."""
    if isinstance(v, Func) and v.key.endswith("<module>.<lambda>"): v.closure = {}
    elif isinstance(v, DictVal):
        for e in v.d.values(): _detach_closures(e)
    elif isinstance(v, (tuple, list)):
        for e in v: _detach_closures(e)
    elif isinstance(v, ListVal):
        for e in v.items: _detach_closures(e)


def _is_generator(fn):
    def walk(n):
        for ch in ast.iter_child_nodes(n):
            if isinstance(ch, (ast.FunctionDef, ast.Lambda, ast.ClassDef)): continue
            if isinstance(ch, (ast.Yield, ast.YieldFrom)): return True
            if walk(ch): return True
        return False
    return walk(fn)


def _generator_body(fn):
    """`yield v` -> `__yielded__.append(v)`, with `__yielded__ = []` first and `return __yielded__` last."""
    if id(fn) in _GEN_CACHE: return _GEN_CACHE[id(fn)]
    import copy as _copy

    class T(ast.NodeTransformer):
        def visit_FunctionDef(s_, n): return n if n is not fn_copy else s_.generic_visit(n)
        def visit_Lambda(s_, n): return n
        def visit_Expr(s_, n):
            if isinstance(n.value, ast.Yield):
                v = n.value.value if n.value.value is not None else ast.Constant(None)
                return ast.copy_location(ast.Expr(ast.Call(ast.Attribute(ast.Name("__yielded__", ast.Load()), "append", ast.Load()), [v], [])), n)
            return n
        def visit_Return(s_, n):
            return ast.copy_location(ast.Return(ast.Name("__yielded__", ast.Load())), n)
    fn_copy = _copy.deepcopy(fn)
    T().visit(fn_copy)
    first = fn_copy.body[0] if fn_copy.body else fn
    init = ast.copy_location(ast.Assign([ast.Name("__yielded__", ast.Store())], ast.List([], ast.Load())), first)
    fin = ast.copy_location(ast.Return(ast.Name("__yielded__", ast.Load())), fn_copy.body[-1] if fn_copy.body else fn)
    body = [init] + fn_copy.body + [fin]
    for b in body: ast.fix_missing_locations(b)
    _GEN_CACHE[id(fn)] = body
    return body


def _is_empty_dict(v):
    if v is None: return False
    if isinstance(v, ast.Dict) and not v.keys: return True
    return isinstance(v, ast.Call) and ast.unparse(v.func) in ("dict", "OrderedDict", "collections.OrderedDict") and not v.args and not v.keywords


def _load(t):
    import copy
    t2 = copy.copy(t); t2.ctx = ast.Load()
    return t2


def _const_key(v):
    if isinstance(v, X) and v.as_int() is not None: return v.as_int()
    if isinstance(v, (int, str, bool)): return v
    if isinstance(v, tuple):
        ks = [_const_key(e) for e in v]
        if all(k is not None for k in ks): return tuple(ks)
    return None


def _concrete_seq(v):
    if isinstance(v, tuple): return list(v)
    if isinstance(v, list): return list(v)
    if isinstance(v, ListVal) and not v.per_iter: return list(v.items)
    if isinstance(v, dict): return list(v)
    if isinstance(v, DictVal) and not v.open: return list(v.d.keys())
    if isinstance(v, libmodel.RangeVal):
        lo, hi, step = v.lo.as_int(), v.hi.as_int(), v.step.as_int()
        if lo is not None and hi is not None and step:
            r = range(lo, hi, step)
            if len(r) <= MAX_UNROLL: return [X.const(i) for i in r]
    return None


def tree_select(T, a, b):
    """value of `a if T else b` for a decision tree T of booleans."""
    if T is True: return a
    if T is False: return b
    if isinstance(T, PV):
        return mk_pv(T.cond, tree_select(T.hi, pv_restrict(a, T.cond, True), pv_restrict(b, T.cond, True)),
                     tree_select(T.lo, pv_restrict(a, T.cond, False), pv_restrict(b, T.cond, False)))
    return Opaque("condition is not boolean")


def _composite_cond(v):
    k = vkey(v)
    c = Cond.get(("tree", k), repr(v))
    c.tree = v
    return c


def _restrict_env(st, cond, pol):
    for k in list(st.env):
        v = st.env[k]
        if isinstance(v, (PV, Arr, tuple)):
            st.env[k] = pv_restrict(v, cond, pol)


def _copy_content(dst, src):
    if isinstance(dst, ListVal):
        dst.items = src.items; dst.per_iter = src.per_iter
        if hasattr(src, "sym_stores"): dst.sym_stores = src.sym_stores
    elif isinstance(dst, DictVal):
        dst.d = src.d; dst.open = src.open
    elif isinstance(dst, LocalArr):
        dst.stores = src.stores
    elif isinstance(dst, Obj):
        dst.attrs = src.attrs


def _remap(v, mp, seen=None):
    """replace cloned containers by their originals (identity preservation across forks)."""
    if seen is None: seen = set()
    if isinstance(v, (ListVal, DictVal, LocalArr, Obj)):
        o = mp.get(id(v), v)
        if id(o) in seen: return o
        seen.add(id(o))
        if isinstance(o, ListVal): o.items = [_remap(e, mp, seen) for e in o.items]
        elif isinstance(o, DictVal): o.d = {k: _remap(e, mp, seen) for k, e in o.d.items()}
        elif isinstance(o, Obj): o.attrs = {k: _remap(e, mp, seen) for k, e in o.attrs.items()}
        return o
    if isinstance(v, tuple): return tuple(_remap(e, mp, seen) for e in v)
    if isinstance(v, list): return [_remap(e, mp, seen) for e in v]
    return v


def _wrote_arrays(s_exit):
    """the branch stored into an array that existed before the fork"""
    for oid, c_ in s_exit._memo.items():
        orig = ORIG.get(oid)
        if isinstance(orig, LocalArr) and isinstance(c_, LocalArr) and len(c_.stores) > len(orig.stores): return True
    return False


def _carry_effects(s_ret, s_cont, cond, pol_ret):
    """a branch that returns early may have written into arrays that live on (output buffers): keep those stores, marked with the
    branch condition, and mark everything the continuing branch stores from now on with the opposite condition."""
    wrote = False
    for oid, c_ret in s_ret._memo.items():
        orig = ORIG.get(oid)
        if not isinstance(orig, LocalArr) or not isinstance(c_ret, LocalArr): continue
        c_cont = s_cont._memo.get(oid)
        if not isinstance(c_cont, LocalArr): continue
        n0 = len(orig.stores)
        new = c_ret.stores[n0:]
        if not new: continue
        wrote = True
        pos = n0          # the continuing branch has not run yet beyond the test: its own stores (if any) come after
        for k, rec in enumerate(new):
            c_cont.stores.insert(pos + k, (rec + (("under", cond, pol_ret),)) if rec[0] != "opaque" else rec)
    if wrote:
        s_cont.under = list(getattr(s_cont, "under", [])) + [(cond, not pol_ret)]
    else:
        # the rest of the function runs only when the early return was not taken: whatever it stores into arrays that already exist
        # (the caller's buffers) happens under that condition; arrays allocated later are private to this path and need no mark
        live = frozenset(c.ident for c in s_cont._memo.values() if isinstance(c, LocalArr))
        if live: s_cont.under = list(getattr(s_cont, "under", [])) + [(cond, not pol_ret, live)]


def _adopt(st, other):
    mp = {}
    for oid, cl in other._memo.items():
        orig = ORIG.get(oid)
        if orig is None: continue
        _copy_content(orig, cl); mp[id(cl)] = orig
    seen = set()
    st.env = {k: _remap(v, mp, seen) for k, v in other.env.items()}
    st.assumed = other.assumed; st.early = other.early
    st.ranges = other.ranges; st.atom_eq = other.atom_eq
    st.under = list(getattr(other, "under", []))
    if hasattr(other, "loop_exits"): st.loop_exits = other.loop_exits


def _merge_into(st, s1, s2, cond):
    memo = {}
    pairs = []
    for oid, c1 in s1._memo.items():
        c2 = s2._memo.get(oid); orig = ORIG.get(oid)
        if c2 is None or orig is None: continue
        memo[(id(c1), id(c2))] = orig
        pairs.append((c1, c2, orig))
    for c1, c2, orig in pairs:
        _merge_content(c1, c2, cond, memo, orig)
    env = {}
    for k in set(s1.env) | set(s2.env):
        if k in s1.env and k in s2.env:
            env[k] = merge_val(s1.env[k], s2.env[k], cond, memo)
        else:
            v = s1.env.get(k, s2.env.get(k))
            env[k] = mk_pv(cond, v, Opaque(f"{k} unbound on one branch")) if k in s1.env else mk_pv(cond, Opaque(f"{k} unbound on one branch"), v)
    st.env = env
    # one branch left the iteration / function early on a sub-path (conditional continue / return after a store): what follows runs only on
    # the remaining paths.  That set is not a conjunction of conditions in general: later stores are marked with a condition of their own.
    u0 = list(getattr(st, "under", [])); u1 = list(getattr(s1, "under", [])); u2 = list(getattr(s2, "under", []))
    if len(u1) != len(u2) or any(a_[:2] != b_[:2] for a_, b_ in zip(u1, u2)):
        more1 = u1[len(u0):]; more2 = u2[len(u0):]
        if more1 and not more2 and all(len(e_) == 2 for e_ in more1):
            # only the branch [cond] gained restrictions r: the rest runs under  not(cond) or r.  With a single restriction that is decidable for
            # the marks: keep it exact when r is one condition by recording both as an opaque but named condition
            pass
        c_ = Cond.get(("src", "rest-after-conditional-exit", id(s1), id(s2)), "remaining paths after a conditional early exit")
        st.under = u0 + [(c_, True)]
    st.early = s1.early + [e for e in s2.early if e not in s1.early]
    st.atom_eq = {k: v for k, v in s1.atom_eq.items() if k in s2.atom_eq}
    le = getattr(s1, "loop_exits", []) + [e for e in getattr(s2, "loop_exits", []) if e not in getattr(s1, "loop_exits", [])]
    if le: st.loop_exits = le


def _merge_content(a, b, cond, memo, r):
    if isinstance(a, ListVal):
        if len(a.items) == len(b.items) and len(a.per_iter) == len(b.per_iter):
            r.items = [merge_val(x, y, cond, memo) for x, y in zip(a.items, b.items)]
            r.per_iter = [(x if vkey(x) == vkey(y) else Opaque("per-iteration record differs across branches"))
                          for x, y in zip(a.per_iter, b.per_iter)]
        else:
            r.items = [Opaque("list length differs across branches")]; r.per_iter = []
    elif isinstance(a, DictVal):
        d = {}
        for k in set(a.d) | set(b.d):
            if k in a.d and k in b.d: d[k] = merge_val(a.d[k], b.d[k], cond, memo)
            elif k in a.d: d[k] = mk_pv(cond, a.d[k], MISSING)
            else: d[k] = mk_pv(cond, MISSING, b.d[k])
        r.d = d; r.open = a.open or b.open
    elif isinstance(a, LocalArr):
        if len(a.stores) == len(b.stores):
            st_ = []
            for x, y in zip(a.stores, b.stores):
                if x is y or vkey(x) == vkey(y): st_.append(x)
                elif vkey(x[:-1]) == vkey(y[:-1]):
                    st_.append(x[:-1] + (mk_pv(cond, x[-1], y[-1]),))
                else:
                    st_.append(("opaque", Opaque("store differs across branches")))
            r.stores = st_
        else:
            na, nb = len(a.stores), len(b.stores)
            common = min(na, nb)
            if all((x is y) or vkey(x) == vkey(y) for x, y in zip(a.stores[:common], b.stores[:common])):
                st_ = list(a.stores[:common])
                longer, pol = (a, True) if na > nb else (b, False)
                for stx in longer.stores[common:]:
                    st_.append(stx + (("under", cond, pol),) if stx[0] != "opaque" else stx)
                r.stores = st_
            else:
                r.stores = [("opaque", Opaque("stores differ across branches"))]
    elif isinstance(a, Obj):
        at = {}
        for k in set(a.attrs) | set(b.attrs):
            if k in a.attrs and k in b.attrs: at[k] = merge_val(a.attrs[k], b.attrs[k], cond, memo)
            else: at[k] = mk_pv(cond, a.attrs.get(k, MISSING), b.attrs.get(k, MISSING))
        r.attrs = at


def merge_val(a, b, cond, memo):
    if a is b: return a
    for T in (ListVal, DictVal, LocalArr, Obj):
        if isinstance(a, T) and isinstance(b, T):
            if T is LocalArr and a.ident != b.ident: break
            key = (id(a), id(b))
            if key in memo: return memo[key]
            if T is ListVal: r = ListVal()
            elif T is DictVal: r = DictVal()
            elif T is LocalArr:
                r = LocalArr(a.name, a.shape, a.fill); r.ident = a.ident
            else:
                r = Obj(a.cls)
                if hasattr(a, "hook"): r.hook = a.hook
            memo[key] = r
            _merge_content(a, b, cond, memo, r)
            return r
    if isinstance(a, tuple) and isinstance(b, tuple) and len(a) == len(b):
        return tuple(merge_val(x, y, cond, memo) for x, y in zip(a, b))
    if isinstance(a, Arr) and isinstance(b, Arr) and len(a.axes) == len(b.axes):
        ok = all(ca.eq(cb) for (va, ca), (vb, cb) in zip(a.axes, b.axes) if isinstance(ca, X) and isinstance(cb, X))
        if ok:
            mp = {vb: X.var(va) for (va, ca), (vb, cb) in zip(a.axes, b.axes) if va != vb}
            bb = subst_val(b.body, mp) if mp else b.body
            return Arr(a.axes, mk_pv(cond, a.body, bb))
    return mk_pv(cond, a, b)


class _Missing:
    def __repr__(s): return "<missing>"


MISSING = _Missing()


def _arr_bool(op, a, b):
    A, B = as_arr(a), as_arr(b)
    if A is None or B is None: return Opaque("boolean array op")
    r = arr_op2("*", Arr(A.axes, X.const(0)), Arr(B.axes, X.const(0)))
    if is_opaque(r): return r
    mp = {}
    # align B's axes to result axes (same trailing alignment as arr_op2)
    nb = B.ndim; nr = len(r.axes)
    for k in range(1, nb + 1):
        mp[B.axes[nb - k][0]] = X.var(r.axes[nr - k][0])
    na = A.ndim; ma = {}
    for k in range(1, na + 1):
        ma[A.axes[na - k][0]] = X.var(r.axes[nr - k][0])
    ba = subst_val(A.body, ma); bb = subst_val(B.body, mp)

    def f(x, y):
        if isinstance(x, bool) and isinstance(y, bool):
            return (x and y) if isinstance(op, ast.BitAnd) else (x or y)
        return Opaque("bit op")
    return Arr(r.axes, pv_apply(f, ba, bb))
