"""C15 engine: the three optimal-analysis functions of speckit/systems.py are interpreted with
 * every `ltf(...)` call replaced by an abstract SpectrumResult whose attributes are the *code's own* table cells
   (partial evaluation of SpectrumResult.__getattr__, E4) instantiated on per-channel statistics P[a] = <|A|^2>,
   C[a,b] = <conj(A) B> (Hermitian by construction: C[b,a] = conj C[a,b]);
 * arrays over frequency bins represented by their value at a generic bin (`Grid`: a small concrete-shaped block of
   normal forms with an implicit trailing bin axis); the per-bin loop is admitted only as a map (k is used solely as
   the last index of a Grid);
 * sympy's Symbol/Matrix/solve/lambdify and numpy's linalg.solve/pinv modelled as exact linear algebra over the
   normal forms (Cramer's rule; pinv = inverse on the generic, invertible branch).
The residual handed to sqrt is compared with the Schur complement det[[T,S],[S^H,S00]]/det T of the spectral matrix."""
import ast
from fractions import Fraction as Fr

from .symalg import X, KIND, Unknown, mk_fn, compare
from .values import *
from .absint import Interp, St, _concrete_seq
from .table import Table, generic, ATTR_ERROR_V, setup_kinds
from .report import HOLDS, VIOLATED, UNKNOWN

SYS = "speckit/systems.py"
FUNCS = {"siso": f"{SYS}::SISO_optimal_spectral_analysis", "analytic": f"{SYS}::MISO_analytic_optimal_spectral_analysis",
         "numeric": f"{SYS}::MISO_numeric_optimal_spectral_analysis"}


class Grid(Obj):
    """block of per-bin values: shape = concrete leading dims; bins=True when a trailing bin axis is implied."""

    def __init__(s, shape, cells=None, bins=True, what="array"):
        Obj.__init__(s, "grid")
        s.shape = tuple(shape); s.bins = bins; s.what = what
        s.attrs.update(cells or {})
        if not s.attrs:
            for ix in s.indices(): s.attrs[ix] = X.const(0)

    @property
    def cells(s): return s.attrs      # stored as attrs so that state cloning / merging treats a Grid like any object

    def indices(s):
        out = [()]
        for n in s.shape: out = [o + (i,) for o in out for i in range(n)]
        return out

    def map(s, f): return Grid(s.shape, {k: f(v) for k, v in s.cells.items()}, s.bins, s.what)

    def __repr__(s): return f"Grid{s.shape}{'xbins' if s.bins else ''}"


class BinIndex(Obj):
    """the loop variable of the per-bin map loop."""

    def __init__(s): Obj.__init__(s, "bin-index")
    def __repr__(s): return "<bin k>"


class FGrid(Obj):
    def __init__(s, cfg): Obj.__init__(s, "fgrid"); s.cfg = cfg
    def __repr__(s): return "<frequency grid>"


class Solution(Obj):
    def __init__(s, pairs): Obj.__init__(s, "solve-result"); s.pairs = pairs


class Lambdified(Obj):
    def __init__(s, syms, expr): Obj.__init__(s, "lambdified"); s.syms = syms; s.expr = expr


def chan_stat(a, b):
    """<conj(A) B> as a normal form, Hermitian by construction."""
    if a == b:
        KIND[f"P_{a}"] = "pos"; return X.var(f"P_{a}")
    lo, hi = sorted((a, b))
    KIND[f"C_{lo}_{hi}"] = "complex"
    c = X.var(f"C_{lo}_{hi}")
    return c if (a, b) == (lo, hi) else c.conj()


def det(M):
    n = len(M)
    if n == 0: return X.const(1)
    if n == 1: return M[0][0]
    tot = X.const(0)
    for j in range(n):
        if M[0][j].iszero(): continue
        minor = [[M[r][c] for c in range(n) if c != j] for r in range(1, n)]
        t = M[0][j] * det(minor)
        tot = tot + t if j % 2 == 0 else tot - t
    return tot


def cramer(A, b):
    for row in A:
        for e in row:
            if not isinstance(e, X): raise Unknown(f"matrix entry {e!r}"[:160])
    D = det(A)
    if D.iszero(): raise Unknown("singular symbolic system")
    out = []
    for j in range(len(A)):
        Aj = [[(b[r] if c == j else A[r][c]) for c in range(len(A))] for r in range(len(A))]
        out.append(det(Aj) / D)
    return out


class Run:
    """one abstract execution of one of the three functions for q inputs."""

    def __init__(s, repo, T, which, q):
        s.repo = repo; s.T = T; s.which = which; s.q = q
        s.calls = []          # (channels tuple, fs value, kwargs dict, node)
        s.sqrt_args = []
        s.notes = []
        s.bad = []            # Mismatch reasons (definite idiom breaks)
        s.assumed = set()

    # ---- abstract SpectrumResult
    def ltf_result(s, args, kw, node):
        data = args[0] if args else kw.get("data")
        fs = args[1] if len(args) > 1 else kw.get("fs")
        rest = {k: v for k, v in kw.items() if k not in ("data", "fs")}
        seq = _concrete_seq(data)
        if isinstance(data, ArrParam): chans = (data.name,)
        elif seq is not None and all(isinstance(e, ArrParam) for e in seq) and len(seq) in (1, 2): chans = tuple(e.name for e in seq)
        else:
            mm = next((e for e in (seq or [data]) if isinstance(e, Mismatch)), None)
            if mm is not None: return mm
            return Opaque(f"ltf called with unrecognised data {data!r}")
        s.calls.append((chans, fs, rest, node))
        iscsd = len(chans) == 2
        run = s
        o = Obj("ltf-result")
        cfg = (vkey(fs), tuple(sorted((k, vkey(v)) for k, v in rest.items())))

        def hook(kind, ob, attr, v, st):
            if kind != "getattr": return NotImplemented
            if attr.startswith("__"): return NotImplemented
            if attr == "f": return FGrid(cfg)
            if attr == "nf": return X.var("nf")
            val = generic(run.T.cell(attr, iscsd))
            if val is ATTR_ERROR_V: return Mismatch(f"SpectrumResult.{attr} raises AttributeError for a{' cross' if iscsd else 'n auto'}-spectrum result")
            if is_opaque(val) or isinstance(val, PV): return Opaque(f"table cell {attr} has no generic normal form")
            x = to_x(val)
            if x is None: return Opaque(f"table cell {attr} is not numeric")
            a = chans[0]; b = chans[-1]
            return x.subst({"XX": chan_stat(a, a), "YY": chan_stat(b, b), "XY": chan_stat(a, b)})
        o.hook = hook
        return o

    # ---- hooks
    def hooks(s):
        run = s

        def call(I, f, args, kw, st, node):
            if f.key.endswith("::compute_spectrum") or f.key.endswith("::ltf") or f.key.endswith("::lpsd"):
                return run.ltf_result(args, kw, node)
            return NotImplemented

        def lib(I, name, args, kw, st, n):
            if name in ("speckit.compute_spectrum", "speckit.ltf", "speckit.analysis.compute_spectrum"):
                return run.ltf_result(args, kw, n)
            a0 = args[0] if args else None
            if name in ("numpy.allclose",):
                if isinstance(a0, FGrid) and isinstance(args[1], FGrid):
                    if a0.cfg == args[1].cfg: return True
                    return Cond_bool("allclose(f, f_ref) across differently configured ltf calls")
                return NotImplemented
            if name == "numpy.sqrt" and isinstance(a0, (X, PV)) and all(isinstance(l, X) or isinstance(l, Mismatch) for _, l in pv_leaves(a0)):
                run.sqrt_args.append(a0)

                def rt(x):
                    if is_opaque(x): return x
                    try: return x.sqrt()
                    except Unknown: return mk_fn("sqrt", [x])
                return pv_apply(rt, a0)
            if name == "numpy.isclose" and isinstance(a0, X):
                c = Cond.get(("isclose", a0.keystr(), repr(args[1:])), f"isclose({a0!r}, {args[1]!r}) at a bin"[:160])
                return PV(c, True, False)
            if name in ("numpy.abs", "numpy.absolute") and isinstance(a0, (X, PV)) and all(isinstance(l, X) or isinstance(l, Mismatch) for _, l in pv_leaves(a0)):
                return pv_apply(lambda x: x if is_opaque(x) else x.abs(), a0)
            if name in ("numpy.conj", "numpy.conjugate") and isinstance(a0, Grid): return a0.map(_cj)
            if name in ("numpy.zeros", "numpy.ones", "numpy.empty", "numpy.full"):
                shp = a0 if isinstance(a0, tuple) else (a0,)
                xs = [to_x(e) for e in shp]
                fillv = {"numpy.zeros": X.const(0), "numpy.ones": X.const(1), "numpy.empty": Opaque("uninitialised element (np.empty)"),
                         "numpy.full": to_x(args[1]) if len(args) > 1 and to_x(args[1]) is not None else Opaque("np.full value")}[name]
                if xs and xs[-1] is not None and xs[-1].eq(X.var("nf")) and all(x is not None and x.as_int() is not None for x in xs[:-1]):
                    lead = tuple(x.as_int() for x in xs[:-1])
                    if not lead: return fillv
                    g = Grid(lead)
                    for ix in g.indices(): g.cells[ix] = fillv
                    return g
                return NotImplemented
            if name == "numpy.array" and isinstance(a0, Obj) and a0.cls == "zeros-list": return X.const(0)
            if name in ("numpy.asarray", "numpy.array") and isinstance(a0, X): return a0
            if name == "numpy.any" and isinstance(a0, X):
                if a0.iszero(): return False
                c = Cond.get(("any", a0.keystr()), f"any({a0!r} != 0 over the bins)")
                return PV(c, True, False)
            if name == "numpy.mean" and isinstance(a0, Grid) and a0.shape:
                tot = lib(I, "numpy.sum", args, kw, st, n)
                if is_opaque(tot) or tot is NotImplemented: return tot
                return lift2("/", tot, X.const(a0.shape[0])) if isinstance(tot, (X, PV)) else (tot.map(lambda v: lift2("/", v, X.const(a0.shape[0]))) if isinstance(tot, Grid) else Opaque("np.mean of a grid"))
            if name == "numpy.sum" and isinstance(a0, Grid):
                ax = to_x(kw.get("axis", args[1] if len(args) > 1 else None))
                if ax is None or ax.as_int() != 0 or not a0.shape: return Mismatch("np.sum over a Grid along an axis other than 0")
                if len(a0.shape) == 1:
                    tot = X.const(0)
                    for ix in a0.indices():
                        if is_opaque(a0.cells[ix]): return a0.cells[ix]
                        tot = lift2("+", tot, a0.cells[ix])
                    return tot
                return Opaque("np.sum of a >1-D grid")
            if name == "numpy.einsum" and isinstance(a0, str) and len(args) > 1 and all(isinstance(g_, Grid) for g_ in args[1:]) and "->" in a0:
                # explicit signature over per-bin blocks: the trailing letter of a block that carries the implied bin axis is the bin label
                lhs_, out_ = a0.replace(" ", "").split("->"); subs_ = lhs_.split(",")
                if len(subs_) != len(args) - 1: return Opaque("einsum signature")
                binl = set(); eff = []
                for sb, g_ in zip(subs_, args[1:]):
                    if len(sb) == len(g_.shape) + 1 and g_.bins: binl.add(sb[-1]); eff.append(sb[:-1])
                    elif len(sb) == len(g_.shape): eff.append(sb)
                    else: return Opaque("einsum operand rank")
                if len(binl) > 1 or any(ch in e_ for ch in binl for e_ in eff) or any(ch not in out_ for ch in binl): return Opaque("einsum bin axis")
                outl = [ch for ch in out_ if ch not in binl]
                ext = {}
                for e_, g_ in zip(eff, args[1:]):
                    for ch, n_ in zip(e_, g_.shape):
                        if ext.setdefault(ch, n_) != n_: return Mismatch(f"einsum extents differ for '{ch}'")
                if any(ch not in ext for ch in outl): return Opaque("einsum output letter")
                suml = [ch for ch in ext if ch not in outl]
                import itertools
                res = {}
                for oi in itertools.product(*[range(ext[ch]) for ch in outl]):
                    tot = X.const(0)
                    for si in itertools.product(*[range(ext[ch]) for ch in suml]):
                        asg = dict(zip(outl, oi)); asg.update(zip(suml, si))
                        term = X.const(1)
                        for e_, g_ in zip(eff, args[1:]):
                            cv = g_.cells[tuple(asg[ch] for ch in e_)]
                            if is_opaque(cv): return cv
                            term = lift2("*", term, cv)
                        tot = lift2("+", tot, term)
                    res[oi] = tot
                if not outl: return res[()]
                return Grid(tuple(ext[ch] for ch in outl), res, bins=bool(binl))
            if name == "numpy.linalg.cond":
                KIND["cond_T"] = "pos"
                return X.var("cond_T")
            if name in ("numpy.linalg.solve",) and isinstance(a0, Grid) and isinstance(args[1], Grid):
                A, b = a0, args[1]
                if len(A.shape) != 2 or A.shape[0] != A.shape[1] or b.shape != (A.shape[0],): return Mismatch("linalg.solve on non-square system")
                n_ = A.shape[0]
                if all(isinstance(A.cells[(r, c)], X) and A.cells[(r, c)].iszero() for r in range(n_) for c in range(n_)):
                    return Mismatch("np.linalg.solve of an identically zero matrix (the input spectra were never stored in it): LinAlgError / H = 0 for every record")
                try: sol = cramer([[A.cells[(r, c)] for c in range(n_)] for r in range(n_)], [b.cells[(r,)] for r in range(n_)])
                except Unknown as ex: return Opaque(str(ex))
                return Grid((n_,), {(r,): sol[r] for r in range(n_)}, bins=False)
            if name == "numpy.linalg.pinv" and isinstance(a0, Grid):
                cut = kw.get("rcond", kw.get("rtol", args[1] if len(args) > 1 else None))
                if cut is not None or kw.get("hermitian") is not None:
                    # pinv(T, rcond=r) discards singular values below r*s_max: it is T^-1 only while cond(T) < 1/r
                    rx = to_x(cut).constval() if cut is not None and to_x(cut) is not None else None
                    lower = None
                    cT = X.var("cond_T")
                    for cc, pol in st.assumed:
                        d = getattr(cc, "lt", None)
                        if d is None: continue
                        try:
                            k1 = (d + cT).constval()          # d = c - cond < 0  <=>  cond > c
                            if k1 is not None and pol: lower = k1.re
                            k2 = (d - cT).constval()          # not(cond - c < 0)  <=>  cond >= c
                            if k2 is not None and not pol: lower = -k2.re
                        except Unknown: pass
                    from fractions import Fraction as _Fr
                    if rx is not None and rx.im == 0 and rx.re <= _Fr(1, 10 ** 15) and kw.get("hermitian") is None:
                        cut = None          # the documented default cut-off (1e-15) or smaller: same function as the plain call
                    elif rx is not None and rx.im == 0 and lower is not None and rx.re * lower >= 1:
                        return Mismatch(f"pinv(T, rcond={cut!r}) is reached only for cond(T) > {lower}: with rcond*cond >= 1 the smallest singular direction is always "
                                        "discarded, so H is not the solution of T H = S and one input is silently not subtracted")
                    if cut is not None:
                        return Opaque("pinv with an explicit cut-off is the inverse only while cond(T) < 1/rcond")
                run.assumed.add("pinv(T) = inverse(T) (T invertible: the generic branch)")
                if len(a0.shape) != 2 or a0.shape[0] != a0.shape[1]: return Mismatch("pinv of non-square")
                n_ = a0.shape[0]
                A = [[a0.cells[(r, c)] for c in range(n_)] for r in range(n_)]
                if all(isinstance(e, X) and e.iszero() for row in A for e in row):
                    return Grid((n_, n_), None, bins=False)          # pinv(0) = 0
                cols = []
                try:
                    for j in range(n_):
                        cols.append(cramer(A, [X.const(1 if r == j else 0) for r in range(n_)]))
                except Unknown as ex: return Opaque(str(ex))
                return Grid((n_, n_), {(r, c): cols[c][r] for r in range(n_) for c in range(n_)}, bins=False)
            if name == "builtins.len":
                if isinstance(a0, FGrid): return X.var("nf")
                if isinstance(a0, X): return X.var("nf")
                return NotImplemented
            if name == "builtins.isinstance" and isinstance(a0, (X, Grid, FGrid)):
                t = args[1]
                if isinstance(t, Lib) and t.name == "numpy.ndarray": return True
                return NotImplemented
            if name == "builtins.str" and isinstance(a0, X):
                nm = sym_name(a0)
                return nm[4:] if nm is not None else Opaque("str of expression")
            if name == "builtins.sorted" and isinstance(a0, ListVal) and all(isinstance(e, X) and sym_name(e) for e in a0.items):
                return ListVal(sorted(a0.items, key=sym_name))
            # ---- sympy
            if name in ("sympy.Symbol", "sympy.symbols"):
                if not isinstance(a0, str): return Opaque("dynamic symbol name")
                if ":" in a0:
                    head, hi = a0.split(":")
                    stem = head.rstrip("0123456789"); lo = int(head[len(stem):] or 0)
                    return tuple(sym(f"{stem}{i}") for i in range(lo, int(hi)))
                if "," in a0 or " " in a0.strip(): return tuple(sym(p) for p in a0.replace(",", " ").split())
                return sym(a0)
            if name == "sympy.Matrix":
                if len(args) == 3:
                    r_, c_ = to_x(args[0]).as_int(), to_x(args[1]).as_int()
                    cells = {}
                    for i in range(r_):
                        for j in range(c_):
                            cells[(i, j)] = I.apply(args[2], [X.const(i), X.const(j)], {}, st, n)
                    return Grid((r_, c_), cells, bins=False, what="sympy matrix")
                seq = _concrete_seq(a0)
                if seq is None: return Opaque("sympy.Matrix of non-sequence")
                return Grid((len(seq),), {(i,): v for i, v in enumerate(seq)}, bins=False, what="sympy matrix")
            if name == "sympy.solve":
                eqs = _concrete_seq(a0); unk = args[1]
                unk = [unk.cells[ix] for ix in unk.indices()] if isinstance(unk, Grid) else _concrete_seq(unk)
                if eqs is None or unk is None or not all(isinstance(e, X) for e in eqs) or not all(isinstance(u, X) and sym_name(u) for u in unk):
                    return Opaque("sympy.solve on unrecognised system")
                names = [sym_name(u) for u in unk]
                zero = {nm: X.const(0) for nm in names}
                A = []; b = []
                for e in eqs:
                    c0 = e.subst(zero)
                    row = []
                    for nm in names:
                        one = dict(zero); one[nm] = X.const(1)
                        row.append(e.subst(one) - c0)
                    lin = c0
                    for nm, cf in zip(names, row): lin = lin + cf * X.var(nm)
                    if not lin.eq(e): return Opaque("sympy.solve: system not linear in the unknowns")
                    A.append(row); b.append(-c0)
                if len(A) != len(names): return Opaque("sympy.solve: non-square system")
                try: sol = cramer(A, b)
                except Unknown as ex: return Opaque(str(ex))
                d = Solution(list(zip(unk, sol)))
                run.solution = d
                return d
            if name == "sympy.lambdify":
                syms = _concrete_seq(a0)
                if syms is None or not isinstance(args[1], X): return Opaque("lambdify of unrecognised expression")
                return Lambdified([sym_name(x) for x in syms], args[1])
            return NotImplemented

        def method(I, o, name, args, kw, st, n):
            if isinstance(o, Grid):
                if name in ("conj", "conjugate"): return o.map(_cj)
                if name == "copy": return o.map(lambda x: x)
                return Opaque(f"grid method {name}")
            if isinstance(o, Solution):
                if name == "items": return ListVal([(k, v) for k, v in o.pairs])
                if name == "keys": return ListVal([k for k, v in o.pairs])
                if name == "values": return ListVal([v for k, v in o.pairs])
                return Opaque(f"solve() result method {name}")
            if isinstance(o, (X, PV)) and name in ("conj", "conjugate"): return _cj(o)
            return NotImplemented

        def expr(I, n, st):
            if isinstance(n, ast.Subscript):
                base = I.eval(n.value, st)
                if isinstance(base, Grid): return run.grid_get(I, base, n, st)
                if isinstance(base, Solution):
                    k = I.eval(n.slice, st)
                    for kk, vv in base.pairs:
                        if isinstance(k, X) and kk.eq(k): return vv
                    return Opaque("subscript of solve() result")
                return NotImplemented
            if isinstance(n, ast.BinOp):
                if isinstance(n.op, ast.Mult) and isinstance(n.left, ast.List) and len(n.left.elts) == 1 and isinstance(n.left.elts[0], ast.Constant) and n.left.elts[0].value == 0:
                    cnt = I.eval(n.right, st)
                    if isinstance(cnt, X) and cnt.eq(X.var("nf")): return Obj("zeros-list")
                    return NotImplemented
                a = I.eval(n.left, st); b = I.eval(n.right, st)
                if isinstance(a, Grid) or isinstance(b, Grid): return run.grid_binop(n.op, a, b)
                if isinstance(n.op, (ast.Div, ast.FloorDiv, ast.Mod)): st.events.append(("div", b, n, list(st.assumed)))
                return I.binop(n.op, a, b)
            if isinstance(n, ast.Attribute) and n.attr == "free_symbols":
                v = I.eval(n.value, st)
                if isinstance(v, X):
                    names = sorted(a.name for a in v.all_atoms() if a.tag == "v" and a.name.startswith("sym:"))
                    return ListVal([X.var(nm) for nm in reversed(names)])      # a set: no order may be relied upon
                return NotImplemented
            if isinstance(n, ast.Call):
                f = I.eval(n.func, st) if isinstance(n.func, ast.Name) else None
                if isinstance(f, Lambdified):
                    args = []
                    for a in n.args:
                        if isinstance(a, ast.Starred):
                            seq = _concrete_seq(I.eval(a.value, st))
                            if seq is None: return Opaque("star-args")
                            args.extend(seq)
                        else: args.append(I.eval(a, st))
                    if len(args) != len(f.syms): return Mismatch("lambdified function called with a different number of values than symbols")
                    mm = next((v for v in args if isinstance(v, Mismatch)), None)
                    if mm is not None: return mm
                    if not all(isinstance(v, X) for v in args): return Opaque("lambdified function applied to non-numeric values")
                    return f.expr.subst(dict(zip(f.syms, args)))
                return NotImplemented
            return NotImplemented

        def stmt(I, n, st):
            if isinstance(n, (ast.Assign, ast.AugAssign)):
                t = n.targets[0] if isinstance(n, ast.Assign) else n.target
                if isinstance(t, ast.Subscript) and (not isinstance(n, ast.Assign) or len(n.targets) == 1):
                    base = I.eval(t.value, st)
                    if isinstance(base, X) and isinstance(t.value, ast.Name) and isinstance(n, ast.Assign):
                        # masked store into an array over the bins (generic-bin view): x[mask] = v
                        m = I.eval(t.slice, st); v = I.eval(n.value, st)
                        if isinstance(m, PV) and all(isinstance(l, bool) for _, l in pv_leaves(m)) and to_x(v) is not None:
                            st.env[t.value.id] = pv_apply(lambda b_: to_x(v) if b_ else base, m)
                            return None
                        st.env[t.value.id] = Opaque(f"partial store into a per-bin array at line {n.lineno}")
                        return None
                    if isinstance(base, Grid):
                        v = I.eval(n.value, st)
                        if isinstance(n, ast.AugAssign):
                            cur = run.grid_get(I, base, t, st)
                            v = run.grid_binop(n.op, cur, v) if isinstance(cur, Grid) or isinstance(v, Grid) else I.binop(n.op, cur, v)
                        run.grid_set(I, base, t, v, st)
                        return None
                return NotImplemented
            if isinstance(n, ast.For) and isinstance(n.iter, ast.Call) and isinstance(n.iter.func, ast.Name) and n.iter.func.id == "range" and len(n.iter.args) == 1 and isinstance(n.target, ast.Name):
                cnt = I.eval(n.iter.args[0], st)
                if isinstance(cnt, X) and cnt.eq(X.var("nf")):
                    st.env[n.target.id] = BinIndex()
                    run.notes.append(f"per-bin loop at line {n.lineno} executed once for a generic bin (admitted as a map: k used only as the last Grid index)")
                    r = I.exec_block(n.body, st)
                    if r is not None and r[0] in ("break", "continue"): return None
                    return r
                return NotImplemented
            return NotImplemented
        return {"call": call, "lib": lib, "method": method, "expr": expr, "stmt": stmt}

    # ---- Grid indexing
    def _index(s, I, G, node, st):
        sl = node.slice
        parts = list(sl.elts) if isinstance(sl, ast.Tuple) else [sl]
        want = len(G.shape) + (1 if G.bins else 0)
        if len(parts) > want:
            return Mismatch(f"{len(parts)} indices for a {want}-dimensional array")
        while len(parts) < want:                       # numpy: missing trailing indices are full slices
            parts.append(ast.Slice(lower=None, upper=None, step=None))
        lead = []
        for p in parts[:len(G.shape)]:
            if isinstance(p, ast.Slice):
                if p.lower is None and p.upper is None and p.step is None: lead.append(None); continue
                return Opaque("partial slice of a grid")
            v = I.eval(p, st)
            if isinstance(v, BinIndex): return Mismatch("the bin index is used on a channel axis")
            k = to_x(v).as_int() if to_x(v) is not None else None
            if k is None: return Opaque("symbolic channel index")
            lead.append(k % G.shape[len(lead)] if -G.shape[len(lead)] <= k < G.shape[len(lead)] else None)
            if lead[-1] is None: return Mismatch(f"channel index {k} out of range")
        at_bin = False
        if G.bins:
            p = parts[-1]
            if isinstance(p, ast.Slice):
                if not (p.lower is None and p.upper is None and p.step is None): return Mismatch("partial slice along the bin axis")
            else:
                v = I.eval(p, st)
                if not isinstance(v, BinIndex): return Mismatch(f"bin axis indexed by {ast.unparse(p)} (only ':' or the bin-loop variable keep the bins independent)")
                at_bin = True
        return lead, at_bin

    def grid_get(s, I, G, node, st):
        r = s._index(I, G, node, st)
        if is_opaque(r): return r
        lead, at_bin = r
        free = [d for d, k in enumerate(lead) if k is None]
        if not free:
            return G.cells[tuple(lead)]
        shape = tuple(G.shape[d] for d in free)
        out = Grid(shape, bins=G.bins and not at_bin, what=G.what)
        for ix in out.indices():
            full = list(lead)
            for d, k in zip(free, ix): full[d] = k
            out.cells[ix] = G.cells[tuple(full)]
        return out

    def grid_set(s, I, G, node, v, st):
        r = s._index(I, G, node, st)
        if is_opaque(r):
            s.bad.append((r, node)); return
        lead, at_bin = r
        free = [d for d, k in enumerate(lead) if k is None]
        if not free:
            x = to_x(v) if not isinstance(v, X) else v
            if x is None:
                G.cells[tuple(lead)] = v if is_opaque(v) else Opaque(f"store of {type(v).__name__}")
            else: G.cells[tuple(lead)] = x
            return
        if isinstance(v, Grid) and v.shape == tuple(G.shape[d] for d in free):
            for ix in v.indices():
                full = list(lead)
                for d, k in zip(free, ix): full[d] = k
                G.cells[tuple(full)] = v.cells[ix]
            return
        want_shape = tuple(G.shape[d] for d in free)
        if isinstance(v, PV) and all(isinstance(l, Grid) and l.shape == want_shape for _, l in pv_leaves(v)):
            # a helper returned one grid per path (e.g. solve vs pseudo-inverse branch): the store is cell-wise, each cell a decision tree
            for ix in Grid(want_shape).indices():
                full = list(lead)
                for d, k in zip(free, ix): full[d] = k
                G.cells[tuple(full)] = pv_apply(lambda g_, ix=ix: g_.cells[ix] if isinstance(g_, Grid) else g_, v)
            return
        for ix in Grid(want_shape).indices():
            full = list(lead)
            for d, k in zip(free, ix): full[d] = k
            G.cells[tuple(full)] = v if is_opaque(v) else Opaque("shape mismatch in grid store")

    def grid_binop(s, op, a, b):
        if is_opaque(a): return a
        if is_opaque(b): return b
        if isinstance(op, ast.MatMult):
            if isinstance(a, Grid) and isinstance(b, Grid) and len(a.shape) == 2 and len(b.shape) == 1 and a.shape[1] == b.shape[0]:
                out = Grid((a.shape[0],), bins=False)
                for r in range(a.shape[0]):
                    tot = X.const(0)
                    for c in range(a.shape[1]):
                        x_, y_ = a.cells[(r, c)], b.cells[(c,)]
                        if is_opaque(x_) or is_opaque(y_): tot = x_ if is_opaque(x_) else y_; break
                        tot = lift2("+", tot, lift2("*", x_, y_))
                    out.cells[(r,)] = tot
                return out
            return Opaque("matmul of unrecognised grids")
        sym = {ast.Add: "+", ast.Sub: "-", ast.Mult: "*", ast.Div: "/"}.get(type(op))
        if sym is None: return Opaque("operator on grid")

        def f(x, y):
            def g(u, v):
                if is_opaque(u): return u
                if is_opaque(v): return v
                return scal_op(sym, u, v)
            return pv_apply(g, x, y)
        if isinstance(a, Grid) and isinstance(b, Grid):
            if a.shape != b.shape: return Opaque("broadcast of different grids")
            return Grid(a.shape, {k: f(a.cells[k], b.cells[k]) for k in a.cells}, a.bins or b.bins)
        if isinstance(a, Grid): return a.map(lambda x: f(x, b))
        return b.map(lambda y: f(a, y))


def _cj(x):
    return pv_apply(lambda v: v if is_opaque(v) else v.conj(), x)


def Cond_bool(text):
    c = Cond.get(("misc", text), text)
    return PV(c, True, False)


def sym(name):
    KIND["sym:" + name] = "complex"
    return X.var("sym:" + name)


def sym_name(x):
    """name of a sympy-symbol atom, or None."""
    if not isinstance(x, X): return None
    ats = list(x.all_atoms())
    if len(ats) == 1 and ats[0].tag == "v" and ats[0].name.startswith("sym:") and x.eq(X.atom(ats[0])):
        return ats[0].name
    return None


def schur_reference(T, q):
    """S00 - S^H T^-1 S from the table's own Gxx/Gxy cells on channels in1..inq,out: det[[T,S],[S^H,S00]]/det T."""
    def cell(attr, a, b, iscsd):
        v = to_x(generic(T.cell(attr, iscsd)))
        return v.subst({"XX": chan_stat(a, a), "YY": chan_stat(b, b), "XY": chan_stat(a, b)})
    ins = [f"in{i + 1}" for i in range(q)]
    Tm = [[(cell("Gxx", a, a, False) if a == b else cell("Gxy", a, b, True)) for b in ins] for a in ins]
    S = [cell("Gxy", a, "out", True) for a in ins]
    S00 = cell("Gxx", "out", "out", False)
    M = [Tm[i] + [S[i]] for i in range(q)] + [[x.conj() for x in S] + [S00]]
    return det(M) / det(Tm), S00


def run_function(repo, T, which, q, kwargs=None):
    setup_kinds()
    KIND.update({"nf": "nat", "fs": "pos"})
    R = Run(repo, T, which, q)
    I = Interp(repo, R.hooks())
    out = ArrParam("out")
    ins = [ArrParam(f"in{i + 1}") for i in range(q)]
    kw = dict(kwargs or {"olap": X.var("olap_arg"), "win": "kaiser"})
    key = FUNCS[which]
    st = St()
    if which == "siso":
        r = I.call_key(key, [ins[0], out, X.var("fs")], kw, st)
    else:
        r = I.call_key(key, [ListVal(ins), out, X.var("fs")], kw, st)
    R.state = st
    R.result = r
    return R
