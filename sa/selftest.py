"""Checker-adequacy run of the thorough tier: the check is tested both ways on scratch copies of the *current* tree.
 * every seeded change kept under /verif/seeded that breaks this property must make the check fire (exit 1);
 * every behaviour-preserving rewrite kept under /verif/neutral must leave it silent (exit 0).
Scratch copies live in a temporary directory outside /repo and /verif and are removed at once.  The outcome is
recorded in the evidence and printed as ANALYSIS-GAP notes; it never changes the verdict on /repo (a seed whose
patch does not apply to an edited tree is skipped)."""
import glob
import json
import os
import shutil
import subprocess
import sys
import tempfile
from concurrent.futures import ThreadPoolExecutor

VERIF = os.path.dirname(os.path.dirname(os.path.abspath(__file__)))


def _one(job):
    kind, name, patch, pid, repo_root = job
    d = tempfile.mkdtemp(prefix="sa_selftest_")
    try:
        shutil.copytree(os.path.join(repo_root, "speckit"), os.path.join(d, "speckit"), ignore=shutil.ignore_patterns("__pycache__"))
        r = subprocess.run(["patch", "-p1", "-s", "--no-backup-if-mismatch", "-i", patch], cwd=d, capture_output=True, text=True)
        if r.returncode != 0:
            return {"kind": kind, "case": name, "outcome": "skipped", "why": "patch does not apply to the current tree"}
        env = dict(os.environ, VERIF_EVIDENCE_DIR=os.path.join(d, "evidence"), VERIF_TIER="quick")
        r = subprocess.run([sys.executable, os.path.join(VERIF, "check"), pid, "--tier", "quick", "--repo", d], capture_output=True, text=True, env=env)
        first = next((l for l in r.stdout.splitlines() if l.startswith(("VIOLATED-OBLIGATION", "ANALYSIS-ERROR"))), "")
        if kind == "seeded":
            outcome = {1: "detected", 0: "silent", 2: "unknown"}.get(r.returncode, "error")
        else:
            outcome = {0: "silent", 1: "false-alarm", 2: "unknown"}.get(r.returncode, "error")
        return {"kind": kind, "case": name, "outcome": outcome, "exit": r.returncode, "first_report": first[:300]}
    finally:
        shutil.rmtree(d, ignore_errors=True)


def run(ctx):
    pid = ctx.pid
    jobs = []
    for meta in sorted(glob.glob(os.path.join(VERIF, "seeded", "*", "meta.json"))):
        try: m = json.load(open(meta))
        except Exception: continue
        if m.get("property") != pid and pid not in m.get("also_detected_by", []): continue
        patch = os.path.join(os.path.dirname(meta), "patch.diff")
        if os.path.exists(patch): jobs.append(("seeded", os.path.basename(os.path.dirname(meta)), patch, pid, ctx.repo.root))
    for patch in sorted(glob.glob(os.path.join(VERIF, "neutral", "*", "patch.diff"))):
        jobs.append(("neutral", os.path.basename(os.path.dirname(patch)), patch, pid, ctx.repo.root))
    if not jobs: return
    with ThreadPoolExecutor(max_workers=min(12, len(jobs))) as ex:
        res = list(ex.map(_one, jobs))
    summ = {}
    for r in res: summ[f"{r['kind']}:{r['outcome']}"] = summ.get(f"{r['kind']}:{r['outcome']}", 0) + 1
    ctx.extra["checker_adequacy"] = {"summary": summ, "cases": res,
                                     "rule": "seeded changes that break this property must give exit 1; behaviour-preserving rewrites must give exit 0; run on scratch copies of the current tree"}
    for r in res:
        if (r["kind"] == "seeded" and r["outcome"] != "detected" and r["outcome"] != "skipped") or (r["kind"] == "neutral" and r["outcome"] not in ("silent", "skipped")):
            ctx.notes.append(f"ANALYSIS-GAP {r['kind']} case {r['case']}: {r['outcome']} {r.get('first_report', '')[:160]}")
    ctx.notes.append("checker adequacy: " + ", ".join(f"{k}={v}" for k, v in sorted(summ.items())))
