"""E7 - alias / in-place effect analysis (structured may-alias dataflow over the AST).

Abstract value of an expression = set of *sources* it may share memory with
(labels such as 'param:data', 'self.data', 'self._data[XX]', 'elem:plan') or FRESH.
In-place sinks (augmented assignment on an array name, subscript stores, out=,
copy=False sanitisers, sort/fill/...) are reported with the sources of the mutated object.
Library aliasing rows are those of DESIGN.md Appendix B.
"""
import ast

FRESH = "FRESH"

# functions returning (possibly) their first argument's memory
ALIASING_FUNCS = {"asarray", "asanyarray", "ascontiguousarray", "asfortranarray", "require", "atleast_1d", "atleast_2d", "squeeze",
                  "ravel", "reshape", "transpose", "real", "imag", "view", "swapaxes", "moveaxis", "broadcast_to", "expand_dims"}
ALIASING_METHODS = {"reshape", "ravel", "view", "squeeze", "transpose", "swapaxes", "conj_view"}
ALIASING_ATTRS = {"T", "real", "imag", "flat", "values"}
COPY_FALSE_FUNCS = {"nan_to_num", "array", "astype"}
INPLACE_METHODS = {"sort", "fill", "resize", "partition", "put", "itemset", "setfield", "byteswap_inplace", "setflags"}
INPLACE_FUNCS = {"copyto": 0, "place": 0, "putmask": 0, "put": 0, "fill_diagonal": 0}


def dotted(n):
    if isinstance(n, ast.Name): return n.id
    if isinstance(n, ast.Attribute):
        b = dotted(n.value)
        return None if b is None else b + "." + n.attr
    return None


def path_of(n):
    """canonical access path for self.attr / self.attr['key'] / name['key'] expressions."""
    if isinstance(n, ast.Name): return n.id
    if isinstance(n, ast.Attribute):
        b = path_of(n.value)
        return None if b is None else f"{b}.{n.attr}"
    if isinstance(n, ast.Subscript):
        b = path_of(n.value)
        if b is None: return None
        if isinstance(n.slice, ast.Constant) and isinstance(n.slice.value, str): return f"{b}[{n.slice.value}]"
        return None
    return None


def is_basic_index(sl):
    """True if the subscript certainly is basic indexing (view), False if certainly advanced (copy), None unknown."""
    if isinstance(sl, ast.Tuple):
        rs = [is_basic_index(e) for e in sl.elts]
        if any(r is False for r in rs): return False
        if all(r is True for r in rs): return True
        return None
    if isinstance(sl, ast.Slice): return True
    if isinstance(sl, ast.Constant):
        return True if (sl.value is None or isinstance(sl.value, int) or sl.value is Ellipsis) else None
    if isinstance(sl, ast.UnaryOp) and isinstance(sl.operand, ast.Constant): return True
    if isinstance(sl, (ast.List, ast.ListComp)): return False
    if isinstance(sl, ast.Compare): return False     # boolean mask
    return None


class Sink:
    def __init__(s, node, kind, target_src, sources, detail=""):
        s.node = node; s.kind = kind; s.target = target_src; s.sources = sources; s.detail = detail

    def __repr__(s): return f"Sink({s.kind} on {s.target} aliases {sorted(s.sources)})"


class Alias:
    """analysis of one function; `summaries` gives interprocedural facts for package callees."""

    def __init__(s, fn, param_labels=None, resolve=None, shared_paths=()):
        s.fn = fn
        s.params = [a.arg for a in fn.args.posonlyargs + fn.args.args + fn.args.kwonlyargs]
        if fn.args.vararg: s.params.append(fn.args.vararg.arg)
        if fn.args.kwarg: s.params.append(fn.args.kwarg.arg)
        s.param_labels = param_labels if param_labels is not None else {p: {f"param:{p}"} for p in s.params}
        s.resolve = resolve          # callable(call node) -> summary dict or None
        s.shared_paths = tuple(shared_paths)   # path prefixes that denote shared state (e.g. 'self.')
        s.sinks = []
        s.returns = set()
        s.maybe = []
        s.kinds = {}      # name -> 'array' | 'int'  (coarse type of local names, for basic vs advanced indexing)
        s.alloc_labels = False   # True: np.empty/zeros/... get an identity ('local:<line>') instead of FRESH

    # ---- expression aliasing
    def al(s, e, env):
        if e is None: return {FRESH}
        if isinstance(e, ast.Name):
            if e.id in env: return set(env[e.id])
            if e.id in s.param_labels: return set(s.param_labels[e.id])
            return {f"global:{e.id}"}
        if isinstance(e, ast.Attribute):
            p = path_of(e)
            if p is not None and p in env: return set(env[p])
            if e.attr in ALIASING_ATTRS: return s.al(e.value, env)
            if p is not None and any(p.startswith(sp) for sp in s.shared_paths): return {p}
            base = s.al(e.value, env)
            if base == {FRESH}: return {FRESH}
            return {f"{b}.{e.attr}" if b != FRESH else FRESH for b in base}
        if isinstance(e, ast.Subscript):
            p = path_of(e)
            if p is not None and p in env: return set(env[p])
            if p is not None and any(p.startswith(sp) for sp in s.shared_paths): return {p}
            base = s.al(e.value, env)
            bi = s.basic_index(e.slice)
            if isinstance(e.slice, ast.Constant) and isinstance(e.slice.value, str):
                return {f"elem:{b}" if b != FRESH else FRESH for b in base}   # dict element
            if bi is False: return {FRESH}
            if bi is None:
                return {("maybe:" + b) if b != FRESH else FRESH for b in base}
            return base
        if isinstance(e, ast.IfExp): return s.al(e.body, env) | s.al(e.orelse, env)
        if isinstance(e, ast.BoolOp):
            out = set()
            for v in e.values: out |= s.al(v, env)
            return out
        if isinstance(e, ast.NamedExpr): return s.al(e.value, env)
        if isinstance(e, ast.Starred): return s.al(e.value, env)
        if isinstance(e, (ast.Tuple, ast.List)):
            out = set()
            for v in e.elts: out |= {("elem:" + x) if x != FRESH else FRESH for x in s.al(v, env)}
            return out or {FRESH}
        if isinstance(e, ast.Call): return s.al_call(e, env)
        return {FRESH}     # arithmetic, comparisons, constants, comprehensions, f-strings, lambdas, dicts

    def kind_of(s, v):
        if isinstance(v, ast.Constant): return "int" if isinstance(v.value, int) and not isinstance(v.value, bool) else None
        if isinstance(v, ast.Name): return s.kinds.get(v.id)
        if isinstance(v, ast.Call):
            nm = dotted(v.func) or ""
            short = nm.split(".")[-1]
            if short in ("int", "len", "round_half_up"): return "int"
            if short in ("arange", "asarray", "array", "ascontiguousarray", "zeros", "ones", "empty", "linspace", "round", "clip", "floor",
                         "ceil", "searchsorted", "where", "nonzero", "argsort", "astype"): return "array"
            if isinstance(v.func, ast.Attribute) and v.func.attr in ("astype", "copy", "ravel", "flatten"): return "array"
            return None
        if isinstance(v, ast.BinOp):
            a, b = s.kind_of(v.left), s.kind_of(v.right)
            if "array" in (a, b): return "array"
            if a == "int" and b == "int": return "int"
            return None
        if isinstance(v, ast.Compare): return "array" if any(s.kind_of(x) == "array" for x in [v.left] + v.comparators) else None
        if isinstance(v, ast.Subscript):
            if s.kind_of(v.value) == "array" and s.basic_index(v.slice) is not True: return "array"
            if isinstance(v.slice, ast.Tuple) and any(isinstance(e, ast.Constant) and e.value is None for e in v.slice.elts): return "array"
            if isinstance(v.slice, ast.Slice): return "array"
            return None
        if isinstance(v, (ast.List, ast.ListComp)): return "array"
        return None

    def basic_index(s, sl):
        r = is_basic_index(sl)
        if r is not None: return r
        if isinstance(sl, ast.Name):
            k = s.kinds.get(sl.id)
            if k == "array": return False
            if k == "int": return True
            return None
        if isinstance(sl, ast.Tuple):
            rs = [s.basic_index(e) for e in sl.elts]
            if any(x is False for x in rs): return False
            if all(x is True for x in rs): return True
            return None
        if isinstance(sl, ast.BinOp):
            k = s.kind_of(sl)
            if k == "array": return False
            if k == "int": return True
        if isinstance(sl, ast.Call) and s.kind_of(sl) == "int": return True
        return None

    def al_call(s, c, env):
        f = c.func
        name = dotted(f)
        short = name.split(".")[-1] if name else None
        kw = {k.arg: k.value for k in c.keywords if k.arg}
        if isinstance(f, ast.Attribute) and not (name and name.split(".")[0] in ("np", "_np", "numpy", "math", "signal", "sp", "pd", "ct", "cuda")):
            # method call on an object
            base = s.al(f.value, env)
            if f.attr in ALIASING_METHODS: return base
            if f.attr == "astype":
                cp = kw.get("copy")
                if isinstance(cp, ast.Constant) and cp.value is False: return base
                return {FRESH}
            if f.attr in ("copy", "tolist", "item", "mean", "sum", "min", "max", "conj", "conjugate", "copy_to_host", "to_numpy"):
                return {FRESH}
            if f.attr in ("get", "pop", "setdefault"):
                return {("elem:" + b) if b != FRESH else FRESH for b in base}
            sm = s.resolve(c) if s.resolve else None
            if sm is not None: return s._apply_summary(sm, c, env)
            return {FRESH}
        if s.alloc_labels and short in ("empty", "zeros", "ones", "full", "empty_like", "zeros_like", "ones_like", "full_like") and name and name.split(".")[0] in ("np", "numpy", "_np"):
            return {f"local:{c.lineno}"}
        if short in ALIASING_FUNCS and c.args:
            return s.al(c.args[0], env)
        if short in COPY_FALSE_FUNCS and c.args:
            cp = kw.get("copy")
            if isinstance(cp, ast.Constant) and cp.value is False: return s.al(c.args[0], env)
            if cp is not None and not (isinstance(cp, ast.Constant) and cp.value is True):
                return s.al(c.args[0], env) | {FRESH}          # copy=<expression>: may work in place
            return {FRESH}
        if short == "dict" and c.args:
            return {("shallow:" + b) if b != FRESH else FRESH for b in s.al(c.args[0], env)}
        if short in ("list", "tuple") and c.args:
            return {("shallow:" + b) if b != FRESH else FRESH for b in s.al(c.args[0], env)}
        if "out" in kw:
            o = s.al(kw["out"], env)
            return o
        sm = s.resolve(c) if s.resolve else None
        if sm is not None: return s._apply_summary(sm, c, env)
        return {FRESH}

    def _apply_summary(s, sm, c, env):
        out = set()
        for k in sm.get("returns_param", ()):
            a = s._arg(c, sm, k)
            if a is not None: out |= s.al(a, env)
        out |= set(sm.get("returns_global", ()))          # a module-level buffer the callee fills and hands back
        if sm.get("returns_fresh", True) and not out: out.add(FRESH)
        if not out: out.add(FRESH)
        return out

    def _arg(s, c, sm, k):
        params = sm.get("params", [])
        off = sm.get("self_offset", 0)
        idx = k - off
        if 0 <= idx < len(c.args): return c.args[idx]
        if k < len(params):
            for kwd in c.keywords:
                if kwd.arg == params[k]: return kwd.value
        return None

    # ---- statements
    def run(s):
        env = {}
        s.block(s.fn.body, env)
        return s

    def block(s, stmts, env):
        for st in stmts: s.stmt(st, env)

    def bind(s, t, val_aliases, env, value_node=None):
        if isinstance(t, ast.Name):
            env[t.id] = set(val_aliases)
            if value_node is not None: s.kinds[t.id] = s.kind_of(value_node)
            return
        if isinstance(t, (ast.Tuple, ast.List)):
            if isinstance(value_node, (ast.Tuple, ast.List)) and len(value_node.elts) == len(t.elts):
                for te, ve in zip(t.elts, value_node.elts): s.bind(te, s.al(ve, env), env, ve)
            else:
                sub = {x[5:] if x.startswith("elem:") else x for x in val_aliases}
                for te in t.elts: s.bind(te, sub, env)
            return
        p = path_of(t)
        if isinstance(t, ast.Attribute) and p is not None:
            env[p] = set(val_aliases); return
        if isinstance(t, ast.Subscript):
            if p is not None:
                env[p] = set(val_aliases)
            # element store: a sink on the container
            base = s.al(t.value, env)
            s.sinks.append(Sink(t, "store", ast.unparse(t.value), base, ast.unparse(t)))
            return
        if isinstance(t, ast.Starred): s.bind(t.value, val_aliases, env)

    def scan_calls(s, node, env):
        """sinks hidden in expressions: out=, copy=False, in-place methods, callee writes."""
        for c in ast.walk(node):
            if not isinstance(c, ast.Call): continue
            name = dotted(c.func); short = name.split(".")[-1] if name else None
            kw = {k.arg: k.value for k in c.keywords if k.arg}
            if "out" in kw:
                src = s.al(kw["out"], env)
                s.sinks.append(Sink(c, "out=", ast.unparse(kw["out"]), src, ast.unparse(c)[:80]))
            cp = kw.get("copy")
            if short in ("nan_to_num",) and isinstance(cp, ast.Constant) and cp.value is False and c.args:
                s.sinks.append(Sink(c, "copy=False", ast.unparse(c.args[0]), s.al(c.args[0], env), ast.unparse(c)[:80]))
            elif short in ("nan_to_num",) and cp is not None and not isinstance(cp, ast.Constant) and c.args:
                # copy=<run-time expression>: in place whenever it evaluates to False - e.g. an identity test `a is x` is False for a view of x
                s.sinks.append(Sink(c, f"copy={ast.unparse(cp)}", ast.unparse(c.args[0]), s.al(c.args[0], env), ast.unparse(c)[:80]))
            if isinstance(c.func, ast.Attribute) and c.func.attr in INPLACE_METHODS:
                s.sinks.append(Sink(c, "." + c.func.attr + "()", ast.unparse(c.func.value), s.al(c.func.value, env), ast.unparse(c)[:80]))
            if short in INPLACE_FUNCS and c.args:
                s.sinks.append(Sink(c, short + "()", ast.unparse(c.args[0]), s.al(c.args[0], env), ast.unparse(c)[:80]))
            kwi = kw.get("inplace")
            if isinstance(kwi, ast.Constant) and kwi.value is True and isinstance(c.func, ast.Attribute):
                s.sinks.append(Sink(c, "inplace=True", ast.unparse(c.func.value), s.al(c.func.value, env), ast.unparse(c)[:80]))
            sm = s.resolve(c) if s.resolve else None
            if sm is not None:
                for k in sm.get("writes_param", ()):
                    a = s._arg(c, sm, k)
                    if a is not None:
                        s.sinks.append(Sink(c, "callee-write", ast.unparse(a), s.al(a, env), f"{sm.get('key')} writes its parameter {k}"))
                for g_ in sm.get("returns_global", ()):
                    s.sinks.append(Sink(c, "callee-write", g_, {g_}, f"{sm.get('key')} refills the module-level buffer {g_[7:]} and returns it"))

    def stmt(s, st, env):
        if isinstance(st, (ast.FunctionDef, ast.ClassDef, ast.Import, ast.ImportFrom, ast.Pass, ast.Global, ast.Nonlocal, ast.Break, ast.Continue)):
            return
        if isinstance(st, ast.Assign):
            s.scan_calls(st.value, env)
            a = s.al(st.value, env)
            for t in st.targets: s.bind(t, a, env, st.value)
            return
        if isinstance(st, ast.AnnAssign):
            if st.value is not None:
                s.scan_calls(st.value, env); s.bind(st.target, s.al(st.value, env), env, st.value)
            return
        if isinstance(st, ast.AugAssign):
            s.scan_calls(st.value, env)
            t = st.target
            if isinstance(t, ast.Name):
                cur = s.al(t, env)
                s.sinks.append(Sink(st, "augassign", t.id, cur, ast.unparse(st)))
            elif isinstance(t, ast.Subscript):
                s.sinks.append(Sink(st, "augassign-store", ast.unparse(t.value), s.al(t.value, env), ast.unparse(st)))
            elif isinstance(t, ast.Attribute):
                cur = s.al(t, env)
                s.sinks.append(Sink(st, "augassign", ast.unparse(t), cur, ast.unparse(st)))
            return
        if isinstance(st, ast.Expr):
            s.scan_calls(st.value, env); return
        if isinstance(st, ast.Return):
            if st.value is not None:
                s.scan_calls(st.value, env); s.returns |= s.al(st.value, env)
            return
        if isinstance(st, ast.If):
            s.scan_calls(st.test, env)
            e1 = {k: set(v) for k, v in env.items()}; e2 = {k: set(v) for k, v in env.items()}
            s.block(st.body, e1); s.block(st.orelse, e2)
            env.clear()
            for k in set(e1) | set(e2):
                env[k] = e1.get(k, set()) | e2.get(k, set())
            return
        if isinstance(st, (ast.For, ast.While)):
            if isinstance(st, ast.For):
                s.scan_calls(st.iter, env)
                it = s.al(st.iter, env)
                s.bind(st.target, {x[5:] if x.startswith("elem:") else ("elem:" + x if x != FRESH else FRESH) for x in it}, env)
                if isinstance(st.target, ast.Name) and isinstance(st.iter, ast.Call) and (dotted(st.iter.func) or "").split(".")[-1] in ("range", "prange", "_prange"):
                    s.kinds[st.target.id] = "int"
            else:
                s.scan_calls(st.test, env)
            n0 = len(s.sinks)
            for _ in range(2):
                e1 = {k: set(v) for k, v in env.items()}
                del s.sinks[n0:]
                s.block(st.body, e1)
                for k in e1: env[k] = env.get(k, set()) | e1[k]
            s.block(st.orelse, env)
            return
        if isinstance(st, ast.With):
            for it in st.items:
                s.scan_calls(it.context_expr, env)
                if it.optional_vars is not None: s.bind(it.optional_vars, {FRESH}, env)
            s.block(st.body, env); return
        if isinstance(st, ast.Try):
            s.block(st.body, env)
            for h in st.handlers: s.block(h.body, env)
            s.block(st.orelse, env); s.block(st.finalbody, env); return
        if isinstance(st, (ast.Raise, ast.Assert, ast.Delete)):
            return


def strip(labels):
    """remove 'maybe:' markers, keep definite ones separately."""
    definite = {l for l in labels if not l.startswith("maybe:")}
    maybe = {l[6:] for l in labels if l.startswith("maybe:")}
    return definite, maybe


def roots(label):
    """peel elem:/shallow: wrappers -> (root, wrappers)."""
    w = []
    while True:
        for pre in ("elem:", "shallow:", "maybe:"):
            if label.startswith(pre):
                w.append(pre[:-1]); label = label[len(pre):]; break
        else:
            return label, w
