"""C05/C07/C08/C12 - dispatch and per-bin wiring of the analyzer: the two dispatchers
(_lpsd_core, compute_single_bin) are partially evaluated for every abstract
configuration order x iscsd x backend x window kind; kernel calls are intercepted and
their arguments compared by role with the plan / request they must come from."""
import ast

from .symalg import X, KIND, mk_fn, mk_idx, mk_sum, compare, Unknown, C
from .values import *
from .absint import Interp, St
from . import libmodel as lm
from .report import AnalysisError, HOLDS, VIOLATED, UNKNOWN
from .kernels import kernel_key, BACKENDS

AN = "speckit/analysis.py::SpectrumAnalyzer"
RES = "speckit/analysis.py::SpectrumResult"
ORDERS = (-1, 0, 1, 2)
FAMILY = {-1: "win_only", 0: "detrend0", 1: "poly", 2: "poly"}
OUTS = ("MXX", "MYY", "mu_r", "mu_i", "M2")


def setup():
    KIND.update({"fs": "pos", "N": "nat", "alpha": "pos", "olap": "real", "Lreq": "nat", "freq": "pos", "fres": "pos", "nf": "nat",
                 "psll": "pos", "pi": "pos"})
    lm.INT_ARRAYS.update({"plan.L", "f_indices", "plan.K", "plan.navg"})
    lm.INT_FNS.update({"min", "max"})


def window_lib(I_, name, args, kw, st, n):
    if name in ("numpy.kaiser", "scipy.signal.windows.kaiser"):
        if len(args) < 2: return Opaque("kaiser()")

        def mk(M, beta):
            M, beta = to_x(M), to_x(beta)
            if M is None or beta is None: return Opaque("kaiser arguments")
            v = fresh("i")
            return Arr([(v, M)], mk_fn("kaiser", [X.var(v), M, beta], "pos"))
        return pv_apply(mk, args[0], args[1])
    if name == "window.generic":
        def mk1(M):
            M = to_x(M)
            if M is None: return Opaque("window length")
            v = fresh("i")
            return Arr([(v, M)], mk_fn("genwin", [X.var(v), M], "real"))
        return pv_apply(mk1, args[0])
    return NotImplemented


class Run:
    """one partial evaluation of a dispatcher."""

    def __init__(s, repo, backend="numba"):
        s.repo = repo; s.backend = backend
        s.I = Interp(repo)
        s.kcalls = []; s.qcalls = []; s.made = []
        s.I.hooks["call"] = s._call
        s.I.hooks["lib"] = window_lib
        s.I.hooks["construct"] = s._construct

    def _call(s, I_, fn, args, kwargs, st, node):
        name = fn.key.split("::")[-1].split(".")[-1]
        if name.startswith("_stats_"):
            s.kcalls.append((fn.key, list(args), dict(kwargs), node))
            poly = "_poly_" in name
            om = args[-2] if poly else args[-1]
            L = args[-4] if poly else args[-3]
            if len(args) < 5:
                return tuple(Opaque("kernel called with unrecognised arguments") for _ in OUTS)

            def mk(k):
                def f(o_, l_):
                    xo, xl = to_x(o_), to_x(l_)
                    if xo is None or xl is None: return Opaque("kernel called with unrecognised omega / L")
                    return mk_fn("OUT_" + k, [xo, xl])
                return pv_apply(f, om, L)
            return tuple(mk(k) for k in OUTS)
        if name == "_select_backend": return s.backend
        if name == "_build_Q":
            s.qcalls.append((fn.key, list(args), dict(kwargs), node))
            q = ArrParam("Q", 2); q.built = (list(args), dict(kwargs))
            return q
        if name == "round_half_up" and fn.key.startswith("speckit/utils.py"):
            return lift1(lambda x: x if lm.is_integer(x) else mk_fn("nearest", [x]), args[0])
        if name == "kaiser_alpha":
            return lift1(lambda x: mk_fn("kaiser_alpha", [x], "pos"), args[0])
        if name == "kaiser_rov":
            return lift1(lambda x: mk_fn("kaiser_rov", [x], "pos"), args[0])
        return NotImplemented

    def _construct(s, I_, fn, args, kwargs, st, node):
        s.made.append((fn.key, list(args), dict(kwargs), node))
        return Obj(fn.key)


def analyzer_obj(order, iscsd, kaiser=True, plan=None):
    cfg = DictVal({"order": X.const(order), "backend": "auto",
                   "win_func": Lib("numpy.kaiser") if kaiser else Lib("window.generic"),
                   "alpha": X.var("alpha") if kaiser else None, "final_olap": X.var("olap"),
                   "Lmin": X.var("Lmin"), "band": None, "scheduler_name": "sched"})
    at = {"config": cfg, "iscsd": iscsd, "x1": ArrParam("x1"), "x2": ArrParam("x2") if iscsd else Opaque("x2 of a single-channel analyzer"),
          "fs": X.var("fs"), "nx": X.var("N"), "verbose": False}
    if plan is not None: at["_plan_cache"] = plan
    return Obj(AN, at)


def plan_obj():
    D = Obj("plan.D")

    def dh(kind, o, key, v, st):
        if kind == "getitem":
            k = to_x(key)
            a = ArrParam("D"); a.bin = k
            return a
        return NotImplemented
    D.hook = dh
    return DictVal({"L": ArrParam("plan.L"), "D": D, "f": ArrParam("plan.f"), "nf": X.var("nf"), "K": ArrParam("plan.K"),
                    "navg": ArrParam("plan.navg"), "r": ArrParam("plan.r"), "b": ArrParam("plan.b"), "O": ArrParam("plan.O")})


def kernel_call_sites(fn):
    out = []
    for n in ast.walk(fn):
        if isinstance(n, ast.Call) and isinstance(n.func, ast.Name) and n.func.id.startswith("_stats_"):
            out.append(n)
    return out


def expected_window(L, kaiser):
    v = fresh("i")
    if kaiser:
        return Arr([(v, L)], mk_fn("kaiser", [X.var(v), L + 1, X.var("alpha") * X.var("pi")], "pos"))
    return Arr([(v, L)], mk_fn("genwin", [X.var(v), L], "real"))


def same_arr(a, b):
    """three-valued equality of two 1-D array expressions."""
    if is_opaque(a): return (VIOLATED if isinstance(a, Mismatch) else UNKNOWN), a.why
    A, B = as_arr(a), as_arr(b)
    if A is None or B is None: return UNKNOWN, f"not an array: {a!r}"[:160]
    if A.ndim != B.ndim: return VIOLATED, f"rank {A.ndim} instead of {B.ndim}"
    mp = {}
    for (va, ca), (vb, cb) in zip(A.axes, B.axes):
        st, why = compare(ca, cb)
        if st != HOLDS: return st, f"length {ca!r} instead of {cb!r} {why}"
        mp[va] = X.var(vb)
    ba = subst_val(A.body, mp)
    if isinstance(ba, PV) or isinstance(B.body, PV):
        if vkey(ba) == vkey(B.body): return HOLDS, ""
        if isinstance(ba, PV) and not isinstance(B.body, PV) and to_x(B.body) is not None:
            # a conditional element against an unconditional reference: every branch must be the reference
            worst = (HOLDS, "")
            for path, leaf in pv_leaves(ba):
                if is_opaque(leaf) or to_x(leaf) is None: worst = (UNKNOWN, f"on [{path_text(path)}] the element is {leaf!r}"[:200]) if worst[0] == HOLDS else worst; continue
                st, why = compare(to_x(leaf), to_x(B.body))
                if st == VIOLATED: return VIOLATED, f"on the branch [{path_text(path)}] the element is {leaf!r} instead of {B.body!r}"[:400]
                if st != HOLDS and worst[0] == HOLDS: worst = (st, why)
            return worst
        return UNKNOWN, "conditional array bodies differ"
    if is_opaque(ba): return UNKNOWN, ba.why
    st, why = compare(to_x(ba), to_x(B.body))
    return st, (f"element {ba!r} instead of {B.body!r} {why}" if st != HOLDS else "")


def check_call_roles(ctx, rule, construct, where, call, iscsd, fam, exp, only=None):
    """exp: dict role -> expected value (x1,x2,starts,L,w,omega,Q)."""
    key, args, kwargs, node = call
    roles = ["x1"] + (["x2"] if iscsd else []) + ["starts", "L", "w", "omega"] + (["Q"] if fam == "poly" else [])
    if kwargs or len(args) != len(roles):
        ctx.violated(rule, construct, f"kernel called with {len(args)} positional and {len(kwargs)} keyword arguments, roles {roles} expected", where); return
    choose = exp.get("choose")
    for role, a in zip(roles, args):
        if only is not None and role not in only: continue      # the calling property speaks about these argument roles only
        want = exp[role]
        c = f"{construct}[{role}]"
        if choose is not None: a = select(a, choose)
        if role == "starts" and isinstance(want, tuple) and want[0] == "single":
            _, N, L, K = want
            st, why = same_arr(a, reference_starts(N, L, K))
            ctx.ob(rule, c, st, ("segment starts of the single-bin request: " + why) if why else "", where); continue
        if role in ("x1", "x2"):
            ok = isinstance(a, ArrParam) and a.name == want
            (ctx.holds if ok else ctx.violated)(rule, c, "" if ok else f"argument in the {role} position is {a!r}, expected the analyzer's {want} record", where)
        elif role == "starts":
            if isinstance(a, ArrParam) and isinstance(want, ArrParam):
                ok = a.name == want.name and (getattr(a, "bin", None) is None or getattr(want, "bin", None) is None or a.bin.eq(want.bin))
                (ctx.holds if ok else ctx.violated)(rule, c, "" if ok else f"segment starts taken from {a!r}[{getattr(a, 'bin', None)!r}] instead of bin {getattr(want, 'bin', None)!r}", where)
            else:
                st, why = same_arr(a, want)
                ctx.ob(rule, c, st, why, where)
        elif role in ("L", "omega"):
            if is_opaque(a): ctx.unknown(rule, c, a.why, where); continue
            if isinstance(a, PV): ctx.unknown(rule, c, f"conditional value {a!r}"[:200], where); continue
            ctx.compare(rule, c, to_x(a), want, where)
        elif role == "w":
            if isinstance(a, PV):
                # the window is built differently on different branches (e.g. by length): every branch must be the reference window
                worst = (HOLDS, "")
                for path, leaf in pv_leaves(a):
                    st, why = same_arr(leaf, want)
                    if st == UNKNOWN and (is_opaque(leaf) or as_arr(leaf) is None) and not isinstance(leaf, Mismatch): st, why = UNKNOWN, f"window on [{path_text(path)}] not recognised: {leaf!r}"[:200]
                    elif st != HOLDS: st, why = st, f"on the branch [{path_text(path)}]: {why}"
                    if st == VIOLATED: worst = (st, why); break
                    if st != HOLDS and worst[0] == HOLDS: worst = (st, why)
                ctx.ob(rule, c, worst[0], worst[1], where)
                continue
            st, why = same_arr(a, want)
            ctx.ob(rule, c, st, why, where)
        elif role == "Q":
            b = getattr(a, "built", None)
            if b is None: ctx.violated(rule, c, f"detrend basis is not the result of _build_Q: {a!r}", where); continue
            bargs, bkw = b
            if bkw or len(bargs) != 2: ctx.unknown(rule, c, "unrecognised call of _build_Q", where); continue
            if choose is not None: bargs = [select(b_, choose) for b_ in bargs]
            if to_x(bargs[0]) is None or to_x(bargs[1]) is None:
                ctx.unknown(rule, c, f"_build_Q arguments not recognised: {bargs!r}"[:200], where); continue
            s1, w1 = compare(to_x(bargs[0]), want[0]); s2, w2 = compare(to_x(bargs[1]), want[1])
            if s1 == HOLDS and s2 == HOLDS: ctx.holds(rule, c, "", where)
            else: ctx.ob(rule, c, VIOLATED if VIOLATED in (s1, s2) else UNKNOWN,
                         f"_build_Q called with ({bargs[0]!r}, {bargs[1]!r}), expected ({want[0]!r}, {want[1]!r})", where)


def run_core(repo, order, iscsd, backend, kaiser):
    R = Run(repo, backend)
    me = analyzer_obj(order, iscsd, kaiser, plan_obj())
    key = AN + "._lpsd_core"
    r = R.I.call_func(Func(key, repo.get(key)), [me, ArrParam("f_indices")], {}, St(), None)
    return R, r


def run_single(repo, order, iscsd, backend, kaiser, use_L):
    R = Run(repo, backend)
    me = analyzer_obj(order, iscsd, kaiser)
    key = AN + ".compute_single_bin"
    kw = {"L": X.var("Lreq")} if use_L else {"fres": X.var("fres")}
    r = R.I.call_func(Func(key, repo.get(key)), [me, X.var("freq")], kw, St(), None)
    return R, r


def check_dispatch(ctx, rule_prefix="R", orders=ORDERS, want_roles=True, kaisers=(True, False), roles=None):
    """R1 dispatch correctness for both dispatchers + R2/R3/R4 argument roles."""
    setup()
    repo = ctx.repo
    core = repo.get(AN + "._lpsd_core"); single = repo.get(AN + ".compute_single_bin")
    ctx.analysed(AN + "._lpsd_core", AN + ".compute_single_bin")
    sites = {id(n): n for n in kernel_call_sites(core) + kernel_call_sites(single)}
    # (the syntactic number of direct kernel calls is informative only: a table-driven dispatcher has fewer; the floor is on the
    #  number of abstract configurations that reach exactly one kernel, below)
    ctx.extra["syntactic_kernel_call_sites"] = len(sites)
    reached = set()
    pi2 = X.const(2) * X.var("pi")
    for disp in ("core", "single", "single-fres"):
        fn = core if disp == "core" else single
        fkey = AN + ("._lpsd_core" if disp == "core" else ".compute_single_bin")
        where = repo.where(fkey, fn)
        for order in orders:
            for iscsd in (False, True):
                for backend in BACKENDS:
                    for kaiser in kaisers:
                        if not kaiser and backend != "numba": continue     # window kind is independent of the backend branch
                        if disp == "single-fres" and (backend != "numba" or not kaiser): continue
                        cfg = f"order={order},{'csd' if iscsd else 'auto'},{backend},{'kaiser' if kaiser else 'other-window'}" + (",fres-request" if disp == "single-fres" else "")
                        construct = f"{fkey}[{cfg}]"
                        try:
                            if disp == "core": R, r = run_core(repo, order, iscsd, backend, kaiser)
                            else: R, r = run_single(repo, order, iscsd, backend, kaiser, disp == "single")
                        except Unknown as ex:
                            ctx.unknown(f"{rule_prefix}1-dispatch", construct, str(ex), where); continue
                        # one call site reached on several forked paths of the dispatcher is one kernel call
                        uniq_ = {}
                        for kc_ in R.kcalls: uniq_.setdefault((kc_[0], id(kc_[3])), kc_)
                        if len(uniq_) == 1 and len(R.kcalls) > 1 and all(vkey(tuple(a_ if not isinstance(a_, (ListVal, DictVal, Obj, LocalArr)) else repr(a_) for a_ in kc_[1])) ==
                                                                          vkey(tuple(a_ if not isinstance(a_, (ListVal, DictVal, Obj, LocalArr)) else repr(a_) for a_ in R.kcalls[0][1])) for kc_ in R.kcalls):
                            R.kcalls = [R.kcalls[0]]
                        ctx.call_sites += len(R.kcalls)
                        fam = FAMILY[order]
                        want = kernel_key(fam, "csd" if iscsd else "auto", backend)
                        loop_raises = any(isinstance(k_, int) and sm_.get("result") and sm_["result"][0] == "raise" for k_, sm_ in R.I.loop_summaries.items())
                        if not R.kcalls and (isinstance(r, AlwaysRaises) or loop_raises):
                            # the abstract configuration is an admissible one (valid order / mode / backend / window, a valid request): the dispatcher
                            # must reach a kernel; raising on every path is a failure of every property that speaks about the result
                            ctx.violated(f"{rule_prefix}1-dispatch", construct, "the method raises on every path for this admissible configuration: no spectrum is computed", where); continue
                        if len(R.kcalls) != 1:
                            ctx.ob(f"{rule_prefix}1-dispatch", construct, VIOLATED if len(R.kcalls) > 1 else UNKNOWN,
                                   f"{len(R.kcalls)} kernel calls reached for one configuration: {[c[0] for c in R.kcalls]}", where); continue
                        call = R.kcalls[0]
                        reached.add(id(call[3]))
                        cw = f"speckit/analysis.py:{call[3].lineno}"
                        if call[0] == want: ctx.holds(f"{rule_prefix}1-dispatch", construct, call[0].split("::")[1], cw)
                        else:
                            ctx.violated(f"{rule_prefix}1-dispatch", construct, f"configuration dispatches to {call[0].split('::')[1]}, expected {want.split('::')[1]}", cw); continue
                        if not want_roles: continue
                        if disp == "core":
                            i = mk_idx("f_indices", [X.var("it")])
                            # the loop variable of the summarised loop has a fresh name: recover it from the L argument
                            exp = core_expectations(call, iscsd, fam, kaiser, order)
                        else:
                            exp = single_expectations(iscsd, fam, kaiser, order, disp == "single")
                        if exp is None:
                            ctx.unknown(f"{rule_prefix}2-argument-roles", construct, "cannot recover the bin index of the call", cw); continue
                        check_call_roles(ctx, f"{rule_prefix}2-argument-roles", construct, cw, call, iscsd, fam, exp, only=roles)
    tried = sum(1 for o in ctx.obs if o["rule"] == f"{rule_prefix}1-dispatch")
    ctx.need("dispatch configurations that reach a kernel", sum(1 for o in ctx.obs if o["rule"] == f"{rule_prefix}1-dispatch" and o["status"] in (HOLDS, VIOLATED)), max(1, (4 * tried) // 5))
    missing = [n for k, n in sites.items() if k not in reached]
    for n in missing:
        ctx.notes.append(f"kernel call site at speckit/analysis.py:{n.lineno} is reached by no configuration (dead code)")
    return reached


def core_expectations(call, iscsd, fam, kaiser, order):
    key, args, kwargs, node = call
    Lpos = 3 if iscsd else 2
    if len(args) <= Lpos: return None
    La = to_x(args[Lpos])
    # L must be plan.L[i]: read the bin index off it
    if La is None or len(La.m) != 1 or La.p or not (La.c == C(1)): return None
    (at, e), = La.m.items()
    if at.tag != "idx" or at.name != "plan.L" or e != 1: return None
    i = at.args[0]
    D = ArrParam("D"); D.bin = i
    L = mk_idx("plan.L", [i])
    return {"x1": "x1", "x2": "x2", "starts": D, "L": L, "w": expected_window(L, kaiser),
            "omega": X.const(2) * X.var("pi") * mk_idx("plan.f", [i]) / X.var("fs"), "Q": (L, X.const(order))}


def reference_count(N, L):
    """K = min(nearest(1 + (N-L)/((1-olap) L)), N-L+1)."""
    olap = X.var("olap")
    return lm.canon_minmax("min", [mk_fn("nearest", [X.const(1) + (N - L) / ((X.const(1) - olap) * L)]), N - L + 1])


def reference_starts(N, L, K):
    v = fresh("j")
    return Arr([(v, K)], mk_fn("nearest", [X.var(v) * (N - L) / (K - 1)]))


def single_expectations(iscsd, fam, kaiser, order, use_L=True):
    L = X.var("Lreq") if use_L else mk_fn("nearest", [X.var("fs") / X.var("fres")])
    N = X.var("N")
    K = reference_count(N, L)
    return {"x1": "x1", "x2": "x2", "starts": ("single", N, L, K), "L": L, "w": expected_window(L, kaiser),
            "omega": X.const(2) * X.var("pi") * X.var("freq") / X.var("fs"), "Q": (L, X.const(order)),
            "choose": numeric_chooser(GENERIC)}


# ---------------------------------------------------------------------------- generic-path selection
def numeric_chooser(fixed):
    """decide opaque branch conditions at one generic numeric configuration (selection of the main
    path only; obligations on the selected path are discharged symbolically)."""
    from .symalg import NumEnv, evalx

    def choose(cond):
        tree = getattr(cond, "tree", None)
        if tree is not None:
            while isinstance(tree, PV):
                t = choose(tree.cond)
                if t is None: return None
                tree = tree.hi if t else tree.lo
            return tree if isinstance(tree, bool) else None
        env = NumEnv(7); env.fixed.update(fixed)
        d = getattr(cond, "lt", None)
        try:
            if d is not None: return evalx(d, env).real < 0
            e = getattr(cond, "eq", None)
            if e is not None: return abs(evalx(e[1] - e[2], env)) < 1e-12
        except Exception:
            return None
        return None
    return choose


def select(v, choose):
    while isinstance(v, PV):
        t = choose(v.cond)
        if t is None: return v
        v = v.hi if t else v.lo
    if isinstance(v, Arr):
        return Arr(v.axes, select(v.body, choose))
    if isinstance(v, tuple): return tuple(select(e, choose) for e in v)
    return v


GENERIC = {"N": 1000.0, "Lreq": 50.0, "olap": 0.5, "fs": 1.0, "fres": 0.0199, "freq": 0.1, "alpha": 3.0, "Lmin": 1.0}


# ---------------------------------------------------------------------------- R5 cache-key completeness
def _names(e, skip=()):
    out = set()
    for n in ast.walk(e):
        if isinstance(n, ast.Name) and isinstance(n.ctx, ast.Load) and n.id not in skip: out.add(n.id)
    return out


def _key_names(e):
    """names whose *value* the key expression covers: a name that only occurs through a projection that forgets most of the value
    (x.shape, x.size, x.ndim, x.dtype, len(x), type(x)) does not count - `cache[Q.shape[0]]` does not distinguish two different Q."""
    weak = set()
    for n in ast.walk(e):
        if isinstance(n, ast.Attribute) and n.attr in ("shape", "size", "ndim", "dtype", "nbytes") and isinstance(n.value, ast.Name): weak.add(id(n.value))
        if isinstance(n, ast.Call) and isinstance(n.func, ast.Name) and n.func.id in ("len", "type") and len(n.args) == 1 and isinstance(n.args[0], ast.Name): weak.add(id(n.args[0]))
        if isinstance(n, ast.Attribute) and n.attr in ("shape", "size", "ndim", "dtype", "nbytes") and isinstance(n.value, ast.Attribute): weak.add(id(n.value))
        if isinstance(n, ast.Call) and isinstance(n.func, ast.Name) and n.func.id in ("len", "type") and len(n.args) == 1 and isinstance(n.args[0], ast.Attribute): weak.add(id(n.args[0]))
    out = set()
    for n in ast.walk(e):
        if isinstance(n, ast.Name) and isinstance(n.ctx, ast.Load) and id(n) not in weak: out.add(n.id)
        # self.x / self.config[...] in the key covers the dependency on that attribute
        if isinstance(n, ast.Attribute) and isinstance(n.value, ast.Name) and n.value.id == "self" and id(n) not in weak: out.add("self." + n.attr)
    return out


def _called_names(e):
    out = set()
    for n in ast.walk(e):
        if isinstance(n, ast.Call):
            f = n.func
            while isinstance(f, ast.Attribute): f = f.value
            if isinstance(f, ast.Name): out.add(f.id)
    return out


class _FnInfo:
    """assignments (with control dependencies) of one function body, nested defs excluded."""

    def __init__(s, fn):
        s.fn = fn
        s.params = {a.arg for a in fn.args.posonlyargs + fn.args.args + fn.args.kwonlyargs}
        s.defs = {}      # name -> list of (value node, control-dep names, in_loop)
        s.unpacked = set()   # names bound as one element of a tuple target (a, b, c = f(args)): sources in their own right
        s.loop_assigned = set()
        s._walk(fn.body, set(), False)

    def _walk(s, stmts, ctrl, in_loop):
        for st in stmts:
            if isinstance(st, (ast.FunctionDef, ast.ClassDef)): continue
            if isinstance(st, ast.Assign):
                for t in st.targets: s._bind(t, st.value, ctrl, in_loop)
            elif isinstance(st, ast.AnnAssign) and st.value is not None: s._bind(st.target, st.value, ctrl, in_loop)
            elif isinstance(st, ast.AugAssign): s._bind(st.target, st.value, ctrl | _names(st.target), in_loop)
            elif isinstance(st, ast.Expr) and isinstance(st.value, ast.Call) and isinstance(st.value.func, ast.Attribute) and isinstance(st.value.func.value, ast.Name) \
                    and st.value.func.attr in ("append", "extend", "add", "update", "insert", "setdefault", "appendleft") and st.value.func.value.id in s.defs:
                # a local container filled element by element: its value depends on what is put into it (and on the tests that guard the filling)
                for a in list(st.value.args) + [k.value for k in st.value.keywords]:
                    s.defs[st.value.func.value.id].append((a, set(ctrl), in_loop))
            elif isinstance(st, ast.If):
                only_raise = all(isinstance(b, ast.Raise) for b in st.body) and not st.orelse
                c2 = ctrl if only_raise else ctrl | _names(st.test)
                s._walk(st.body, c2, in_loop); s._walk(st.orelse, c2, in_loop)
            elif isinstance(st, ast.For):
                s._bind(st.target, st.iter, ctrl, True)
                s._walk(st.body, ctrl, True); s._walk(st.orelse, ctrl, in_loop)
            elif isinstance(st, ast.While):
                s._walk(st.body, ctrl | _names(st.test), True)
            elif isinstance(st, ast.With): s._walk(st.body, ctrl, in_loop)
            elif isinstance(st, ast.Try):
                s._walk(st.body, ctrl, in_loop)
                for h in st.handlers: s._walk(h.body, ctrl, in_loop)
                s._walk(st.orelse, ctrl, in_loop); s._walk(st.finalbody, ctrl, in_loop)

    def _bind(s, t, value, ctrl, in_loop):
        if isinstance(t, ast.Name):
            s.defs.setdefault(t.id, []).append((value, set(ctrl), in_loop))
            if in_loop: s.loop_assigned.add(t.id)
        elif isinstance(t, (ast.Tuple, ast.List)):
            # named extraction  a, b, c = take(source, ["a", "b", "c"]) : each component is an input in its own right (slicing through the common
            # right-hand side would make every component depend on everything); any other unpacking (Q, R = qr(V)) is sliced through its value
            named = isinstance(value, ast.Call) and any(isinstance(a, (ast.List, ast.Tuple)) and len(a.elts) == len(t.elts) and
                                                          all(isinstance(x, ast.Constant) and isinstance(x.value, str) for x in a.elts) for a in list(value.args) + [k.value for k in value.keywords])
            for e in t.elts:
                if isinstance(e, ast.Name) and named: s.unpacked.add(e.id)
                s._bind(e, value, ctrl, in_loop)

    def slice_deps(s, expr, stop=()):
        """input names the expression depends on: parameters, free variables, 'self.x' paths."""
        deps = set(); seen = set()
        work = [expr]
        ctrl_acc = set()
        while work:
            e = work.pop()
            attr_selfs = set()
            for n in ast.walk(e):
                if isinstance(n, ast.Attribute) and isinstance(n.value, ast.Name) and n.value.id == "self":
                    deps.add("self." + n.attr); attr_selfs.add(id(n.value))
            for n in ast.walk(e):
                # the whole object handed to an introspecting builtin (dir(self), getattr(self, name), vars(self)): depends on all of its state
                if isinstance(n, ast.Call) and isinstance(n.func, ast.Name) and n.func.id in ("dir", "getattr", "vars", "hasattr") and n.args and isinstance(n.args[0], ast.Name) \
                        and n.args[0].id == "self" and id(n.args[0]) not in attr_selfs:
                    deps.add("self.*")
            called = _called_names(e)
            for nm in _names(e):
                if nm in stop or nm in seen or nm == "self": continue
                seen.add(nm)
                if nm in s.unpacked and nm not in s.params:
                    # one component of an unpacked call result (N, fs, ... = _require_args(args, [...])): the component itself is the
                    # dependency - slicing through the common right-hand side would make every component depend on everything
                    deps.add(nm); continue
                if nm in s.defs and nm not in s.params:
                    for v, ctrl, _ in s.defs[nm]:
                        work.append(v)
                        for c in ctrl:
                            if c not in seen and c not in stop: work.append(ast.Name(id=c, ctx=ast.Load()))
                elif nm in called and nm not in s.params and nm not in s.defs:
                    continue       # a function being called (module-level / builtin)
                else:
                    deps.add(nm)
        s.last_seen = set(seen)
        return deps


MODULE_NAMES = {"np", "_np", "numpy", "math", "time", "_time", "logging", "cuda", "types", "signal", "sp", "pd", "ct"}


def check_cache_keys(ctx, rule="R5-cache-key", about=None, files=None):
    """every memo dictionary is keyed by everything its cached value depends on (and that can vary during its lifetime)."""
    repo = ctx.repo
    found = 0; matched = 0
    for rel in (files or ("speckit/analysis.py", "speckit/core.py", "speckit/core_cuda.py", "speckit/schedulers.py", "speckit/utils.py", "speckit/noise.py", "speckit/dsp.py")):
        if rel not in repo.mods: continue
        mod = repo.module(rel)
        module_dicts = set()
        for st in mod.body:
            tgt = None
            if isinstance(st, ast.Assign) and len(st.targets) == 1 and isinstance(st.targets[0], ast.Name): tgt, val = st.targets[0].id, st.value
            elif isinstance(st, ast.AnnAssign) and isinstance(st.target, ast.Name) and st.value is not None: tgt, val = st.target.id, st.value
            if tgt and (isinstance(val, ast.Dict) and not val.keys or (isinstance(val, ast.Call) and ast.unparse(val.func) in ("dict", "OrderedDict", "collections.OrderedDict") and not val.args)):
                module_dicts.add(tgt)
        for key, fn in repo.functions_in(rel):
            info = _FnInfo(fn)
            # enclosing function (for nested builders)
            parent_key = key.rsplit(".", 1)[0] if "." in key.split("::")[1] else None
            parent = repo.index.get(parent_key) if parent_key else None
            pinfo = _FnInfo(parent) if isinstance(parent, ast.FunctionDef) else None
            stores = []
            for n in ast.walk(fn):
                if isinstance(n, ast.FunctionDef) and n is not fn: continue
                if isinstance(n, ast.Assign):
                    for t in n.targets:
                        if isinstance(t, ast.Subscript): stores.append((t, n.value, n))
            own_nodes = set(id(x) for x in _own_nodes(fn))
            for t, value, stn in stores:
                if id(stn) not in own_nodes: continue
                if isinstance(t.slice, (ast.JoinedStr, ast.Slice)): continue
                if isinstance(t.slice, ast.Constant) and not (isinstance(t.value, ast.Attribute) and "cache" in t.value.attr.lower()): continue
                cname = ast.unparse(t.value)
                # what kind of dictionary is it?
                scope = None
                base = t.value
                if isinstance(base, ast.Name):
                    nm = base.id
                    defs = info.defs.get(nm) or (pinfo.defs.get(nm) if pinfo else None)
                    if defs:
                        v0 = defs[0][0]
                        if isinstance(v0, ast.Dict) and not v0.keys: scope = "local-nested" if (nm not in info.defs) else "local"
                        elif isinstance(v0, ast.Call) and ast.unparse(v0.func) == "dict" and not v0.args: scope = "local-nested" if (nm not in info.defs) else "local"
                        elif isinstance(v0, ast.Name) and v0.id in module_dicts: scope = "module"
                    elif nm in module_dicts: scope = "module"
                elif isinstance(base, ast.Attribute) and ast.unparse(base).startswith("self.") and "cache" in base.attr.lower():
                    scope = "attribute"
                if scope is None: continue
                # memo pattern: the same dictionary is probed with `in` / .get / [] in this function
                probed = False
                for n in _own_nodes(fn):
                    if isinstance(n, ast.Compare) and any(isinstance(o, (ast.In, ast.NotIn)) for o in n.ops) and any(ast.unparse(c) == cname for c in n.comparators): probed = True
                    if isinstance(n, ast.Call) and isinstance(n.func, ast.Attribute) and n.func.attr == "get" and ast.unparse(n.func.value) == cname: probed = True
                if not probed: continue
                found += 1
                keyexpr = t.slice
                knames = _key_names(keyexpr)
                for kn in list(knames):
                    for v, _, _ in info.defs.get(kn, []):
                        if kn not in info.params: knames |= _key_names(v)
                deps = info.slice_deps(value, stop={cname} | MODULE_NAMES)
                deps -= MODULE_NAMES
                deps = {d for d in deps if not (d in module_dicts)}
                # which dependencies can vary while the cache lives?
                import builtins as _b
                deps = {d for d in deps if not hasattr(_b, d)}
                if scope == "attribute":
                    # the cache lives in the instance whose (immutable) state it is derived from
                    varying = {d for d in deps if not d.startswith("self.") and not _is_module_const(repo, rel, d)}
                elif scope == "module":
                    varying = {d for d in deps if not _is_module_const(repo, rel, d)}
                    # key names reached through simple conversions of components (int(N), float(fs)) count for those components
                    # free variables of a nested builder come from the enclosing call: they vary across calls
                    if pinfo:
                        more = set()
                        for d in list(varying):
                            if d in pinfo.defs and d not in info.params:
                                for v, _, _ in pinfo.defs[d]: more |= {"self." + a.attr for a in ast.walk(v) if isinstance(a, ast.Attribute) and isinstance(a.value, ast.Name) and a.value.id == "self"}
                        varying |= set()
                    pass
                elif scope == "local-nested":
                    varying = {d for d in deps if d in info.params or (pinfo and d in pinfo.loop_assigned)}
                else:
                    varying = {d for d in deps if d in info.loop_assigned}
                missing = sorted(d for d in varying if d not in knames and not d.startswith("self._"))
                construct = f"{key}[{cname}[{ast.unparse(keyexpr)}]]"
                low = (cname + " " + key.split("::")[1]).lower()
                kind = "window" if (deps & {"win_func", "alpha", "np_kaiser", "sp_kaiser", "psll", "win"} or "win" in low) else \
                       "basis" if ("order" in deps or "_q" in low or "basis" in low or low.startswith("q")) else "other"
                if about is not None and kind not in about: continue
                matched += 1
                where = f"{rel}:{stn.lineno}"
                if missing:
                    ctx.violated(rule, construct, f"cached value depends on {sorted(deps)} but the {scope} cache is keyed by {sorted(knames)} only: "
                                 f"a later lookup with a different {', '.join(missing)} returns the stale entry", where)
                else:
                    ctx.holds(rule, construct, f"{scope} cache; value depends on {sorted(deps)}, key covers the varying ones", where)
    if files is None:
        ctx.need("memoisation dictionaries", found, 2)
        if about is not None: ctx.need(f"memoisation dictionaries about {'/'.join(about)}", matched, 1)
    elif not matched:
        ctx.holds(rule, "+".join(files), "no memoisation dictionary in these modules", "")


def _own_nodes(fn):
    """nodes of fn excluding nested function bodies."""
    out = []
    stack = [b for b in fn.body if not isinstance(b, (ast.FunctionDef, ast.ClassDef))]
    while stack:
        n = stack.pop()
        out.append(n)
        for ch in ast.iter_child_nodes(n):
            if isinstance(ch, (ast.FunctionDef, ast.ClassDef, ast.Lambda)): continue
            stack.append(ch)
    return out


def _is_module_const(repo, rel, name):
    mod = repo.mods[rel]
    for st in mod.body:
        if isinstance(st, (ast.FunctionDef, ast.ClassDef)) and st.name == name: return True
        if isinstance(st, (ast.Import, ast.ImportFrom)):
            for a in st.names:
                if (a.asname or a.name.split(".")[0]) == name: return True
        if isinstance(st, ast.Assign):
            for t in st.targets:
                if isinstance(t, ast.Name) and t.id == name and isinstance(st.value, ast.Constant): return True
        # a non-empty literal table (formulas, kernels, names) that nothing in the module ever mutates or rebinds
        tgt = st.targets[0] if isinstance(st, ast.Assign) and len(st.targets) == 1 else st.target if isinstance(st, ast.AnnAssign) else None
        val = getattr(st, "value", None)
        if isinstance(tgt, ast.Name) and tgt.id == name and isinstance(val, (ast.Dict, ast.Tuple, ast.List, ast.Set)) and (getattr(val, "keys", None) or getattr(val, "elts", None)):
            return _never_mutated(mod, name)
    return False


_MUTATING_METHODS = {"update", "append", "extend", "insert", "pop", "popitem", "clear", "setdefault", "remove", "add", "discard", "sort", "reverse", "__setitem__", "__delitem__"}


def _never_mutated(mod, name):
    binds = 0
    for n in ast.walk(mod):
        if isinstance(n, (ast.Global, ast.Nonlocal)) and name in n.names: return False
        if isinstance(n, ast.Name) and n.id == name and isinstance(n.ctx, (ast.Store, ast.Del)): binds += 1
        if isinstance(n, ast.Subscript) and isinstance(n.value, ast.Name) and n.value.id == name and isinstance(n.ctx, (ast.Store, ast.Del)): return False
        if isinstance(n, ast.Call) and isinstance(n.func, ast.Attribute) and isinstance(n.func.value, ast.Name) and n.func.value.id == name and n.func.attr in _MUTATING_METHODS: return False
        if isinstance(n, ast.AugAssign) and isinstance(n.target, ast.Name) and n.target.id == name: return False
    return binds == 1


# ---------------------------------------------------------------------------- R7 band mask
def scheduler_keys(repo):
    """keys of the output dictionaries of the built-in schedulers."""
    keys = {}
    for k, fn in repo.functions_in("speckit/schedulers.py"):
        for n in ast.walk(fn):
            if isinstance(n, ast.Dict) and n.keys and all(isinstance(x, ast.Constant) and isinstance(x.value, str) for x in n.keys):
                ks = [x.value for x in n.keys]
                if "f" in ks and "L" in ks and "D" in ks:
                    keys[k] = ks
    return keys


def _sched_out(nf, keys):
    d = DictVal()
    for k in keys:
        if k in ("D", "nf"): continue
        d.d[k] = ArrParam("sch." + k, shape=(nf,))
    lm.INT_ARRAYS.update({"sch.L", "sch.K", "sch.navg"})
    D = ListVal(); jv = fresh("j"); a = ArrParam("sch.D"); a.bin = X.var(jv); D.per_iter = [(jv, nf, a)]
    d.d["D"] = D; d.d["nf"] = nf
    return d


def _bool_arr_key(A):
    A = as_arr(A)
    if A is None or A.ndim != 1: return None
    (v, c), = A.axes
    return (c.keystr() if isinstance(c, X) else repr(c), vkey(subst_val(A.body, {v: X.var("_ax")})))


def run_plan(repo, keys, band=True):
    KIND.update({"bandlo": "pos", "bandhi": "pos", "Lmin": "nat", "bmin": "pos", "Kdes": "nat", "Jdes": "nat"})
    R = Run(repo, "numba")
    nf = X.var("nf")

    def lib2(I_, name, args, kw, st, n):
        if name == "sched.generic": return _sched_out(nf, keys)
        return window_lib(I_, name, args, kw, st, n)
    R.I.hooks["lib"] = lib2
    me = analyzer_obj(0, True, True)
    me.attrs["_plan_cache"] = None
    me.attrs["config"].d.update({"scheduler_func": Lib("sched.generic"), "band": (X.var("bandlo"), X.var("bandhi")) if band else None,
                                 "force_target_nf": False, "bmin": X.var("bmin"), "Kdes": X.var("Kdes"), "Jdes": X.var("Jdes"), "num_patch_pts": None})
    key = AN + ".plan"
    R.top = St()
    r = R.I.call_func(Func(key, repo.get(key)), [me], {}, R.top, None)
    # reference mask through the same lifter
    st = St(); st.mod = "speckit/analysis.py"
    st.env.update({"f": ArrParam("sch.f", shape=(nf,)), "fmin": X.var("bandlo"), "fmax": X.var("bandhi")})
    mref = R.I.eval(ast.parse("(f >= fmin) & (f <= fmax)", mode="eval").body, st)
    return R, r, mref, me


def check_band_mask(ctx, rule="R7-band-mask"):
    repo = ctx.repo
    skeys = scheduler_keys(repo)
    ctx.need("scheduler output dictionaries", len(skeys), 3)
    allkeys = []
    for ks in skeys.values():
        for k in ks:
            if k not in allkeys: allkeys.append(k)
    fkey = AN + ".plan"; fn = repo.get(fkey); ctx.analysed(fkey)
    where = repo.where(fkey, fn)
    try:
        R, plan, mref, me = run_plan(repo, allkeys, True)
    except Unknown as ex:
        ctx.unknown(rule, fkey, str(ex), where); return
    if not isinstance(plan, DictVal):
        ctx.unknown(rule, fkey, f"plan() result not recognised: {plan!r}"[:200], where); return
    mk = _bool_arr_key(mref)
    for k in allkeys:
        c = f"{fkey}[band:{k}]"
        if k == "nf":
            v = plan.d.get("nf")
            fv = plan.d.get("f")
            ok = isinstance(fv, lm.Masked) and isinstance(v, X) and v.eq(fv.count())
            ctx.ob(rule, c, HOLDS if ok else UNKNOWN if (is_opaque(v) or is_opaque(fv) or isinstance(v, PV)) else VIOLATED, "" if ok else f"nf of a band-limited plan is {v!r}, not the number of in-band bins", where)
            continue
        if k not in plan.d:
            ctx.holds(rule, c, "field removed from the band-limited plan", where); continue
        v = plan.d[k]
        if k == "D":
            flt = getattr(v, "filter", None)
            if flt is None:
                ctx.ob(rule, c, UNKNOWN if is_opaque(v) else VIOLATED, f"segment starts of a band-limited plan are not filtered by the band mask: {v!r}"[:200], where); continue
            var, count, conds, elt = flt
            mm = Arr([(var, count)], conds[0]) if len(conds) == 1 else None
            ok_mask = mm is not None and _bool_arr_key(mm) == mk
            ok_elt = isinstance(elt, ArrParam) and elt.name == "sch.D" and elt.bin is not None and elt.bin.eq(X.var(var))
            if ok_mask and ok_elt: ctx.holds(rule, c, "D filtered by the band mask, element-aligned", where)
            elif not ok_mask:
                ctx.violated(rule, c, "the ragged field D is filtered with a mask that is not the band mask of the unrestricted frequencies "
                             f"(mask over {count!r} elements: {conds!r})"[:400], where)
            else: ctx.violated(rule, c, f"filtered D takes its elements from {elt!r}", where)
            continue
        if isinstance(v, lm.Masked):
            base = as_arr(v.arr)
            ok_base = base is not None and base.ndim == 1 and isinstance(base.body, X) and base.body.eq(mk_idx("sch." + k, [X.var(base.axes[0][0])]))
            ok_mask = _bool_arr_key(v.mask) == mk
            if ok_base and ok_mask: ctx.holds(rule, c, "", where)
            elif not ok_mask:
                ctx.violated(rule, c, f"per-bin field {k!r} is restricted with a different mask than the in-band test on the unrestricted f", where)
            else:
                ctx.violated(rule, c, f"band-limited field {k!r} is taken from {v.arr!r}", where)
        elif isinstance(v, ArrParam) and v.name == "sch." + k:
            ctx.violated(rule, c, f"per-bin field {k!r} emitted by the schedulers is left at full length in a band-limited plan "
                         "(no longer aligned with f)", where)
        else:
            ctx.ob(rule, c, UNKNOWN if is_opaque(v) or isinstance(v, PV) else VIOLATED, f"band-limited field {k!r} is {v!r}"[:300], where)
    # per-bin fields that plan() itself adds (derived from the scheduler's arrays) must be restricted to the band as well
    for k, v in plan.d.items():
        if k in allkeys or not isinstance(k, str): continue
        c = f"{fkey}[band:{k}]"
        if isinstance(v, lm.Masked):
            (ctx.holds if _bool_arr_key(v.mask) == mk else ctx.violated)(rule, c, "derived per-bin field restricted by the band mask" if _bool_arr_key(v.mask) == mk else
                                                                       f"derived per-bin field {k!r} is restricted with a different mask than the in-band test", where)
        elif isinstance(v, (Arr, ArrParam)):
            A_ = as_arr(v)
            names_ = {a_.name for a_ in to_x(A_.body).all_atoms() if a_.tag == "idx"} if A_ is not None and A_.ndim == 1 and not isinstance(A_.body, PV) and to_x(A_.body) is not None else set()
            if any(nm_.startswith("sch.") for nm_ in names_):
                ctx.violated(rule, c, f"the per-bin field {k!r} that plan() derives from the scheduler's arrays ({', '.join(sorted(names_))}) is left at full length in a band-limited plan: "
                             "bin i of the restricted plan reads the value of bin i of the unrestricted one", where)
    # without a band the plan passes the scheduler's arrays through
    try:
        R2, plan2, _, _ = run_plan(repo, allkeys, False)
        for k in allkeys:
            if k in ("nf", "D"): continue
            v = plan2.d.get(k) if isinstance(plan2, DictVal) else None
            ok = isinstance(v, ArrParam) and v.name == "sch." + k
            ctx.ob("R7-pass-through", f"{fkey}[full:{k}]", HOLDS if ok else (UNKNOWN if (v is None or is_opaque(v)) else VIOLATED),
                   "" if ok else f"unrestricted plan field {k!r} is {v!r}"[:200], where)
    except Unknown as ex:
        ctx.unknown("R7-pass-through", fkey, str(ex), where)


# ---------------------------------------------------------------------------- R6 assembly
def finite_branch_lib(base):
    """the assembly rules are decided on the branch where every statistic is finite (making them finite is then the identity; that it
    happens on every path is C13's rule): np.isfinite is elementwise true, np.isnan / np.isinf elementwise false."""
    def lib(I, name, args, kw, st, n):
        if name in ("numpy.isfinite", "numpy.isnan", "numpy.isinf") and args and isinstance(args[0], (Arr, ArrParam, LocalArr, X)):
            val = name == "numpy.isfinite"
            a = args[0]
            if isinstance(a, X): return val
            A = lm.local_to_arr(a, st) if isinstance(a, LocalArr) else as_arr(a)
            if A is None or is_opaque(A): return NotImplemented
            return Arr(A.axes, val)
        return base(I, name, args, kw, st, n)
    return lib


def check_assembly(ctx, rule="R6-assembly", only=None):
    setup()
    repo = ctx.repo
    fkey = AN + ".compute"; fn = repo.get(fkey); ctx.analysed(fkey, AN + "._lpsd_core")
    where = repo.where(fkey, fn)
    for iscsd, order in [(c_, o_) for o_ in (0, -1, 1, 2) for c_ in (True, False)]:
        R = Run(repo, "numba")
        plan = plan_obj()
        me = analyzer_obj(order, iscsd, True, plan)
        old = R._call

        def call2(I_, f, args, kwargs, st, node, old=old, plan=plan):
            if f.key == AN + ".plan": return plan
            return old(I_, f, args, kwargs, st, node)
        R.I.hooks["call"] = call2
        R.I.hooks["lib"] = finite_branch_lib(window_lib)
        try:
            R.I.call_func(Func(fkey, fn), [me], {}, St(), None)
        except Unknown as ex:
            ctx.unknown(rule, fkey, str(ex), where); continue
        mode = ("cross" if iscsd else "auto") + ("" if order == 0 else f",order={order}")
        if len(R.made) != 1 or not R.made[0][1] or not isinstance(R.made[0][1][0], DictVal):
            ctx.unknown(rule, f"{fkey}[{mode}]", "SpectrumResult construction not recognised", where); continue
        d = R.made[0][1][0].d
        args = R.made[0][1]
        j = fresh("bin"); J = X.var(j)
        L = mk_idx("plan.L", [J]); om = X.const(2) * X.var("pi") * mk_idx("plan.f", [J]) / X.var("fs")
        out = lambda k: mk_fn("OUT_" + k, [om, L])
        wbody = lambda n_: mk_fn("kaiser", [n_, L + 1, X.var("alpha") * X.var("pi")], "pos")
        S1 = mk_sum("n", L, wbody(X.var("n")))
        S2 = mk_sum("n", L, wbody(X.var("n")) * wbody(X.var("n")))
        from .symalg import I_ as IMAG
        expect = {"XX": out("MXX"), "YY": out("MYY"), "XY": out("mu_r") + X(IMAG) * out("mu_i"), "S12": S1 * S1, "S2": S2, "M2": out("M2")}
        for k, want in expect.items():
            if only is not None and k not in only: continue
            c = f"{fkey}[{mode}:{k}]"
            v = d.get(k)
            A = local_to_arr(v) if isinstance(v, LocalArr) else as_arr(v) if v is not None else None
            if A is None or is_opaque(A):
                ctx.ob(rule, c, VIOLATED if isinstance(A, Mismatch) else UNKNOWN, f"result field {k} not recognised: {v!r} {getattr(A, 'why', '')}"[:300], where); continue
            st_, why = same_arr(A, Arr([(j, X.var("nf"))], want))
            ctx.ob(rule, c, st_, (f"result field {k}[bin] is not the {k} statistic of that bin: " + why) if why else "", where)
        for k in ("f", "L", "K", "navg", "D", "r", "b", "O"):
            if only is not None and k not in only: continue
            c = f"{fkey}[{mode}:{k}]"
            ok = d.get(k) is plan.d.get(k)
            (ctx.holds if ok else ctx.violated)(rule, c, "plan field passed through" if ok else f"result field {k} is not the plan's {k}", where)
        if len(args) >= 4 and only is None:
            ok = args[2] is iscsd or args[2] == iscsd
            (ctx.holds if ok else ctx.violated)(rule, f"{fkey}[{mode}:iscsd]", "" if ok else "result labelled with the wrong analysis type", where)
            fsok = isinstance(args[3], X) and args[3].eq(X.var("fs"))
            (ctx.holds if fsok else ctx.violated)(rule, f"{fkey}[{mode}:fs]", "" if fsok else f"result carries fs={args[3]!r}", where)


# ---------------------------------------------------------------------------- R8 single-bin result fields
def check_single_fields(ctx, rule="R8-single-bin", only=None):
    repo = ctx.repo
    fkey = AN + ".compute_single_bin"; fn = repo.get(fkey)
    where = repo.where(fkey, fn)
    choose = numeric_chooser(GENERIC)
    for use_L in (True, False):
        try:
            R, r = run_single(repo, 0, True, "numba", True, use_L)
        except Unknown as ex:
            ctx.unknown(rule, fkey, str(ex), where); continue
        tag = "L-request" if use_L else "fres-request"
        if len(R.made) != 1 or not isinstance(R.made[0][1][0], DictVal):
            ctx.unknown(rule, f"{fkey}[{tag}]", "SpectrumResult construction not recognised", where); continue
        d = R.made[0][1][0].d
        L = X.var("Lreq") if use_L else mk_fn("nearest", [X.var("fs") / X.var("fres")])
        N = X.var("N"); K = reference_count(N, L)
        om = X.const(2) * X.var("pi") * X.var("freq") / X.var("fs")
        out = lambda k: mk_fn("OUT_" + k, [om, L])
        wb = lambda n_: mk_fn("kaiser", [n_, L + 1, X.var("alpha") * X.var("pi")], "pos")
        S1 = mk_sum("n", L, wb(X.var("n"))); S2 = mk_sum("n", L, wb(X.var("n")) * wb(X.var("n")))
        from .symalg import I_ as IMAG
        expect = {"f": X.var("freq"), "L": L, "K": K, "navg": K, "XX": out("MXX"), "YY": out("MYY"),
                  "XY": out("mu_r") + X(IMAG) * out("mu_i"), "S12": S1 * S1, "S2": S2, "M2": out("M2")}
        for k, want in expect.items():
            if only is not None and k not in only: continue
            c = f"{fkey}[{tag}:{k}]"
            v = select(d.get(k), choose) if d.get(k) is not None else None
            A = as_arr(v) if v is not None else None
            if A is None:
                ctx.unknown(rule, c, f"field {k} not recognised: {v!r}"[:200], where); continue
            el = select(A.body, choose)
            if A.ndim != 1 or A.axes[0][1].as_int() != 1:
                ctx.violated(rule, c, f"single-bin field {k} does not have length 1", where); continue
            if is_opaque(el) or isinstance(el, PV) or to_x(el) is None:
                if k == "navg":
                    # the count of averaged segments is a function of the segmentation alone: a value that (also) flows from the window or the data is
                    # not the number of segments (def-use slice of the expression stored under 'navg' against the one stored under 'K')
                    info = _FnInfo(fn)
                    exprs = {}
                    for nd in ast.walk(fn):
                        if isinstance(nd, ast.Dict):
                            for kk, vv in zip(nd.keys, nd.values):
                                if isinstance(kk, ast.Constant) and kk.value in ("navg", "K"): exprs[kk.value] = vv
                    if "navg" in exprs and "K" in exprs:
                        info.slice_deps(exprs["navg"], stop=MODULE_NAMES); dn = set(info.last_seen) - MODULE_NAMES
                        info.slice_deps(exprs["K"], stop=MODULE_NAMES); dk = set(info.last_seen) - MODULE_NAMES
                        # intermediate values the count flows through that the number of starts does not (window samples, window sums, data)
                        windowish = {"w", "wloc", "S1", "S2", "win_func", "alpha_val", "MXX", "MYY", "mu_r", "mu_i", "M2", "x1", "x2"}
                        extra = sorted(x_ for x_ in dn - dk if x_ in windowish or x_ in info.loop_assigned)
                        if extra:
                            ctx.violated(rule, c, f"navg is computed from {extra[:6]}, which the number of segments K does not depend on: the n of the error formulas is not the "
                                         "number of segments actually averaged", where); continue
                ctx.unknown(rule, c, f"field {k}: {el!r}"[:200], where); continue
            ctx.compare(rule, c, to_x(el), want, where)
        if only is not None and "D" not in only: continue
        # D is the one-element list holding the very starts handed to the kernel
        v = select(d.get("D"), choose)
        A = as_arr(v)
        c = f"{fkey}[{tag}:D]"
        if A is None or A.ndim < 1: ctx.unknown(rule, c, f"D not recognised: {v!r}"[:200], where)
        else:
            inner = Arr(A.axes[1:], select(A.body, choose)) if A.ndim == 2 else select(A.body, choose)
            st_, why = same_arr(inner, reference_starts(N, L, K))
            ctx.ob(rule, c, st_, why, where)
        # boundary instances of the segment count: the single-segment branch is taken exactly when the count formula gives 1, so the stored K,
        # navg and the number of starts are the formula's value also for K = 1, 2, 3, 4 (normal forms evaluated at concrete configurations)
        if use_L and (only is None or "K" in only):
            from .symalg import NumEnv, evalx
            for Lb in (900.0, 600.0, 450.0, 400.0):
                pt = dict(GENERIC, N=1000.0, Lreq=Lb, olap=0.5)
                chb = numeric_chooser(pt)
                env = NumEnv(7); env.fixed.update(pt)
                try: want_k = round(evalx(reference_count(N, L), env).real)
                except Exception: continue
                c = f"{fkey}[{tag}:count at N=1000, L={int(Lb)}, olap=0.5]"
                got = {}
                for k in ("K", "navg"):
                    A = as_arr(select(d.get(k), chb)) if d.get(k) is not None else None
                    el = select(A.body, chb) if A is not None else None
                    try: got[k] = round(evalx(to_x(el), env).real) if el is not None and to_x(el) is not None else None
                    except Exception: got[k] = None
                vD = select(d.get("D"), chb); AD = as_arr(vD)
                try:
                    cntx = AD.axes[1][1] if AD is not None and AD.ndim == 2 else (as_arr(select(AD.body, chb)).axes[0][1] if AD is not None and as_arr(select(AD.body, chb)) is not None else None)
                    got["starts"] = round(evalx(select(cntx, chb) if not isinstance(cntx, X) else cntx, env).real) if cntx is not None else None
                except Exception: got["starts"] = None
                if any(v is None for v in got.values()):
                    ctx.unknown(rule, c, f"count fields not evaluable: {got}", where)
                elif all(v == want_k for v in got.values()):
                    ctx.holds(rule, c, f"K = navg = number of starts = {want_k}", where)
                else:
                    ctx.violated(rule, c, f"the count formula min(nearest(1+(N-L)/((1-olap)L)), N-L+1) gives {want_k} segments for this request, the result carries {got}: "
                                 "the single-segment branch is not taken exactly when one segment fits", where)
        # degenerate request: one segment covering the whole record
    if only is not None and "D" not in only: return
    # single segment when the request covers the whole record
    try:
        R, r = run_single(repo, 0, False, "numba", True, True)
        st_val = R.kcalls[0][1][1] if R.kcalls else None
        whole = numeric_chooser(dict(GENERIC, Lreq=GENERIC["N"]))
        v = select(st_val, whole)
        A = as_arr(v)
        ok = A is not None and A.ndim == 1 and A.axes[0][1].as_int() == 1 and to_x(select(A.body, whole)) is not None and to_x(select(A.body, whole)).iszero()
        (ctx.holds if ok else ctx.violated)(rule, f"{fkey}[L=N:starts]", "one segment starting at 0" if ok else f"a request with L=N does not use the single segment [0]: {v!r}"[:200], where)
    except Unknown as ex:
        ctx.unknown(rule, f"{fkey}[L=N:starts]", str(ex), where)


# ---------------------------------------------------------------------------- R4 window configuration
def check_window_config(ctx, rule="R4-window-config", overlap=True):
    """overlap=False: only the Kaiser shape clauses (alpha, window function), for properties that do not speak about the overlap."""
    repo = ctx.repo
    fkey = AN + "._process_window_config"; fn = repo.get(fkey); ctx.analysed(fkey)
    where = repo.where(fkey, fn)
    for label, win in (("'kaiser'", "kaiser"), ("np.kaiser", Lib("numpy.kaiser")), ("scipy kaiser", Lib("scipy.signal.windows.kaiser"))):
        R = Run(repo, "numba")
        cfg = DictVal({"win": win, "psll": X.var("psll"), "olap": "default"})
        me = Obj(AN, {"config": cfg, "verbose": False})
        try:
            R.I.call_func(Func(fkey, fn), [me], {}, St(), None)
        except Unknown as ex:
            ctx.unknown(rule, f"{fkey}[win={label}]", str(ex), where); continue
        a = cfg.d.get("alpha"); wf = cfg.d.get("win_func"); ol = cfg.d.get("final_olap")
        c = f"{fkey}[win={label}]"
        want = mk_fn("kaiser_alpha", [X.var("psll")], "pos")
        if isinstance(a, X): ctx.compare(rule, c + "[alpha]", a, want, where, detail="Kaiser shape parameter must be kaiser_alpha(psll)")
        else: ctx.ob(rule, c + "[alpha]", UNKNOWN if is_opaque(a) or isinstance(a, PV) else VIOLATED, f"alpha is {a!r}", where)
        ok = isinstance(wf, Lib) and wf.name in ("numpy.kaiser", "scipy.signal.windows.kaiser")
        (ctx.holds if ok else ctx.violated)(rule, c + "[win_func]", "" if ok else f"window function resolved to {wf!r}", where)
        if not overlap: continue
        if isinstance(ol, X): ctx.compare(rule, c + "[olap]", ol, mk_fn("kaiser_rov", [want], "pos"), where, detail="default overlap is kaiser_rov(alpha)")
        else: ctx.ob(rule, c + "[olap]", UNKNOWN, f"default overlap is {ol!r}", where)
    if not overlap: return
    # an explicit overlap is used as given (0 included)
    for val, label in ((X.const(0), "0.0"), (X.var("olap"), "olap")):
        R = Run(repo, "numba")
        cfg = DictVal({"win": "hann", "psll": X.var("psll"), "olap": val})
        me = Obj(AN, {"config": cfg, "verbose": False})
        try:
            R.I.call_func(Func(fkey, fn), [me], {}, St(), None)
        except Unknown as ex:
            ctx.unknown(rule, f"{fkey}[olap={label}]", str(ex), where); continue
        ol = cfg.d.get("final_olap")
        ol = select(ol, lambda cnd: None) if ol is not None else None
        c = f"{fkey}[olap={label}]"
        leafs = [l for _, l in pv_leaves(ol)] if ol is not None else []
        good = [l for l in leafs if isinstance(l, X) and l.eq(val)]
        bad = [l for l in leafs if isinstance(l, X) and not l.eq(val)]
        if good and not bad: ctx.holds(rule, c, "explicit overlap stored unchanged", where)
        elif bad: ctx.violated(rule, c, f"an explicitly requested overlap of {label} is replaced by {bad[0]!r}", where)
        else: ctx.unknown(rule, c, f"final_olap is {ol!r}"[:200], where)


# ---------------------------------------------------------------------------- assembled statistics are made finite on every path
DATA_STATS = ("XX", "YY", "XY", "M2")


def _finite_fn(zero):
    nm = "finite0" if zero else "finite_big"

    def fin(x):
        if x.isreal(): return mk_fn(nm, [x])
        from .symalg import I_ as IMAG
        return mk_fn(nm, [x.real()]) + X(IMAG) * mk_fn(nm, [x.imag()])      # numpy cleans the two components separately
    return fin


def _content(L, st):
    """element j of a local array as seen through all its stores (conditional stores give a decision tree)."""
    if not isinstance(L, LocalArr): return as_arr(L) if isinstance(L, (Arr, ArrParam)) else None
    if len(L.shape) != 1: return local_to_arr(L, st)
    j = fresh("j")
    v = lm.read_local(L, [X.var(j)], st)
    return Arr([(j, L.shape[0])], v)


def _is_zero(v):
    x = to_x(v) if v is not None and not is_opaque(v) else None
    return x is not None and x.iszero()


def sanitising_lib(base):
    """np.nan_to_num as the elementwise function finite0 (idempotent, identity on finite values); in place when copy=False.
    np.isfinite as an elementwise predicate, so that `np.isfinite(a).all()` is a condition about a's current content."""
    def lib(I, name, args, kw, st, n):
        if name == "numpy.nan_to_num" and args:
            a = args[0]
            fin = _finite_fn(all(_is_zero(kw.get(k)) for k in ("nan", "posinf", "neginf")))
            if isinstance(a, LocalArr):
                A = _content(a, st)
                if A is None or is_opaque(A): return Opaque("nan_to_num of a partially defined array")
                B = lift1(fin, A)
                if kw.get("copy") is False:
                    ext = tuple(("under", e[0], e[1]) for e in getattr(st, "under", []) if len(e) < 3 or e[2] is None or a.ident in e[2])
                    a.stores.append((tuple(B.axes), tuple(X.var(v) for v, _ in B.axes), B.body) + ext)
                    return a
                return B
            return lift1(fin, a)
        if name == "numpy.isfinite" and args:
            a = args[0]
            A = _content(a, st) if isinstance(a, LocalArr) else a
            if A is None: return Opaque("isfinite of a partially defined array")

            def fin_test(x):
                c = Cond.get(("finite", x.keystr()), f"isfinite({x!r})"[:100]); c.finite_elem = x
                return PV(c, True, False)
            return lift1(fin_test, A)
        return base(I, name, args, kw, st, n)
    return lib


def _strip_finite(x):
    """(x with every finite0(...) replaced by a fresh symbol, names of raw kernel outputs left outside any finite0)."""
    y = x.map_atoms(lambda a: X.var("_finite") if a.tag == "fn" and a.name == "finite0" else X.atom(a))
    raw = sorted({a.name for a in y.all_atoms() if a.tag == "fn" and (a.name.startswith("OUT_") or a.name == "finite_big")})
    return y, raw


def _proven_finite(path, leaf, jvar):
    """the path contains isfinite(E) taken true for this very element, or `all(isfinite(E'))` taken true for an array whose element is this leaf."""
    tested = [getattr(c_, "finite_elem", None) for c_, p_ in path if p_ and getattr(c_, "finite_elem", None) is not None]
    if tested:
        # a value built (by sums / products with finite coefficients) from quantities each of which was tested finite on this path
        y = leaf.map_atoms(lambda a: X.var("_finite") if a.tag == "fn" and a.name == "finite0" else X.atom(a))
        raw = [a for a in y.all_atoms() if a.tag == "fn" and (a.name.startswith("OUT_") or a.name == "finite_big")]
        if raw and all(any(t.eq(X.atom(a)) for t in tested) for a in raw): return True
    for cond, pol in path:
        if not pol: continue
        fo = getattr(cond, "finite_elem", None)
        if fo is not None and fo.eq(leaf): return True
        A = getattr(cond, "all_of", None)
        if A is None or A.ndim != 1: continue
        b = A.body
        if not (isinstance(b, PV) and b.hi is True and b.lo is False and getattr(b.cond, "finite_elem", None) is not None): continue
        if b.cond.finite_elem.eq(leaf.subst({jvar: X.var(A.axes[0][0])})): return True
    return False


def check_statistics_finite(ctx, rule="R8-statistics-made-finite"):
    """every data-dependent statistic handed to the result (XX, YY, XY, M2: sums of squares that overflow to inf for huge finite samples)
    has passed through np.nan_to_num(nan=0, posinf=0, neginf=0), or was tested all-finite, on every path of compute()."""
    setup()
    repo = ctx.repo
    fkey = AN + ".compute"; fn = repo.get(fkey); ctx.analysed(fkey)
    where = repo.where(fkey, fn)
    n_ob = 0
    for iscsd in (True, False):
        R = Run(repo, "numba")
        plan = plan_obj()
        me = analyzer_obj(0, iscsd, True, plan)
        old = R._call

        def call2(I_, f, args, kwargs, st, node, old=old, plan=plan):
            if f.key == AN + ".plan": return plan
            return old(I_, f, args, kwargs, st, node)
        R.I.hooks["call"] = call2
        R.I.hooks["lib"] = sanitising_lib(window_lib)
        mode = "cross" if iscsd else "auto"
        try:
            R.I.call_func(Func(fkey, fn), [me], {}, St(), None)
        except Unknown as ex:
            ctx.unknown(rule, f"{fkey}[{mode}]", str(ex), where); continue
        if len(R.made) != 1 or not R.made[0][1] or not isinstance(R.made[0][1][0], DictVal):
            ctx.unknown(rule, f"{fkey}[{mode}]", "SpectrumResult construction not recognised", where); continue
        d = R.made[0][1][0].d
        for k in DATA_STATS:
            c = f"{fkey}[{mode}:{k}]"
            v = d.get(k)
            if v is None or type(v).__name__ == "_Missing" or repr(v) == "<missing>":
                ctx.unknown(rule, c, f"result field {k} missing", where); continue
            for path0, v1 in pv_leaves(v):
                A = _content(v1, St()) if isinstance(v1, (LocalArr, Arr, ArrParam)) else None
                if A is None or is_opaque(A) or A.ndim != 1:
                    ctx.unknown(rule, c, f"result field {k} not recognised: {v1!r}"[:200], where); n_ob += 1; continue
                jv = A.axes[0][0]
                bad = None; unk = None
                for path, leaf in pv_leaves(A.body):
                    x = to_x(leaf) if not is_opaque(leaf) else None
                    if x is None: unk = f"element {leaf!r}"[:160]; continue
                    y, raw = _strip_finite(x)
                    if not raw: continue
                    if _proven_finite(tuple(path0) + tuple(path), x, jv): continue
                    bad = (path_text(tuple(path0) + tuple(path)), raw); break
                n_ob += 1
                if bad:
                    ctx.violated(rule, c, f"on the path [{bad[0]}] the statistic reaches the result as the raw kernel output ({', '.join(bad[1])}) without "
                                 "np.nan_to_num(nan=0, posinf=0, neginf=0) and without a finiteness test of that array: a finite record whose segment power "
                                 "overflows gives inf/nan densities and coherence", where)
                elif unk: ctx.unknown(rule, c, unk, where)
                else: ctx.holds(rule, c, "made finite (or tested finite) on every path", where)
    ctx.need("data statistics of the assembled result", n_ob, 7)


# ---------------------------------------------------------------------------- the result object keeps every per-bin field aligned with the others
RESULT_FIELDS = ("f", "r", "b", "L", "K", "navg", "O", "i", "XX", "YY", "XY", "S12", "S2", "M2", "compute_t")


def check_result_fields_aligned(ctx, rule="R-result-fields-aligned"):
    """SpectrumResult.__init__ stores, for every per-bin field, element j of the array it was given (dtype normalisation aside) - or, on a path that
    re-orders the bins, the SAME re-ordering of every field.  A field left out of a re-ordering is misaligned with the others (XY against XX, YY: the
    coherence leaves [0, 1])."""
    from .table import CLS
    repo = ctx.repo
    key = CLS + ".__init__"; fn = repo.get(key); where = repo.where(key, fn); ctx.analysed(key)
    nf = X.var("nf"); KIND.setdefault("nf", "nat")
    from .symalg import ARRAY_KIND
    data = DictVal()
    for k in RESULT_FIELDS:
        ARRAY_KIND["in." + k] = "complex" if k == "XY" else "real"
        data.d[k] = ArrParam("in." + k, kind="complex" if k == "XY" else "real", shape=(nf,))
    I = Interp(repo)
    perms = []

    def lib(I_, name, args, kw, st, n):
        if name in ("numpy.argsort", "numpy.lexsort"):
            p_ = ArrParam(f"perm{len(perms)}", shape=(nf,)); perms.append(p_); lm.INT_ARRAYS.add(p_.name)
            return p_
        return NotImplemented
    I.hooks["lib"] = lib
    me = Obj(CLS)
    try:
        I.call_func(Func(key, fn), [me, data, DictVal({}), True, X.var("fs")], {}, St(), None)
    except Unknown as ex:
        ctx.unknown(rule, key, str(ex), where); return
    d = me.attrs.get("_data")
    if not isinstance(d, DictVal):
        ctx.unknown(rule, key, f"self._data not recognised: {d!r}"[:200], where); return
    from .values import _all_conds
    conds = []
    for k in RESULT_FIELDS:
        for c_ in (_all_conds(d.d.get(k)) if isinstance(d.d.get(k), PV) else []):
            if c_ not in conds: conds.append(c_)
    if len(conds) > 6:
        ctx.unknown(rule, key, f"{len(conds)} undecided conditions govern the stored fields", where); return
    import itertools
    n_ok = 0
    for bits in itertools.product((True, False), repeat=len(conds)):
        maps = {}; modified = {}
        for k in RESULT_FIELDS:
            v = d.d.get(k)
            for c_, b_ in zip(conds, bits): v = pv_restrict(v, c_, b_) if isinstance(v, PV) else v
            A = as_arr(v) if isinstance(v, (Arr, ArrParam)) else None
            if A is None or A.ndim != 1:
                maps[k] = None; continue
            jv = A.axes[0][0]
            if isinstance(A.body, PV):
                # an element-wise selection (np.where / masked store): every alternative must still be the constructor's own element
                for lp_, leaf in pv_leaves(A.body):
                    lx = to_x(leaf) if not isinstance(leaf, PV) and not is_opaque(leaf) and leaf is not None else None
                    same_ = lx is not None and len(lx.m) == 1 and not lx.p and lx.c == C(1) and list(lx.m)[0].tag == "idx" and list(lx.m)[0].name == "in." + k
                    if lx is not None and not same_:
                        modified.setdefault(k, f"on [{path_text(lp_)}] the stored element is {lx!r}"[:200])
            bx = to_x(A.body) if not isinstance(A.body, PV) and not is_opaque(A.body) else None
            if bx is not None and not (len(bx.m) == 1 and not bx.p and bx.c == C(1) and list(bx.m)[0].tag == "idx" and list(bx.m)[0].name == "in." + k):
                modified.setdefault(k, f"the stored element is {bx!r}"[:200])
            ix = None
            if bx is not None and len(bx.m) == 1 and not bx.p and bx.c == C(1):
                (at, e), = bx.m.items()
                if at.tag == "idx" and at.name == "in." + k and e == 1: ix = at.args[0].subst({jv: X.var("_j")})
            maps[k] = ix
        path = " & ".join((c_.text if b_ else f"not({c_.text})") for c_, b_ in zip(conds, bits)) or "always"
        unknown = [k for k, m_ in maps.items() if m_ is None]
        if modified:
            k0 = sorted(modified)[0]
            ctx.violated(rule, f"{key}[{path[:80]}][{k0}]", f"the constructor does not store the statistic {k0} it was given (shape / dtype normalisation aside): {modified[k0]} - every derived "
                         "quantity and error bar is a function of the stored statistics", where)
            continue
        if unknown:
            ctx.unknown(rule, f"{key}[{path[:80]}]", f"stored field {unknown[0]} is not an element-wise view of the constructor's array: {d.d.get(unknown[0])!r}"[:300], where); continue
        ref = maps["XX"]
        off = [k for k, m_ in maps.items() if not m_.eq(ref)]
        if off:
            ctx.violated(rule, f"{key}[{path[:80]}]", f"on the path [{path}] the bins of {', '.join(k for k in RESULT_FIELDS if k not in off)[:120]} are taken at index {ref!r} but those of "
                         f"{', '.join(off)} at {maps[off[0]]!r}: the fields of one bin no longer belong together", where)
        else:
            n_ok += 1
            ctx.holds(rule, f"{key}[{path[:80]}]", f"all {len(RESULT_FIELDS)} per-bin fields are taken at the same index ({ref!r})", where)
    ctx.need("paths of SpectrumResult.__init__ with aligned fields examined", n_ok + sum(1 for o in ctx.obs if o["rule"] == rule and o["status"] != HOLDS), 1)


# ---------------------------------------------------------------------------- the one-call convenience functions forward their arguments unchanged
def check_wrappers(ctx, rule="R12-convenience-functions-forward", probes=("olap", "psll", "win", "order")):
    """lpsd / compute_spectrum / compute_single_bin (module level) build SpectrumAnalyzer(data, fs, **kwargs) from their own arguments, call compute()
    resp. compute_single_bin(freq=freq, fres=fres, L=L) on it and return that result."""
    repo = ctx.repo
    rel = "speckit/analysis.py"
    for fname, meth, extra in (("compute_spectrum", "compute", ()), ("lpsd", "compute", ()), ("compute_single_bin", "compute_single_bin", ("freq", "fres", "L"))):
        key = f"{rel}::{fname}"
        if not repo.has(key): continue
        fn = repo.get(key); where = repo.where(key, fn); ctx.analysed(key)
        I = Interp(repo)
        made = []; called = []

        def construct(I_, f, args, kwargs, st, node, made=made, called=called):
            if f.key == AN:
                o = Obj("analyzer-instance"); made.append((list(args), dict(kwargs)))

                def hook(kind, o_, name, v, st_):
                    if kind == "call":
                        m = Obj("result-of:" + name); called.append((name, list(v[0]), dict(v[1]), m)); return m
                    return NotImplemented
                o.hook = hook
                return o
            return NotImplemented
        I.hooks["construct"] = construct
        data = ArrParam("data"); kw = DictVal({p_: X.var("kw." + p_) for p_ in probes}, open_=True)
        args = [data, X.var("fs")] + ([X.var("freq")] if extra else [])
        kws = {"**": kw}; kws.update({p_: X.var("kw." + p_) for p_ in probes})
        if extra: kws.update({"fres": X.var("fres"), "L": X.var("Lreq")})
        try:
            r = I.call_func(Func(key, fn), args, kws, St(), None)
        except Unknown as ex:
            ctx.unknown(rule, key, str(ex), where); continue
        # lpsd delegates to compute_spectrum: follow one level
        bad = None
        if len(made) != 1: bad = f"{len(made)} analyzers constructed"
        else:
            a, k = made[0]
            d_ = a[0] if a else k.get("data"); f_ = a[1] if len(a) > 1 else k.get("fs")
            if d_ is not data: bad = f"the analyzer is built from {d_!r}, not from the data argument"
            elif not (isinstance(f_, X) and f_.eq(X.var("fs"))): bad = f"the analyzer is built with fs = {f_!r}, not the fs argument"
            else:
                lost = [p_ for p_ in probes if not (isinstance(k.get(p_), X) and k[p_].eq(X.var("kw." + p_)))]
                if lost: bad = f"the keyword option(s) {', '.join(lost)} are not forwarded to the analyzer (the analysis silently runs with the defaults)"
        if bad is None:
            if len(called) != 1 or called[0][0] != meth: bad = f"calls {[c[0] for c in called]} on the analyzer, expected {meth}()"
            else:
                nm, a, k, m = called[0]
                for i_, ex_ in enumerate(extra):
                    want = X.var({"freq": "freq", "fres": "fres", "L": "Lreq"}[ex_])
                    got = k.get(ex_, a[i_] if len(a) > i_ else None)
                    if not (isinstance(got, X) and got.eq(want)): bad = f"{meth}() receives {ex_} = {got!r}, not the caller's {ex_}"; break
                if bad is None and r is not m: bad = "the value returned is not the result of that call"
        (ctx.violated if bad else ctx.holds)(rule, key, bad or f"SpectrumAnalyzer(data, fs, **kwargs).{meth}(...) with the caller's own arguments", where)
