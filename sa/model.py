"""E1 - source model: parse /repo/speckit/*.py afresh, index functions by qualified name."""
import ast
import hashlib
import os

from .report import AnalysisError


class Repo:
    def __init__(s, root):
        s.root = root
        s.pkg = os.path.join(root, "speckit")
        if not os.path.isdir(s.pkg):
            raise AnalysisError(f"package directory {s.pkg} not found")
        s.mods = {}      # 'speckit/core.py' -> ast.Module
        s.src = {}
        s.consulted = set()
        for fn in sorted(os.listdir(s.pkg)):
            if not fn.endswith(".py"): continue
            rel = "speckit/" + fn
            with open(os.path.join(s.pkg, fn), encoding="utf-8") as f:
                src = f.read()
            try:
                s.mods[rel] = ast.parse(src, filename=rel)
            except SyntaxError as ex:
                raise AnalysisError(f"cannot parse {rel}: {ex}")
            s.src[rel] = src
        s.index = {}
        for rel, mod in s.mods.items():
            s._index(rel, mod, "")

    def _index(s, rel, node, prefix):
        for ch in ast.iter_child_nodes(node):
            if isinstance(ch, (ast.FunctionDef, ast.AsyncFunctionDef, ast.ClassDef)):
                q = (prefix + "." if prefix else "") + ch.name
                s.index[f"{rel}::{q}"] = ch
                s._index(rel, ch, q)
            elif isinstance(ch, (ast.If, ast.Try, ast.With, ast.For, ast.While)):
                s._index(rel, ch, prefix)

    def has(s, key): return key in s.index

    def get(s, key):
        n = s.index.get(key)
        if n is None:
            raise AnalysisError(f"anchor {key} not found in the current source")
        s.consulted.add(key.split("::")[0])
        return n

    def module(s, rel):
        if rel not in s.mods: raise AnalysisError(f"module {rel} not found")
        s.consulted.add(rel)
        return s.mods[rel]

    def functions_in(s, rel, pred=None):
        out = []
        for k, n in s.index.items():
            if k.startswith(rel + "::") and isinstance(n, ast.FunctionDef):
                if pred is None or pred(k.split("::")[1], n): out.append((k, n))
        return out

    def where(s, key_or_rel, node):
        rel = key_or_rel.split("::")[0]
        return f"{rel}:{getattr(node, 'lineno', 0)}"

    def digest(s):
        h = hashlib.sha256()
        for rel in sorted(s.src):
            h.update(rel.encode()); h.update(s.src[rel].encode())
        return h.hexdigest()[:16]


def decorators(fn):
    """list of (dotted name, {kw: literal}) for each decorator."""
    out = []
    for d in fn.decorator_list:
        kws = {}
        f = d
        if isinstance(d, ast.Call):
            f = d.func
            for k in d.keywords:
                try: kws[k.arg] = ast.literal_eval(k.value)
                except Exception: kws[k.arg] = ast.unparse(k.value)
        out.append((ast.unparse(f), kws))
    return out


def unparse(n):
    try: return ast.unparse(n)
    except Exception: return "<?>"


def norm_stmt(n):
    """normalised statement text (key for findings; stable under reformatting)."""
    return " ".join(unparse(n).split())
