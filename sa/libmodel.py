"""E3 - library model: meaning of the NumPy / SciPy / builtin calls SpecKit uses, one
handler per documented behaviour (trusted rows, see DESIGN.md Appendix B)."""
import ast
from fractions import Fraction as Fr

from .symalg import X, Unknown, mk_fn, mk_idx, mk_sum, V, Atom, C, KIND, ARRAY_KIND, _looks_negative
from .values import *

BUILTINS = {"len", "int", "float", "range", "min", "max", "abs", "round", "sum", "zip", "enumerate",
            "isinstance", "dict", "list", "tuple", "str", "bool", "complex", "sorted", "set", "getattr",
            "callable", "print", "all", "any", "super", "type", "hasattr", "ValueError", "TypeError",
            "RuntimeError", "KeyError", "AttributeError", "NotImplementedError", "Exception", "reversed", "map", "slice", "IndexError", "ZeroDivisionError", "dir", "vars", "id", "globals", "hash"}

KIND.setdefault("pi", "pos")
KIND.setdefault("inf", "pos")


class RangeVal:
    def __init__(s, lo, hi, step):
        s.lo, s.hi, s.step = lo, hi, step

    def count(s):
        if s.step.as_int() == 1: return s.hi - s.lo
        return mk_fn("ceil", [(s.hi - s.lo) / s.step])

    def __repr__(s): return f"range({s.lo!r},{s.hi!r},{s.step!r})"


class ZipVal:
    def __init__(s, parts): s.parts = parts


class EnumVal:
    def __init__(s, inner, start=0): s.inner = inner; s.start = start


class Masked:
    """A[mask] for a boolean mask array: kept symbolic (a compaction of unknown length)."""
    _n = [0]

    _masks = {}

    def __init__(s, arr, mask):
        s.arr = arr; s.mask = mask
        Masked._n[0] += 1
        s.ident = Masked._n[0]
        s.mid = mask_id(mask)
        KIND.setdefault(f"count(mask#{s.mid})", "nat")

    @property
    def ndim(s): return 1

    def count(s): return X.var(f"count(mask#{s.mid})")

    def as_arr(s):
        v = fresh("c")
        ARRAY_KIND.setdefault(f"compact#{s.ident}", "real")
        return Arr([(v, s.count())], mk_idx(f"compact#{s.ident}", [X.var(v)]))

    def __repr__(s): return f"Masked({s.arr!r})"


def mask_id(mask):
    """one id per boolean mask array (by object, and by structure for array expressions): arrays compacted with the same
    mask have the same length."""
    try: k = ("k", repr(vkey(mask)))
    except Exception: k = ("id", id(mask))
    if k not in Masked._masks: Masked._masks[k] = len(Masked._masks) + 1
    return Masked._masks[k]


def mask_count(mask):
    mid = mask_id(mask)
    KIND.setdefault(f"count(mask#{mid})", "nat")
    return X.var(f"count(mask#{mid})")


class MaskIdx:
    """np.flatnonzero(mask): the ascending positions where a boolean mask holds."""

    def __init__(s, mask): s.mask = mask
    def __repr__(s): return "flatnonzero(mask)"


class GuardedQuot:
    pass


def const_value(v):
    if isinstance(v, bool) or v is None or isinstance(v, str): return v
    if isinstance(v, int): return X.const(v)
    if isinstance(v, float):
        if v != v or v in (float("inf"), float("-inf")): return Opaque("non-finite literal")
        return X.const(Fr(str(v)))
    if isinstance(v, complex): return X(C(Fr(str(v.real)), Fr(str(v.imag))))
    if isinstance(v, tuple): return tuple(const_value(e) for e in v)
    if isinstance(v, list): return ListVal([const_value(e) for e in v])
    if isinstance(v, dict): return DictVal({k: const_value(e) for k, e in v.items()})
    if isinstance(v, bytes): return Opaque("bytes")
    if v is Ellipsis: return Opaque("ellipsis")
    return Opaque("literal")


INT_FNS = {"nearest", "trunc", "floor", "ceil"}
INT_ARRAYS = set()     # array names holding integers (starts, indices)


def is_integer(x):
    """conservative: True when x is certainly integer-valued."""
    x = to_x(x)
    if x is None: return False
    n, d = x.rational()
    if not (d.single() and list(d.t.values())[0] == C(1) and list(d.t.keys())[0] == ()): return False
    for m, c in n.t.items():
        if c.im != 0 or c.re.denominator != 1: return False
        for a, e in m:
            if Fr(e).denominator != 1 or e < 0: return False
            if a.tag == "v" and (KIND.get(a.name) == "nat" or a.name.startswith(("i$", "t$", "k$", "it$"))): continue
            if a.tag == "fn" and a.name in INT_FNS: continue
            if a.tag == "idx" and a.name in INT_ARRAYS: continue
            return False
    return True


# ---------------------------------------------------------------------------- comparison
def _cond_lt(d, text):
    c = Cond.get(("lt", d.keystr()), text)
    c.lt = d
    return c


def _cond_eq(a, b, text):
    d = a - b
    if _looks_negative(d): d = -d; a, b = b, a
    c = Cond.get(("eq", d.keystr()), text)
    c.eq = (True, a, b)
    return c


def scal_compare(op, a, b, text):
    xa, xb = to_x(a), to_x(b)
    if xa is None or xb is None:
        if isinstance(a, (str, type(None), bool)) or isinstance(b, (str, type(None), bool)):
            if isinstance(op, ast.Eq): return a == b
            if isinstance(op, ast.NotEq): return a != b
        if isinstance(a, (Lib, Func)) and isinstance(b, (Lib, Func)):
            same = (type(a) is type(b)) and (getattr(a, "name", None) == getattr(b, "name", None)) and (getattr(a, "key", None) == getattr(b, "key", None))
            if isinstance(op, ast.Eq): return same
            if isinstance(op, ast.NotEq): return not same
        if isinstance(a, tuple) and isinstance(b, tuple) and isinstance(op, (ast.Eq, ast.NotEq)):
            ka, kb = vkey(a), vkey(b)
            if all(to_x(e) is not None and to_x(e).isconst() for e in a + b):
                return (ka == kb) if isinstance(op, ast.Eq) else (ka != kb)
        return Opaque("comparison of non-numeric values")
    try:
        d = xa - xb
    except Unknown as ex:
        return Opaque(str(ex))
    c = d.constval()
    if c is not None and c.im == 0:
        v = c.re
        return {ast.Lt: v < 0, ast.LtE: v <= 0, ast.Gt: v > 0, ast.GtE: v >= 0, ast.Eq: v == 0, ast.NotEq: v != 0}[type(op)]
    if isinstance(op, ast.Lt): return PV(_cond_lt(d, text), True, False)
    if isinstance(op, ast.Gt): return PV(_cond_lt(-d, text), True, False)
    if isinstance(op, ast.GtE): return PV(_cond_lt(d, f"not({text})"), False, True)
    if isinstance(op, ast.LtE): return PV(_cond_lt(-d, f"not({text})"), False, True)
    if isinstance(op, ast.Eq): return PV(_cond_eq(xa, xb, text), True, False)
    if isinstance(op, ast.NotEq): return PV(_cond_eq(xa, xb, f"not({text})"), False, True)
    return Opaque("comparison")


def compare(interp, op, a, b, node):
    text = " ".join(ast.unparse(node).split())
    if isinstance(op, (ast.In, ast.NotIn)):
        r = _member(a, b, text)
        if isinstance(op, ast.NotIn):
            return pv_apply(lambda x: (not x) if isinstance(x, bool) else x, r)
        return r
    if isinstance(op, (ast.Is, ast.IsNot)):
        def f(x, y):
            if (x is None and isinstance(y, OpaqueNum)) or (y is None and isinstance(x, OpaqueNum)):
                return False if isinstance(op, ast.Is) else True
            if is_opaque(x) or is_opaque(y): return Opaque("identity of opaque value")
            if x is None or y is None: r = (x is None and y is None)
            elif isinstance(x, (Lib, Func)) and isinstance(y, (Lib, Func)):
                r = scal_compare(ast.Eq(), x, y, text)
            elif isinstance(x, bool) or isinstance(y, bool): r = x is y
            else: return Opaque("identity")
            return r if isinstance(op, ast.Is) else (not r)
        return pv_apply(f, a, b)
    if is_opaque(a): return a
    if is_opaque(b): return b
    if isinstance(a, tuple) and isinstance(b, tuple) and isinstance(op, (ast.Eq, ast.NotEq)) and all(isinstance(e, X) for e in a + b):
        # shapes: tuples of (symbolic) extents compare element-wise
        if len(a) != len(b): r = False
        else:
            r = True
            for x, y in zip(a, b):
                e = scal_compare(ast.Eq(), x, y, text)
                if e is False: r = False; break
                if e is not True: r = None
            if r is None: return Opaque("comparison of shapes")
        return r if isinstance(op, ast.Eq) else (not r)
    if isinstance(a, Masked): a = a.as_arr()
    if isinstance(b, Masked): b = b.as_arr()
    if isinstance(a, PV) or isinstance(b, PV):
        def leafcmp(x, y):
            if is_opaque(x): return x
            if is_opaque(y): return y
            if isinstance(x, (Arr, ArrParam)) or isinstance(y, (Arr, ArrParam)): return compare(interp, op, x, y, node)
            return scal_compare(op, x, y, text)
        return pv_apply(leafcmp, a, b)
    if isinstance(a, (Arr, ArrParam)) or isinstance(b, (Arr, ArrParam)):
        A = as_arr(a); B = as_arr(b)
        base = arr_op2("-", a, b)
        if is_opaque(base): return base
        zero = X.const(0)
        return Arr(base.axes, pv_apply(lambda d: d if is_opaque(d) else scal_compare(op, d, zero, text), base.body))
    return pv_apply(lambda x, y: x if is_opaque(x) else y if is_opaque(y) else scal_compare(op, x, y, text), a, b)


def dkey(v):
    """dictionary key for a (possibly symbolic) value; None if not usable as a key."""
    if isinstance(v, (str, bool)) or v is None: return v
    if isinstance(v, int): return v
    if isinstance(v, X):
        k = v.as_int()
        return k if k is not None else ("sym", v.keystr())
    if isinstance(v, tuple):
        ks = tuple(dkey(e) for e in v)
        return None if any(k is None and e is not None for k, e in zip(ks, v)) else ks
    if isinstance(v, (Lib,)): return ("lib", v.name)
    if isinstance(v, Func): return ("func", v.key)
    if isinstance(v, PV): return ("pv", repr(vkey(v)))
    return None


def _member(a, b, text):
    if is_opaque(a): return a
    if isinstance(b, DictVal):
        k = dkey(a)
        if k is None: return Opaque("dict membership of an unhashable abstract value")
        if k in b.d:
            v = b.d[k]
            if isinstance(v, PV): return pv_apply(lambda x: not (x.__class__.__name__ == "_Missing"), v)
            return True
        if b.open: return Opaque("open dict membership")
        # a dictionary filled under symbolic keys (out[i] = ... in a loop): whether another symbolic key is among them is not decided here
        if any(isinstance(k2, tuple) and k2 and k2[0] in ("sym", "pv") for k2 in b.d) and isinstance(k, tuple) and k and k[0] in ("sym", "pv"):
            return Opaque("membership of a symbolic key in a dictionary filled under symbolic keys")
        return False
    if isinstance(b, Obj):
        h = getattr(b, "hook", None)
        if h:
            r = h("contains", b, a, None, None)
            if r is not NotImplemented: return r
        return Opaque("membership in object")
    seq = None
    if isinstance(b, (tuple, list)): seq = list(b)
    elif isinstance(b, ListVal) and not b.per_iter: seq = b.items
    elif isinstance(b, str) and isinstance(a, str): return a in b
    if seq is None: return Opaque("membership in " + type(b).__name__)
    res = False
    for e in reversed(seq):
        r = pv_apply(lambda x, e=e: scal_compare(ast.Eq(), x, e, text), a)
        res = pv_apply(lambda r1, rest: True if r1 is True else rest if r1 is False else r1 if is_opaque(r1) else
                       (Opaque("membership chain") if is_opaque(rest) else mk_pv_bool(r1, rest)), r, res)
    return res


def mk_pv_bool(r1, rest):
    # r1 is a PV(cond, True, False) style tree
    if isinstance(r1, PV):
        return mk_pv(r1.cond, mk_pv_bool(r1.hi, rest) if not isinstance(r1.hi, bool) else (True if r1.hi else rest),
                     mk_pv_bool(r1.lo, rest) if not isinstance(r1.lo, bool) else (True if r1.lo else rest))
    return True if r1 is True else rest


# ---------------------------------------------------------------------------- attributes
NP_CONST = {"numpy.pi": "pi", "math.pi": "pi", "numpy.inf": "inf", "math.inf": "inf"}


def get_attr(interp, o, attr, st, node):
    if is_opaque(o): return type(o)(o.why + "." + attr)
    if type(o).__name__ == "QROf" and attr == "T":
        return ("QT", o)
    if isinstance(o, PV):
        return pv_apply(lambda x: get_attr(interp, x, attr, st, node), o)
    if isinstance(o, Lib):
        nm = canon(o.name + "." + attr)
        if nm in NP_CONST: return X.var(NP_CONST[nm])
        if nm == "numpy.newaxis": return None
        return Lib(nm)
    if isinstance(o, Obj):
        h = getattr(o, "hook", None)
        if attr in o.attrs: return o.attrs[attr]
        if h:
            r = h("getattr", o, attr, None, st)
            if r is not NotImplemented: return r
        if o.cls and interp.repo.has(o.cls):
            m = interp.find_method(o.cls, attr)
            if m is not None:
                fnode = interp.repo.index[m]
                if any(ast.unparse(d) == "property" for d in fnode.decorator_list):
                    return interp.call_func(Func(m, fnode), [o], {}, st, node)
                return BoundMethod(o, attr)
        if o.cls == "super" or not (o.cls and interp.repo.has(o.cls)):
            return BoundMethod(o, attr)       # foreign object: let the method model decide
        return Opaque(f"attribute {attr}")
    if isinstance(o, (Arr, ArrParam, LocalArr, Masked)):
        if attr == "shape":
            if isinstance(o, Masked): return (o.count(),)
            if isinstance(o, ArrParam): return tuple(o.shape(k) for k in range(o.ndim))
            if isinstance(o, LocalArr): return tuple(o.shape)
            if isinstance(o, Arr): return tuple(c for _, c in o.axes)
        if attr == "size":
            sh = get_attr(interp, o, "shape", st, node)
            if isinstance(sh, tuple):
                r = X.const(1)
                for c in sh: r = r * c
                return r
        if attr == "ndim": return X.const(o.ndim if not isinstance(o, LocalArr) else len(o.shape))
        if attr == "flat" and (o.ndim if not isinstance(o, LocalArr) else len(o.shape)) == 1: return o
        if attr == "T":
            if isinstance(o, LocalArr):
                A_ = local_to_arr(o)
                return arr_transpose(A_) if A_ is not None and not is_opaque(A_) else Opaque("T of a partially filled local array")
            return arr_transpose(o)
        if attr in ("real", "imag"):
            A = local_to_arr(o, st) if isinstance(o, LocalArr) else as_arr(o)
            if A is None or is_opaque(A): return Opaque("real/imag of local array")
            return lift1((lambda x: x.real()) if attr == "real" else (lambda x: x.imag()), A)
        if attr == "dtype": return Lib("dtype.of")
        return BoundMethod(o, attr)
    if isinstance(o, X):
        if attr == "real": return lift1(lambda x: x.real(), o)
        if attr == "imag": return lift1(lambda x: x.imag(), o)
        if attr == "size": return X.const(1)
        if attr == "ndim": return X.const(0)
        if attr == "shape": return ()
        return BoundMethod(o, attr)
    if isinstance(o, (str, DictVal, ListVal, tuple)):
        return BoundMethod(o, attr)
    if isinstance(o, Func):
        if attr == "__name__": return o.key.split("::")[-1].split(".")[-1]
        return Opaque("function attribute")
    if isinstance(o, BoundMethod):
        return Opaque("method attribute")
    return Opaque(f"attribute {attr} of {type(o).__name__}")


ALIASES = {"numpy.lib.stride_tricks": "numpy.lib.stride_tricks"}


def canon(name):
    name = name.replace("scipy.signal.windows.kaiser", "scipy.signal.windows.kaiser")
    if name.startswith("np."): name = "numpy." + name[3:]
    return name


# ---------------------------------------------------------------------------- subscripts
def _norm_index(interp, node, st):
    sl = node.slice
    if isinstance(sl, ast.Tuple):
        return tuple(interp.eval(e, st) for e in sl.elts)
    return (interp.eval(sl, st),)


def get_subscript(interp, o, node, st):
    if is_opaque(o): return type(o)(o.why + "[...]")
    if isinstance(o, PV):
        return pv_apply(lambda x: get_subscript(interp, x, node, st), o)
    idx = _norm_index(interp, node, st)
    return subscript_value(interp, o, idx, st)


def subscript_value(interp, o, idx, st):
    if any(is_opaque(i) for i in idx): return Opaque("opaque index")
    if isinstance(o, (tuple, list)):
        i = idx[0]
        if isinstance(i, tuple) and i and i[0] == "slice":
            lo = to_x(i[1]).as_int() if i[1] is not None else None
            hi = to_x(i[2]).as_int() if i[2] is not None else None
            return tuple(o[lo:hi])
        k = to_x(i).as_int() if to_x(i) is not None else None
        if k is None: return Opaque("symbolic index into tuple")
        try: return o[k]
        except IndexError: return Mismatch(f"IndexError: index {k} into a sequence of {len(o)} elements")
    if isinstance(o, ListVal):
        i = idx[0]
        if isinstance(i, tuple) and i and i[0] == "slice":
            if o.per_iter: return Opaque("slice of generated list")
            lo = to_x(i[1]).as_int() if i[1] is not None else None
            hi = to_x(i[2]).as_int() if i[2] is not None else None
            return ListVal(o.items[lo:hi])
        xi = to_x(i)
        if xi is None: return Opaque("list index")
        # element written symbolically earlier (L_arr[j] = v): the latest matching store wins
        for rec in reversed(getattr(o, "sym_stores", [])):
            if len(rec) == 2:
                si, sv = rec
                if isinstance(si, X) and si.eq(xi): return sv
            elif len(rec) == 4:
                sv_, sc_, si, sv = rec
                if isinstance(si, X) and si.eq(X.var(sv_)): return subst_val(sv, {sv_: xi})
        tr = getattr(o, "trial", None)
        if tr and not tr[2] and len(o.items) == tr[1] + 1 and (xi - tr[1]).eq(X.var(tr[0])):
            return o.items[tr[1]]      # the element appended in the current (summarised) iteration
        k = xi.as_int()
        if k is not None and not o.per_iter:
            try: return o.items[k]
            except IndexError: return Mismatch(f"IndexError: index {k} into a list of {len(o.items)} elements")
        if o.per_iter and not o.items and len(o.per_iter) == 1 and isinstance(o.per_iter[0], tuple):
            var, count, val = o.per_iter[0][:3]
            ov = getattr(o, "overrides", None)
            if ov:
                for (ovar, oval) in reversed(ov):
                    return subst_val(oval, {ovar: xi})
            return subst_val(val, {var: xi})
        return Opaque("symbolic index into list")
    if isinstance(o, DictVal):
        k = dkey(idx[0] if len(idx) == 1 else tuple(idx))
        if k is not None and k in o.d: return o.d[k]
        if isinstance(k, str) and not o.open and o.d and all(isinstance(k_, str) for k_ in o.d):
            # a closed dictionary of named entries: a name that was never stored raises KeyError on this path
            return Mismatch(f"KeyError: {k!r} is never stored in this dictionary (keys: {', '.join(sorted(o.d)[:12])}{'...' if len(o.d) > 12 else ''})")
        return Opaque(f"dict key {k!r}")
    if isinstance(o, Obj):
        h = getattr(o, "hook", None)
        if h:
            r = h("getitem", o, idx[0], None, st)
            if r is not NotImplemented: return r
        return Opaque("object subscript")
    if isinstance(o, LocalArr):
        return read_local(o, idx, st)
    if isinstance(o, ArrParam):
        if len(idx) == o.ndim and all(to_x(i) is not None for i in idx):
            xs = []
            for k_, i in enumerate(idx):
                xi = to_x(i); c_ = xi.constval()
                if c_ is not None and c_.im == 0 and c_.re < 0: xi = xi + o.shape(k_)      # negative index counts from the end
                xs.append(xi)
            return mk_idx(o.name, xs, o.kind)
        return arr_getitem(o.as_arr(), idx)
    if isinstance(o, Arr):
        return arr_getitem(o, idx)
    if isinstance(o, str):
        return Opaque("string index")
    if isinstance(o, Lib) and o.name.startswith("typing"):
        return o
    if isinstance(o, Func):
        # CUDA launch configuration: kernel[blocks, threads]
        return CudaLaunch(o, idx)
    if type(o).__name__ == "QROf":
        # Q[:, :k] keeps the leading k columns of the orthonormal factor
        if len(idx) == 2 and isinstance(idx[0], tuple) and idx[0][0] == "slice" and idx[0][1] is None and idx[0][2] is None \
                and isinstance(idx[1], tuple) and idx[1][0] == "slice" and idx[1][1] is None and idx[1][3] is None:
            k = to_x(idx[1][2]) if idx[1][2] is not None else None
            r = type(o)(o.V, o.mode); r.cols = k
            return r
        return Opaque("subscript of the QR factor")
    return Opaque(f"subscript of {type(o).__name__}")


class CudaLaunch:
    def __init__(s, fn, cfg): s.fn = fn; s.cfg = cfg


def arr_getitem(A, idx):
    axes_in = list(A.axes)
    out_axes = []; mapping = {}
    pos = 0
    fancy = None
    for i in idx:
        if i is None:
            out_axes.append((fresh("k"), X.const(1))); continue
        if pos >= len(axes_in): return Opaque("too many indices")
        v, c = axes_in[pos]; pos += 1
        if isinstance(i, tuple) and i and i[0] == "slice":
            lo, hi, step = i[1], i[2], i[3]
            stp = to_x(step).as_int() if step is not None else 1
            if stp is None and step is not None and to_x(step) is not None and lo is None and hi is None and not isinstance(step, PV):
                # a[::s] with a symbolic positive stride: every s-th element, ceil(len/s) of them
                sx = to_x(step)
                nv = fresh("t")
                mapping[v] = sx * X.var(nv); out_axes.append((nv, mk_fn("ceil", [c / sx])))
                continue
            if stp not in (1, -1) or any(isinstance(z, PV) for z in (lo, hi)):
                return Opaque("strided slice")
            if any(z is not None and to_x(z) is None for z in (lo, hi)):
                return Opaque(f"slice bound {lo!r}:{hi!r}")
            if stp == 1:
                lo = X.const(0) if lo is None else _wrap(to_x(lo), c)
                hi = c if hi is None else _wrap(to_x(hi), c)
                # numpy clamps slice bounds to the axis: a[lo:hi] with hi beyond the end stops at the end
                if hi.as_int() is not None and c.as_int() is not None and hi.as_int() > c.as_int(): hi = c
                if lo.as_int() is not None and c.as_int() is not None and lo.as_int() > c.as_int(): lo = c
                nv = fresh("t")
                mapping[v] = lo + X.var(nv); out_axes.append((nv, hi - lo))
            else:
                lo = (c - 1) if lo is None else _wrap(to_x(lo), c)
                hi = X.const(-1) if hi is None else _wrap(to_x(hi), c)
                nv = fresh("t")
                mapping[v] = lo - X.var(nv); out_axes.append((nv, lo - hi))
            continue
        if isinstance(i, (ListVal, list)) or (isinstance(i, tuple) and not (i and i[0] == "slice")):
            from .absint import _concrete_seq
            pos_ = _concrete_seq(i)
            if pos_ is None or not all(to_x(p_) is not None and to_x(p_).constval() is not None for p_ in pos_): return Opaque("fancy index list")
            kv = fresh("k"); bodyk = None
            for k_ in range(len(pos_) - 1, -1, -1):
                xi_ = _wrap(to_x(pos_[k_]), c)
                bodyk = xi_ if bodyk is None else mk_pv(_cond_eq(X.var(kv), X.const(k_), f"{kv}=={k_}"), xi_, bodyk)
            fancy = (v, Arr([(kv, X.const(len(pos_)))], bodyk)); continue
        if isinstance(i, (Arr, ArrParam)):
            I = as_arr(i)
            if isinstance(I.body, PV) or (isinstance(I.body, bool)):
                return Masked(A, I)
            fancy = (v, I); continue
        xi = to_x(i)
        if xi is None: return Opaque("index type " + type(i).__name__)
        mapping[v] = _wrap(xi, c)
    for v, c in axes_in[pos:]:
        out_axes.append((v, c))
    body = subst_val(A.body, mapping) if mapping else A.body
    if fancy is not None:
        v, I = fancy
        body = pv_apply(lambda ib: subst_val(body, {v: ib}) if isinstance(ib, X) else Opaque("fancy index"), I.body)
        out_axes = list(I.axes) + out_axes
    if not out_axes: return body
    return Arr(out_axes, body)


def _wrap(xi, count):
    """negative constant indices count from the end."""
    k = xi.as_int()
    if k is not None and k < 0: return count + xi
    return xi


def read_local(L, idx, st):
    """value of local array element L[idx]: last matching store wins."""
    if len(idx) != len(L.shape) and not (len(idx) == 1 and len(L.shape) == 1):
        return Opaque("rank mismatch on local array read")
    xs = []
    for i in idx:
        if isinstance(i, tuple): return local_to_arr_slice(L, idx, st)
        x = to_x(i)
        if x is None: return Opaque("local array index")
        xs.append(x)
    def older(k):
        """value seen through the stores 0..k-1 (last matching store wins; a store made under a condition only wins when it holds)."""
        for j in range(k - 1, -1, -1):
            rec = L.stores[j]
            if rec[0] == "opaque": return rec[1]
            binders, sidx, val = rec[0], rec[1], rec[2]
            m = match_store(binders, sidx, xs, st)
            if m is False: continue
            if m is None: return Opaque("cannot decide whether a store aliases the read")
            v = val if m is True else subst_val(val, m)
            conds = [e for e in rec[3:] if isinstance(e, tuple) and e and e[0] == "under"]
            if conds:
                rest = older(j)
                for _, c_, p_ in conds:
                    v = mk_pv(c_, v, rest) if p_ else mk_pv(c_, rest, v)
            return v
        if L.fill is not None: return L.fill
        return Opaque(f"read of unset element of {L.name}")
    return older(len(L.stores))


def match_store(binders, sidx, xs, st):
    """True (exact same index), False (provably different), dict (substitution for binders), None (undecidable)."""
    if len(sidx) != len(xs): return None
    sub = {}
    bnames = [b[0] for b in binders]
    for si, xi in zip(sidx, xs):
        bs = [b for b in bnames if b in si.fv() and b not in sub]
        if not bs:
            d = (si.subst(sub) if sub else si) - xi
            c = d.constval()
            if c is None: return None
            if not c.iszero(): return False
            continue
        if len(bs) > 1: return None
        b = bs[0]
        # si = a + s*b  with a free of b, s constant
        a = si.subst({b: X.const(0)})
        sl = si.subst({b: X.const(1)}) - a
        if not (a + sl * X.var(b)).eq(si) or b in a.fv(): return None
        k = sl.constval()
        if k is None or k.iszero(): return None
        sub[b] = (xi - a) / sl
    # range check (conservative): the solved binder value must be an index variable with a known range
    for b in binders:
        nm, cnt = b[0], b[1]
        if nm not in sub: continue
        val = sub[nm]
        ok = None
        if len(val.m) == 1 and not val.p and val.c == C(1):
            (at, e), = val.m.items()
            if e == 1 and at.tag == "v" and at.name in st.ranges:
                lo, c2 = st.ranges[at.name]
                d = cnt - (lo + c2)
                dc = d.constval(); lc = lo.constval()
                if dc is not None and dc.re >= 0 and lc is not None and lc.re >= 0: ok = True
        if ok is None:
            c = val.constval()
            cc = cnt.constval()
            if c is not None and cc is not None:
                ok = (0 <= c.re < cc.re)
                if not ok: return False
        if ok is None:
            # symbolic index with unknown range: accept, recording the in-range assumption
            st.events.append(("assume-in-range", nm, repr(val), repr(cnt)))
    return sub


Mism = Mismatch
from .values import local_to_arr  # noqa


def canon_minmax(name, xs):
    cs = [x.constval() for x in xs]
    if all(c is not None and c.im == 0 for c in cs):
        return X.const((min if name == "min" else max)(c.re for c in cs))
    uniq = {}
    for x in xs: uniq[x.keystr()] = x
    # absorption: min(max(a, b), b) = b and max(min(a, b), b) = b
    other = "max" if name == "min" else "min"
    for k, x in list(uniq.items()):
        ats = list(x.atoms()) if len(x.m) == 1 and not x.p and x.c == C(1) else []
        if len(ats) == 1 and ats[0].tag == "fn" and ats[0].name == other and x.eq(X.atom(ats[0])):
            if any(isinstance(g, X) and g.keystr() in uniq and g.keystr() != k for g in ats[0].args):
                del uniq[k]
    xs = [uniq[k] for k in sorted(uniq)]
    if len(xs) == 1: return xs[0]
    # sign: max(.., c) with c > 0 is positive; min of positives is positive
    from .values import _pos_x
    def pos(x):
        c = x.constval()
        if c is not None: return c.im == 0 and c.re > 0
        try: return _pos_x(x)
        except Exception: return False
    def nonneg_const(x):
        c = x.constval()
        return c is not None and c.im == 0 and c.re >= 0
    # (max(x, 0) is only non-negative; it is given the root-friendly kind as well: 0**q is defined for q > 0)
    kind = "pos" if ((name == "max" and any(pos(x) or nonneg_const(x) for x in xs)) or (name == "min" and all(pos(x) for x in xs))) else None
    return mk_fn(name, xs, kind)


def local_to_arr_slice(L, idx, st):
    A = local_to_arr(L, st)
    if A is None or is_opaque(A): return Opaque("slice of partially filled local array")
    return arr_getitem(A, idx)


def _store_local(interp, o, t, v, st, aug, idx):
    st.events.append(("store", o.ident, o.name, idx, t))
    if any(is_opaque(i) for i in idx):
        o.stores.append(("opaque", Opaque("store at opaque index"))); return
    if all(to_x(i) is not None for i in idx):
        o.stores.append(((), tuple(to_x(i) for i in idx), v)); return
    # block of rows  a[lo:hi] = M  of a 2-D array with concrete bounds: one row store per row
    if len(idx) == 1 and len(o.shape) == 2 and isinstance(idx[0], tuple) and idx[0][0] == "slice" and idx[0][3] is None and o.shape[0].as_int() is not None:
        R_ = o.shape[0].as_int()
        lo_ = 0 if idx[0][1] is None else (to_x(idx[0][1]).as_int() if to_x(idx[0][1]) is not None else None)
        hi_ = R_ if idx[0][2] is None else (to_x(idx[0][2]).as_int() if to_x(idx[0][2]) is not None else None)
        V_ = (as_arr(v) if not isinstance(v, LocalArr) else local_to_arr(v)) if isinstance(v, (Arr, ArrParam, LocalArr)) else None
        if lo_ is not None and hi_ is not None and V_ is not None and not is_opaque(V_):
            if lo_ < 0: lo_ += R_
            if hi_ < 0: hi_ += R_
            lo_, hi_ = max(0, min(lo_, R_)), max(0, min(hi_, R_))
            nrows = max(0, hi_ - lo_)
            if V_.ndim == 2 and V_.axes[0][1].as_int() in (nrows, 1):
                for r_ in range(nrows):
                    row = arr_index(V_, X.const(r_ if V_.axes[0][1].as_int() == nrows else 0))
                    o.stores.append(((), (X.const(lo_ + r_),), row))
                return
            if V_.ndim == 2 and V_.axes[0][1].as_int() is not None:
                o.stores.append(("opaque", Mism(f"block store of {V_.axes[0][1]!r} rows into a slot of {nrows} rows"))); return
            if V_.ndim == 1:
                for r_ in range(nrows): o.stores.append(((), (X.const(lo_ + r_),), V_))
                return
    # slice store
    if len(idx) == 1 and isinstance(idx[0], tuple) and idx[0][0] == "slice":
        lo, hi, step = idx[0][1:]
        if step is not None:
            o.stores.append(("opaque", Opaque("strided slice store"))); return
        lo = X.const(0) if lo is None else to_x(lo)
        hi = o.shape[0] if hi is None else to_x(hi)
        V_ = as_arr(v) if not isinstance(v, LocalArr) else local_to_arr(v)
        tv = fresh("t")
        if V_ is None:
            o.stores.append((((tv, hi - lo),), (lo + X.var(tv),), v)); return
        if V_.ndim != 1:
            o.stores.append(("opaque", Opaque("slice store of non 1-D value"))); return
        (vv, vc), = V_.axes
        if not vc.eq(hi - lo) and not (isinstance(vc, X) and vc.as_int() == 1):
            o.stores.append((((tv, hi - lo),), (lo + X.var(tv),), Mism(f"slice store length {vc!r} into slot of length {(hi - lo)!r}"))); return
        o.stores.append((((tv, hi - lo),), (lo + X.var(tv),), subst_val(V_.body, {vv: X.var(tv)})))
        return
    # block of rows  a[lo:hi] = M  of a 2-D array with concrete bounds: one row store per row
    if len(idx) == 1 and len(o.shape) == 2 and isinstance(idx[0], tuple) and idx[0][0] == "slice" and idx[0][3] is None:
        pass
    # whole-column store  a[:, k] = v  of a 2-D array (v a length-rows vector or a scalar)
    if len(idx) == 2 and len(o.shape) == 2 and isinstance(idx[0], tuple) and idx[0][0] == "slice" and idx[0][1] is None and idx[0][2] is None and idx[0][3] is None \
            and to_x(idx[1]) is not None and to_x(idx[1]).as_int() is not None:
        rows = o.shape[0]
        V_ = (as_arr(v) if not isinstance(v, LocalArr) else local_to_arr(v)) if isinstance(v, (Arr, ArrParam, LocalArr)) else None
        rv = fresh("r")
        if V_ is None and to_x(v) is not None:
            o.stores.append((((rv, rows),), (X.var(rv), to_x(idx[1])), to_x(v))); return
        if V_ is not None and not is_opaque(V_) and V_.ndim == 1:
            (vv, vc), = V_.axes
            if not vc.eq(rows): o.stores.append((((rv, rows),), (X.var(rv), to_x(idx[1])), Mism(f"column store of length {vc!r} into {rows!r} rows"))); return
            o.stores.append((((rv, rows),), (X.var(rv), to_x(idx[1])), subst_val(V_.body, {vv: X.var(rv)}))); return
    o.stores.append(("opaque", Opaque("unsupported store")))
    return


def store_subscript(interp, o, t, v, st, aug):
    idx = _norm_index(interp, t, st)
    # write through a basic-slice view of a named array:  A[lo:hi][mask] = v
    if isinstance(t.value, ast.Subscript) and isinstance(t.value.value, ast.Name) and isinstance(t.value.slice, ast.Slice) and len(idx) == 1 and isinstance(idx[0], Arr):
        base = interp.eval(t.value.value, st)
        if isinstance(base, LocalArr) and not base.stores and base.fill is not None: base = local_to_arr(base)
        B = as_arr(base) if isinstance(base, (Arr, ArrParam)) else None
        sl = interp.eval(t.value.slice, st)
        if B is not None and B.ndim == 1 and sl[3] is None and not any(isinstance(z, PV) for z in sl[1:3]):
            (bv, bc), = B.axes
            lo = X.const(0) if sl[1] is None else _wrap(to_x(sl[1]), bc)
            hi = bc if sl[2] is None else _wrap(to_x(sl[2]), bc)
            M = idx[0]
            (mv, mc), = M.axes
            mb = subst_val(M.body, {mv: X.var(bv) - lo})
            c1 = scal_compare(ast.Lt(), X.var(bv) - lo, X.const(0), "below view")
            c2 = scal_compare(ast.Lt(), X.var(bv) - hi, X.const(0), "inside view")
            newv = v if not isinstance(v, (Arr, ArrParam, Masked)) else Opaque("array stored through a masked view")
            res = pv_apply(lambda a_, b_, m_, old: ((newv if m_ is True else old) if (a_ is False and b_ is True) else old)
                           if isinstance(a_, bool) and isinstance(b_, bool) and isinstance(m_, bool) else Opaque("view test"), c1, c2, mb, B.body)
            st.env[t.value.value.id] = Arr(B.axes, res)
            return
    if isinstance(o, DictVal):
        k = dkey(idx[0] if len(idx) == 1 else tuple(idx))
        if k is not None: o.d[k] = v
        else: o.open = True
        return
    if isinstance(o, Obj):
        h = getattr(o, "hook", None)
        if h: h("setitem", o, idx[0], v, st)
        return
    if isinstance(o, LocalArr) and isinstance(t.value, ast.Name) and len(idx) == 1 and isinstance(idx[0], (Arr,)):
        # boolean-mask store into a local array that is completely defined (zeros/ones, or filled element by element in a loop)
        A_ = local_to_arr(o) if (o.stores or o.fill is not None) else None
        if (A_ is None or is_opaque(A_)) and o.stores: A_ = local_to_arr(o, st)
        M_ = idx[0]
        if M_.ndim == 1 and len(o.shape) == 1 and isinstance(M_.body, X) and M_.body.eq(X.var(M_.axes[0][0])) and M_.axes[0][1].eq(o.shape[0]) and not aug:
            # a[idx] = v with idx = 0, 1, ..., n-1 (the identity permutation): every element is stored, element i from v[i]
            V_ = local_to_arr(v, st) if isinstance(v, LocalArr) else (as_arr(v) if isinstance(v, (Arr, ArrParam)) else None)
            (mv, mc), = M_.axes
            if V_ is not None and not is_opaque(V_) and V_.ndim == 1 and V_.axes[0][1].eq(mc): val_ = subst_val(V_.body, {V_.axes[0][0]: X.var(mv)})
            elif V_ is None and to_x(v) is not None: val_ = v
            else: val_ = Opaque("fancy store of an unrecognised value")
            ext = tuple(("under", e_[0], e_[1]) for e_ in getattr(st, "under", []) if len(e_) < 3 or e_[2] is None or o.ident in e_[2])
            o.stores.append((((mv, mc),), (X.var(mv),), val_) + ext)
            return
        if A_ is not None and not is_opaque(A_) and A_.ndim == 1 and M_.ndim == 1 and not isinstance(v, (Arr, ArrParam, Masked, LocalArr)) and not aug:
            # in place: the array object itself (which callers and other names may share) receives  a[i] = v where mask[i] else a[i]
            (av, ac), = A_.axes; (mv, mc), = M_.axes
            mb = subst_val(M_.body, {mv: X.var(av)})
            body = pv_apply(lambda m, new, old: new if m is True else old if m is False else Opaque("mask"), mb, v, A_.body)
            ext = tuple(("under", e_[0], e_[1]) for e_ in getattr(st, "under", []) if len(e_) < 3 or e_[2] is None or o.ident in e_[2])
            o.stores.append((((av, ac),), (X.var(av),), body) + ext)
            return
        if A_ is not None and not is_opaque(A_): o = A_
    if isinstance(o, LocalArr) and getattr(st, "under", None):
        n0_ = len(o.stores)
        _store_local(interp, o, t, v, st, aug, idx)
        ext = tuple(("under", e_[0], e_[1]) for e_ in st.under if len(e_) < 3 or e_[2] is None or o.ident in e_[2])
        for k_ in range(n0_, len(o.stores)):
            if o.stores[k_][0] != "opaque": o.stores[k_] = o.stores[k_] + ext
        return
    if isinstance(o, LocalArr):
        _store_local(interp, o, t, v, st, aug, idx); return
    if isinstance(o, ListVal):
        i = to_x(idx[0]) if not isinstance(idx[0], tuple) else None
        if i is None: return
        k = i.as_int()
        if k is not None and not o.per_iter and -len(o.items) <= k < len(o.items):
            o.items[k] = v; return
        st.events.append(("list-store", id(o), i, v))
        if not hasattr(o, "sym_stores"): o.sym_stores = []
        o.sym_stores.append((i, v))
        return
    if isinstance(o, (Arr, ArrParam)) and isinstance(t.value, ast.Name):
        A = as_arr(o)
        if len(idx) == 1 and isinstance(idx[0], (Arr,)):
            M = idx[0]
            # boolean mask store (numpy raises IndexError unless the mask has the array's shape: equal lengths are a run-time precondition)
            if M.ndim == A.ndim and (all(ca.eq(cb) for (_, ca), (_, cb) in zip(A.axes, M.axes)) or A.ndim == 1):
                mp = {mv: X.var(av) for (av, _), (mv, _) in zip(A.axes, M.axes)}
                mb = subst_val(M.body, mp)
                if isinstance(v, Masked):
                    src = v.arr
                    if isinstance(src, (Arr, ArrParam)):
                        S = as_arr(src)
                        sp = {sv: X.var(av) for (av, _), (sv, _) in zip(A.axes, S.axes)}
                        nb = subst_val(S.body, sp)
                    else: nb = Opaque("masked source")
                elif isinstance(v, (Arr, ArrParam)):
                    nb = Opaque("array assigned through boolean mask")
                else:
                    nb = v
                body = pv_apply(lambda m, new, old: new if m is True else old if m is False else Opaque("mask"), mb, nb, A.body)
                st.env[t.value.id] = Arr(A.axes, body)
                return
        if len(idx) == 1 and isinstance(idx[0], tuple) and idx[0][0] == "slice" and idx[0][1] is None and idx[0][2] is None:
            V_ = as_arr(v)
            if V_ is not None:
                st.env[t.value.id] = V_; return
        if len(idx) == 1 and A.ndim == 1:
            (av, ac), = A.axes
            i0 = idx[0]
            if isinstance(i0, tuple) and i0[0] == "slice":
                lo, hi, step = i0[1:]
                stp = to_x(step).as_int() if step is not None else 1
                if stp in (1, -1) and not any(isinstance(z, PV) for z in (lo, hi)):
                    if stp == 1:
                        lo = X.const(0) if lo is None else _wrap(to_x(lo), ac)
                        hi = ac if hi is None else _wrap(to_x(hi), ac)
                        tpos = X.var(av) - lo               # element of the right-hand side stored at index av
                        inside = [(X.var(av) - lo, False), (X.var(av) - hi, True)]     # not(av < lo) and av < hi
                    else:
                        lo = (ac - 1) if lo is None else _wrap(to_x(lo), ac)
                        hi = X.const(-1) if hi is None else _wrap(to_x(hi), ac)
                        tpos = lo - X.var(av)
                        inside = [(lo - X.var(av), False), (hi - X.var(av), True)]     # av <= lo and av > hi
                    V_ = as_arr(v)
                    if V_ is not None and V_.ndim == 1: newb = subst_val(V_.body, {V_.axes[0][0]: tpos})
                    elif V_ is None: newb = v
                    else: newb = Opaque("slice store of a non 1-D value")
                    body = A.body
                    c1 = scal_compare(ast.Lt(), inside[0][0], X.const(0), "below slice")
                    c2 = scal_compare(ast.Lt(), inside[1][0], X.const(0), "inside slice")
                    def sel(a_, b_, new, old):
                        ina = (a_ is False) if isinstance(a_, bool) else None
                        return None
                    # in-range  <=>  (c1 is False) and (c2 is True)
                    res = pv_apply(lambda a_, b_, new, old: (new if (a_ is False and b_ is True) else old) if isinstance(a_, bool) and isinstance(b_, bool) else Opaque("slice test"),
                                   c1, c2, newb, body)
                    st.env[t.value.id] = Arr(A.axes, res); return
            xi = to_x(i0) if not isinstance(i0, tuple) else None
            if xi is not None:
                xi = _wrap(xi, ac)
                c = scal_compare(ast.Eq(), X.var(av), xi, "element index")
                res = pv_apply(lambda c_, new, old: (new if c_ else old) if isinstance(c_, bool) else Opaque("element test"), c, v, A.body)
                st.env[t.value.id] = Arr(A.axes, res); return
        if len(idx) == 1 and A.ndim == 1:
            # fancy store with a concrete list of positions:  A[[i0, i1, ...]] = v   (later positions win, as in numpy)
            from .absint import _concrete_seq
            pos = _concrete_seq(idx[0]) if isinstance(idx[0], (ListVal, tuple, list)) and not (isinstance(idx[0], tuple) and idx[0] and idx[0][0] == "slice") else None
            if pos is not None and all(to_x(p_) is not None and to_x(p_).constval() is not None for p_ in pos):
                (av, ac), = A.axes
                V_ = as_arr(v) if isinstance(v, (Arr, ArrParam)) else None
                body = A.body
                for k_, p_ in enumerate(pos):
                    xi = _wrap(to_x(p_), ac)
                    newv = arr_index(V_, X.const(k_)) if V_ is not None else v
                    c = scal_compare(ast.Eq(), X.var(av), xi, "element index")
                    body = pv_apply(lambda c_, new, old: (new if c_ else old) if isinstance(c_, bool) else Opaque("element test"), c, newv, body)
                st.env[t.value.id] = Arr(A.axes, body); return
        st.env[t.value.id] = Opaque("unsupported array store")
        return
    if isinstance(o, PV) or is_opaque(o):
        return
    return


# ---------------------------------------------------------------------------- comprehensions
def list_comp(interp, n, st):
    if len(n.generators) == 2 and not n.generators[0].ifs:
        # [elt for a in outer for b in inner(a)] with a concrete outer sequence: concatenation of the inner comprehensions
        from .absint import _concrete_seq as _cs
        g0 = n.generators[0]
        outer = _cs(interp.eval(g0.iter, st))
        if outer is None: return Opaque("nested comprehension over a symbolic outer sequence")
        inner = ast.ListComp(elt=n.elt, generators=[n.generators[1]])
        ast.copy_location(inner, n)
        parts = []
        for v in outer:
            sub = st.clone()
            interp.assign(g0.target, v, sub)
            parts.append(list_comp(interp, inner, sub))
        parts = [p for p in parts if not (isinstance(p, ListVal) and not p.items and not p.per_iter)]
        if not parts: return ListVal([])
        if len(parts) == 1: return parts[0]
        if all(isinstance(p, ListVal) and not p.per_iter for p in parts):
            return ListVal([e for p in parts for e in p.items])
        return Opaque("concatenation of several symbolic comprehensions")
    if len(n.generators) != 1: return Opaque("nested comprehension")
    g = n.generators[0]
    it = interp.eval(g.iter, st)
    from .absint import _concrete_seq
    seq = _concrete_seq(it)
    elt = n.elt
    if seq is not None:
        out = []
        sub = st.clone()
        for v in seq:
            interp.assign(g.target, v, sub)
            keep = True
            for cnd in g.ifs:
                t = interp.truth(interp.eval(cnd, sub), cnd)
                if t is False: keep = False
                elif t is not True: return Opaque("symbolic comprehension filter")
            if keep: out.append(interp.eval(elt, sub))
        return ListVal(out)
    if isinstance(it, MaskIdx) and not g.ifs and isinstance(g.target, ast.Name):
        # [f(k) for k in np.flatnonzero(mask)]  ==  [f(k) for k in range(len(mask)) if mask[k]]
        M = as_arr(it.mask)
        if M is None or M.ndim != 1: return Opaque("flatnonzero of a non-1-D mask")
        var = fresh("it"); count = M.axes[0][1]
        sub = st.clone(); sub.ranges[var] = (X.const(0), count)
        interp.assign(g.target, X.var(var), sub)
        r = ListVal(); r.per_iter = [Opaque("filtered comprehension")]
        r.filter = (var, count, [arr_index(M, X.var(var))], interp.eval(elt, sub))
        return r
    gen = iter_symbolic(interp, it, st)
    if gen is None: return Opaque("comprehension over " + type(it).__name__)
    var, count, value = gen
    sub = st.clone()
    sub.ranges[var] = (X.const(0), count)
    interp.assign(g.target, value, sub)
    if g.ifs:
        r = ListVal(); r.per_iter = [Opaque("filtered comprehension")]
        r.filter = (var, count, [interp.eval(c, sub) for c in g.ifs], interp.eval(elt, sub))
        return r
    r = ListVal()
    n0_ = len(st.assumed)
    r.per_iter = [(var, count, interp.eval(elt, sub))]
    # the guards met while evaluating one generic element (raise-branches of helpers called per element) are facts about every element
    interp.loop_summaries[id(n)] = {"ivar": var, "count": count, "assumed": [a_ for a_ in sub.assumed if a_ not in st.assumed[:n0_]], "is_while": False,
                                    "comprehension": True, "node": n, "appends_by_name": {}, "remap": {}}
    return r


def iter_symbolic(interp, it, st):
    """(index var, count, value at index) for a symbolic iterable, or None."""
    if isinstance(it, RangeVal):
        v = fresh("it")
        return v, it.count(), it.lo + it.step * X.var(v)
    if isinstance(it, (Arr, ArrParam)):
        A = as_arr(it)
        v, c = A.axes[0]
        nv = fresh("it")
        return nv, c, arr_index(A, X.var(nv))
    if isinstance(it, LocalArr):
        A = local_to_arr(it)
        if A is None or is_opaque(A): return None
        return iter_symbolic(interp, A, st)
    if isinstance(it, ListVal) and it.per_iter and not it.items and len(it.per_iter) == 1 and isinstance(it.per_iter[0], tuple):
        var, count, val = it.per_iter[0][:3]
        nv = fresh("it")
        return nv, count, subst_val(val, {var: X.var(nv)})
    if isinstance(it, ZipVal):
        parts = [iter_symbolic(interp, p, st) for p in it.parts]
        if any(p is None for p in parts): return None
        nv = fresh("it")
        c0 = parts[0][1]
        vals = tuple(subst_val(val, {v: X.var(nv)}) for v, c, val in parts)
        z = (nv, c0, vals)
        z_counts = [c for v, c, val in parts]
        st.events.append(("zip-counts", z_counts))
        return z
    if isinstance(it, EnumVal):
        p = iter_symbolic(interp, it.inner, st)
        if p is None: return None
        v, c, val = p
        return v, c, (X.var(v) + it.start, val)
    return None


from .libcalls import call_lib, call_method  # noqa: E402  (split for size)
