"""E5 - kernel summaries: every statistics kernel (Numba, NumPy, CUDA host wrapper +
device kernel) is abstractly interpreted with symbolic arguments and compared, output by
output, with the windowed-DFT definition (Appendix A.3 of DESIGN.md)."""
import ast
import os
from fractions import Fraction as Fr

from .symalg import X, KIND, ARRAY_KIND, mk_fn, mk_idx, mk_sum, compare, Unknown, C, INT_ARRAY_NAMES
from .values import *
from .absint import Interp, St
from . import libmodel as lm
from .report import AnalysisError, HOLDS, VIOLATED, UNKNOWN

FAMILIES = ("win_only", "detrend0", "poly")
MODES = ("auto", "csd")
BACKENDS = {"numba": ("speckit/core.py", ""), "numpy": ("speckit/core.py", "_np"), "cuda": ("speckit/core_cuda.py", "_cuda")}
OUT = ("MXX", "MYY", "mu_r", "mu_i", "M2")


def setup_kinds():
    KIND.update({"L": "nat", "omega": "real", "starts.shape0": "nat", "Q.shape1": "nat", "Q.shape0": "nat"})
    for a in ("x1", "x2", "w", "Q"): ARRAY_KIND[a] = "real"
    ARRAY_KIND["starts"] = "real"
    lm.INT_ARRAYS.add("starts"); INT_ARRAY_NAMES.add("starts")


def kernel_key(fam, mode, backend):
    rel, suf = BACKENDS[backend]
    return f"{rel}::_stats_{fam}_{mode}{suf}"


def kernel_args(fam, mode, chans=("x1", "x2"), p1=None):
    a = [ArrParam(chans[0])]
    if mode == "csd": a.append(ArrParam(chans[1]))
    a += [ArrParam("starts"), X.var("L"), ArrParam("w", shape=(X.var("L"),)), X.var("omega")]
    if fam == "poly": a.append(ArrParam("Q", 2, shape=(X.var("L"), None if p1 is None else X.const(p1))))
    return a


def reference_slot(fam, mode):
    """per-segment reference values (xx, yy, xy) as functions of the slot index variable 'j'."""
    L = X.var("L"); om = X.var("omega")
    s = mk_idx("starts", [X.var("j")])
    n = X.var("n"); m = X.var("m"); k = X.var("k")

    def trend(ch):
        if fam == "win_only": return X.const(0)
        if fam == "detrend0": return mk_sum("m", L, mk_idx(ch, [s + m])) / L
        alpha = mk_sum("m", L, mk_idx("Q", [m, k]) * mk_idx(ch, [s + m]))
        return mk_sum("k", X.var("Q.shape1"), mk_idx("Q", [n, k]) * alpha)

    def Vc(ch):
        v = (mk_idx(ch, [s + n]) - trend(ch)) * mk_idx("w", [n])
        return mk_sum("n", L, v * mk_fn("cis", [-(om * n)]))
    Vx = Vc("x1")
    Vy = Vc("x2") if mode == "csd" else Vx
    return Vx * Vx.conj(), Vy * Vy.conj(), Vx * Vy.conj()


_REF = {}


def reference(fam, mode):
    """regime -> 5-tuple.  regimes: 'K0' (no segment), 'K1' (one), 'K2' (two or more)."""
    if (fam, mode) not in _REF: _REF[(fam, mode)] = _reference(fam, mode)
    return _REF[(fam, mode)]


def _reference(fam, mode):
    K = X.var("starts.shape0")
    xx, yy, xy = reference_slot(fam, mode)
    mxx = mk_sum("j", K, xx) / K
    myy = mk_sum("j", K, yy) / K
    mxy = mk_sum("j", K, xy) / K
    mur, mui = mxy.real(), mxy.imag()
    d = xy - mxy
    m2 = mk_sum("j", K, d * d.conj()) / K
    zero = X.const(0)
    return {"K0": (zero,) * 5, "K1": (mxx, myy, mur, mui, zero), "K2": (mxx, myy, mur, mui, m2)}


def regime_of(k):
    return "K0" if k == 0 else "K1" if k == 1 else "K2"


def cond_truth_for_K(cond, k):
    """decide a branch condition for a concrete segment count; None if it is not a condition on K alone."""
    Kname = "starts.shape0"
    d = getattr(cond, "lt", None)
    if d is not None:
        if d.fv() - {Kname}: return None
        v = d.subst({Kname: X.const(k)}).constval()
        if v is None: return None
        return v.re < 0
    e = getattr(cond, "eq", None)
    if e is not None:
        dd = e[1] - e[2]
        if dd.fv() - {Kname}: return None
        v = dd.subst({Kname: X.const(k)}).constval()
        if v is None: return None
        return v.iszero()
    return None


def cond_constants(v, acc=None):
    """largest integer constant appearing in conditions of a decision tree (bounds the representatives)."""
    acc = acc if acc is not None else [2]
    if isinstance(v, PV):
        for d in (getattr(v.cond, "lt", None),) + tuple((getattr(v.cond, "eq", None) or (None, None, None))[1:]):
            if isinstance(d, X):
                n, _ = d.rational()
                for m, c in n.t.items():
                    if not m and c.im == 0: acc.append(abs(int(c.re)) + 1)
        cond_constants(v.hi, acc); cond_constants(v.lo, acc)
    elif isinstance(v, tuple):
        for e in v: cond_constants(e, acc)
    return max(acc)


def leaf_for_K(v, k):
    """follow the decision tree for a concrete K; returns (leaf, undecided conds)."""
    und = []
    while isinstance(v, PV):
        t = cond_truth_for_K(v.cond, k)
        if t is None:
            und.append(v.cond); return v, und
        v = v.hi if t else v.lo
    if isinstance(v, tuple):
        out = []
        for e in v:
            l, u = leaf_for_K(e, k); out.append(l); und += u
        return tuple(out), und
    return v, und


def alternatives_for_K(v, k):
    """like leaf_for_K, but a condition that is not on the segment count splits the case: [(substitution, description, leaf)].
    On the true branch of `name == constant` the equality is substituted (into the reference as well)."""
    def walk(v, sub, desc):
        while isinstance(v, PV):
            t = cond_truth_for_K(v.cond, k)
            if t is None:
                e = getattr(v.cond, "eq", None)
                sub_t = dict(sub)
                if e is not None:
                    a, b = e[1], e[2]
                    for p_, q_ in ((a, b), (b, a)):
                        ats = list(p_.all_atoms())
                        if len(ats) == 1 and ats[0].tag == "v" and p_.eq(X.atom(ats[0])) and q_.constval() is not None:
                            sub_t[ats[0].name] = q_
                yield from walk(v.hi, sub_t, desc + [v.cond.text])
                yield from walk(v.lo, sub, desc + [f"not({v.cond.text})"])
                return
            if t and getattr(v.cond, "eq", None) is not None:
                sub = dict(sub); sub["starts.shape0"] = X.const(k)      # the branch taken only for exactly this many segments
            v = v.hi if t else v.lo
        if isinstance(v, tuple) and any(isinstance(e, PV) for e in v):
            # conditions inside the tuple elements: resolve those on K, keep the rest for the caller
            out = []; und = []
            for e in v:
                l, u = leaf_for_K(e, k); out.append(l); und += u
            if und:
                mm = next((l for e in v for _, l in pv_leaves(e) if isinstance(l, Mismatch)), None)
                if mm is not None:
                    yield sub, desc, mm; return          # a definite idiom break feeds the undecided condition / the statistic
                yield sub, desc + [f"undecided: {und[0]}"], Opaque(f"branch condition not on the segment count: {und[0]}"); return
            v = tuple(out)
        yield sub, desc, v
    return list(walk(v, {}, []))


def prepare_env(env):
    env.fixed.update({"L": 3.0, "starts.shape0": 3.0, "Q.shape1": 2.0, "Q.shape0": 3.0})


def prepare_env_chunks(env):
    """numeric cross-check environment for the multi-chunk variant: 5 segments in chunks of 2 (2+2+1)."""
    env.fixed.update({"L": 3.0, "starts.shape0": 5.0, "Q.shape1": 2.0, "Q.shape0": 3.0})


def has_chunk_param(node):
    return any(a.arg == "_chunk" for a in node.args.kwonlyargs)


class KernelEval:
    def __init__(s, repo):
        setup_kinds()
        s.repo = repo
        s.I = Interp(repo)
        s.cache = {}

    def block_constants(s, rel):
        """module-level integer constants >= 1024 that the functions of the module read (block / chunk sizes of streaming implementations)."""
        mod = s.repo.mods.get(rel)
        out = {}
        if mod is None: return out
        for st_ in mod.body:
            tg = st_.targets[0] if isinstance(st_, ast.Assign) and len(st_.targets) == 1 else st_.target if isinstance(st_, ast.AnnAssign) else None
            if isinstance(tg, ast.Name) and getattr(st_, "value", None) is not None:
                try: v_ = eval(compile(ast.Expression(st_.value), "<const>", "eval"), {"__builtins__": {}}, {})
                except Exception: continue
                if isinstance(v_, int) and not isinstance(v_, bool) and v_ >= 1024: out[tg.id] = v_
        used = {n.id for f in ast.walk(mod) if isinstance(f, ast.FunctionDef) for n in ast.walk(f) if isinstance(n, ast.Name) and isinstance(n.ctx, ast.Load)}
        return {k: v for k, v in out.items() if k in used}

    def evaluate_with_blocks(s, fam, mode, backend, name, size=2):
        """the kernel interpreted with the module-level block size `name` made small, so that several blocks occur in a segment of a few samples."""
        key = kernel_key(fam, mode, backend); rel = key.split("::")[0]
        ck = (key, "block", name, size)
        if ck in s.cache: return s.cache[ck]
        I2 = Interp(s.repo)
        I2.module_globals(rel)[name] = X.const(size)
        from . import loops as _loops
        _loops.STRICT_RECURRENCES[0] = True
        try: r = I2.call_key(key, kernel_args(fam, mode), {}, St())
        except Unknown as ex: r = Opaque(f"interpreter: {ex}")
        finally: _loops.STRICT_RECURRENCES[0] = False
        s.cache[ck] = r
        return r

    def evaluate(s, fam, mode, backend, chans=("x1", "x2"), chunk=None, p1=None):
        key = kernel_key(fam, mode, backend)
        ck = (key, chans, chunk, p1)
        if ck in s.cache: return s.cache[ck]
        if not s.repo.has(key):
            raise AnalysisError(f"kernel {key} not found")
        st = St()
        from . import loops as _loops
        _loops.STRICT_RECURRENCES[0] = True
        try:
            r = s.I.call_key(key, kernel_args(fam, mode, chans, p1), {} if chunk is None else {"_chunk": X.const(chunk)}, st)
        except Unknown as ex:
            r = Opaque(f"interpreter: {ex}")
        finally:
            _loops.STRICT_RECURRENCES[0] = False
        s.cache[ck] = (r, st)
        return r, st

    def outputs_at(s, fam, mode, backend, k, chans=("x1", "x2"), p1=None, chunk=None):
        """5-tuple of X for a concrete segment-count regime (k = 1 or 2) and, for the poly family, a concrete basis width p1, or an Opaque."""
        val, _ = s.evaluate(fam, mode, backend, chans, chunk=chunk)
        if p1 is not None: val = subst_val(val, {"Q.shape1": X.const(p1)})
        leaf, und = leaf_for_K(val, k)
        if (und or is_opaque(leaf) or (isinstance(leaf, tuple) and any(is_opaque(e) for e in leaf))) and fam == "poly" and p1 is not None:
            # with a symbolic basis width a per-column case split (if p1 > 1: ...) stays undecided: interpret the kernel again for this concrete width
            val2, _ = s.evaluate(fam, mode, backend, chans, chunk=chunk, p1=p1)
            leaf, und = leaf_for_K(val2, k)
        if und: return Opaque(f"branch condition not on the segment count: {und[0]}")
        if is_opaque(leaf): return leaf
        if not isinstance(leaf, tuple) or len(leaf) != 5: return Opaque("kernel does not return a 5-tuple")
        out = []
        for e in leaf:
            if is_opaque(e): return e
            x = to_x(e)
            if x is None: return Opaque("non-scalar kernel output")
            out.append(x)
        return tuple(out)


def _has_p1_cond(v):
    if isinstance(v, PV):
        fv = set()
        d = getattr(v.cond, "lt", None)
        if d is not None: fv |= d.fv()
        e = getattr(v.cond, "eq", None)
        if e is not None: fv |= e[1].fv() | e[2].fv()
        return "Q.shape1" in fv or _has_p1_cond(v.hi) or _has_p1_cond(v.lo)
    if isinstance(v, tuple): return any(_has_p1_cond(e) for e in v)
    return False


def check_kernel(ctx, KE, fam, mode, backend, outputs=OUT, rule="R3-statistics"):
    """compare the selected outputs of one kernel with the definition, in every K regime (within a time budget per kernel)."""
    from .report import limit
    key = kernel_key(fam, mode, backend)
    try:
        with limit(float(os.environ.get("VERIF_KERNEL_BUDGET_S", "150")), key):
            return _check_kernel(ctx, KE, fam, mode, backend, outputs, rule)
    except Unknown as ex:
        node = KE.repo.get(key)
        ctx.unknown(f"{rule}", key, str(ex), KE.repo.where(key, node))
        return UNKNOWN


def _check_kernel(ctx, KE, fam, mode, backend, outputs=OUT, rule="R3-statistics"):
    key = kernel_key(fam, mode, backend)
    node = KE.repo.get(key)
    where = KE.repo.where(key, node)
    ctx.analysed(key)
    val0, st = KE.evaluate(fam, mode, backend)
    ref0 = reference(fam, mode)
    kmax = cond_constants(val0) + 1
    worst = HOLDS
    # the detrend basis comes from _build_Q(L, order), order in {1,2}: it has 2 or 3 columns
    blocks = KE.block_constants(key.split("::")[0])
    chunked = None
    if has_chunk_param(node):
        # the NumPy kernels process the segments in chunks of _chunk: re-evaluate with a chunk size of 2 so that the
        # multi-chunk behaviour (K > _chunk, out of reach of any test) is compared with the definition as well
        chunked, _ = KE.evaluate(fam, mode, backend, chunk=2)

    def width_variants(reeval=False):
        out = []
        for p1 in (2, 3):
            mp = {"Q.shape1": X.const(p1)}
            # reeval: interpret the kernel again with a basis of exactly p1 columns (per-column case splits and stores then resolve)
            v_ = KE.evaluate(fam, mode, backend, p1=p1)[0] if reeval else subst_val(val0, mp)
            out.append((p1, v_, {rg: tuple(x.subst(mp) for x in tup) for rg, tup in ref0.items()}))
        return out
    # the detrend basis comes from _build_Q(L, order), order in {1,2}: it has 2 or 3 columns.  A kernel that branches on the width is
    # instantiated for both; otherwise the width stays symbolic and is instantiated only if the symbolic comparison is inconclusive
    base_variants = width_variants() if (fam == "poly" and _has_p1_cond(val0)) else [(None, val0, ref0)]

    def decide(oi, name, variants):
        status = HOLDS; detail = ""; lhs = rhs = None
        for k, (p1, val, ref) in [(k, v) for k in range(0, kmax + 1) for v in variants]:
            done = False
            for sub, desc, leaf in alternatives_for_K(val, k):
                on = (" on the branch [" + " & ".join(desc) + "]") if desc else ""
                if is_opaque(leaf):
                    status = VIOLATED if isinstance(leaf, Mismatch) else UNKNOWN
                    detail = leaf.why + on; done = True; break
                if not isinstance(leaf, tuple) or len(leaf) != 5:
                    status, detail = UNKNOWN, f"kernel does not return a 5-tuple for K={k}{on}: {leaf!r}"[:300]; done = True; break
                got = leaf[oi]
                want = ref[regime_of(k)][oi]
                if sub:
                    try: want = want.subst(sub)
                    except Unknown: pass
                if is_opaque(got):
                    status = VIOLATED if isinstance(got, Mismatch) else UNKNOWN
                    detail = f"K={k}{on}: {got.why}"; lhs = got; done = True; break
                gx = to_x(got)
                if gx is None:
                    status, detail = UNKNOWN, f"K={k}{on}: non-scalar output {got!r}"[:300]; done = True; break
                if sub:
                    try: gx = gx.subst(sub)
                    except Unknown: pass
                stt, why = compare(gx, want, prepare=prepare_env, seed=ctx.seed)
                if stt != HOLDS:
                    status = stt; detail = f"{name} for K={k} segments" + (f" and a {p1}-column basis" if p1 else "") + on + " differs from the windowed-DFT definition" + (f" ({why})" if why else "")
                    lhs, rhs = gx, want; done = True; break
            if done: break
        return status, detail, lhs, rhs
    for name in outputs:
        oi = OUT.index(name)
        status, detail, lhs, rhs = decide(oi, name, base_variants)
        if status == UNKNOWN and fam == "poly" and base_variants[0][0] is None and "agree numerically" in detail:
            status, detail, lhs, rhs = decide(oi, name, width_variants())
        elif status == UNKNOWN and fam == "poly" and "agree numerically" not in detail:
            status, detail, lhs, rhs = decide(oi, name, width_variants(reeval=True))
        if status != VIOLATED and blocks:
            # streaming in blocks of a module-level size: interpreted again with blocks of 2 samples and compared numerically for segments of 3 and 5 samples
            for bname in blocks:
                vb = KE.evaluate_with_blocks(fam, mode, backend, bname)
                for k_ in (1, 2):
                    leaf, und = leaf_for_K(subst_val(vb, {"Q.shape1": X.const(2)}) if fam == "poly" else vb, k_)
                    got = leaf[oi] if isinstance(leaf, tuple) and len(leaf) == 5 and not und else None
                    gx = to_x(got) if got is not None and not is_opaque(got) else None
                    if gx is None:
                        if status == HOLDS: status, detail = UNKNOWN, f"blocks of 2 samples ({bname}=2): output not recognised"
                        continue
                    want = ref0[regime_of(k_)][oi]
                    if fam == "poly": want = want.subst({"Q.shape1": X.const(2)})
                    for Lnum in (3.0, 5.0):
                        def prep(env, Lnum=Lnum):
                            prepare_env(env); env.fixed.update({"L": Lnum, "Q.shape0": Lnum})
                        stt, why = compare(gx, want, prepare=prep, seed=ctx.seed)
                        if stt == VIOLATED:
                            status = VIOLATED; lhs, rhs = gx, want
                            detail = (f"{name} for K={k_} segments of {int(Lnum)} samples processed in blocks of 2 ({bname} made small) differs from the windowed-DFT definition: "
                                      f"segments longer than {bname}={blocks[bname]} samples are transformed wrongly")
                            break
                    if status == VIOLATED: break
                if status == VIOLATED: break
        if status != VIOLATED and chunked is not None:
            k = kmax

            def chunk_pass(widths, status, detail, lhs, rhs):
                for p1 in widths:
                    mp = {"Q.shape1": X.const(p1)} if p1 else {}
                    leaf, und = leaf_for_K(subst_val(chunked, mp) if mp else chunked, k)
                    got = leaf[oi] if isinstance(leaf, tuple) and len(leaf) == 5 and not und else (leaf if is_opaque(leaf) else Opaque(f"multi-chunk variant not recognised: {leaf!r}"[:200]))
                    if is_opaque(got) or to_x(got) is None:
                        st2 = VIOLATED if isinstance(got, Mismatch) else UNKNOWN
                        if status == HOLDS or st2 == VIOLATED: status = st2; detail = f"chunks of 2: {getattr(got, 'why', got)!r}"[:300]
                        break
                    want = ref0[regime_of(k)][oi]
                    if mp: want = want.subst(mp)
                    stt, why = compare(to_x(got), want, prepare=prepare_env_chunks, seed=ctx.seed)
                    if stt == VIOLATED or (stt != HOLDS and status == HOLDS):
                        status = stt; detail = f"{name} with the segments processed in several chunks (_chunk=2, K=5)" + (f" and a {p1}-column basis" if p1 else "") + " differs from the windowed-DFT definition" + (f" ({why})" if why else "")
                        lhs, rhs = to_x(got), want; break
                return status, detail, lhs, rhs
            lazy = not (fam == "poly" and _has_p1_cond(chunked))
            s0 = status
            status, detail, lhs, rhs = chunk_pass((None,) if lazy else (2, 3), status, detail, lhs, rhs)
            if lazy and fam == "poly" and status == UNKNOWN and s0 == HOLDS and "agree numerically" in detail:
                status, detail, lhs, rhs = chunk_pass((2, 3), HOLDS, "", None, None)
        ctx.ob(f"{rule}[{name}]", key, status, detail, where, lhs=lhs, rhs=rhs)
        if status != HOLDS: worst = status
    return worst


def check_launch_coverage(ctx, KE, fam, mode, rule="R7-launch-grid"):
    """CUDA host wrappers: the launch grid covers every segment and the device guard is the segment count."""
    from .symalg import NumEnv, evalx
    key = kernel_key(fam, mode, "cuda")
    node = KE.repo.get(key); where = KE.repo.where(key, node)
    val, st = KE.evaluate(fam, mode, "cuda")
    launches = [e for e in st.events if e[0] == "cuda-launch" and e[1].get("host") in (None, key)]
    mine = [e for e in launches if e[1]["kernel"].startswith(key.replace("_cuda", "_cuda_kernel")[:len(key) + 7]) or True]
    if not mine:
        ctx.unknown(rule, key, "no kernel launch found in the host wrapper", where); return
    K = X.var("starts.shape0")
    for e in mine[-1:]:
        f = e[1]
        grid, blocks, threads = f["grid"], f["blocks"], f["threads"]
        ok_guard = bool(f["guards"]) and all(g.eq(K) for g in f["guards"])
        if not f["guards"]:
            ctx.violated(rule, key, "device kernel writes its output slot without the guard `thread index < number of segments`", where); continue
        if not ok_guard:
            ctx.violated(rule, key, f"device guard bounds the thread index by {f['guards'][0]!r}, not by the number of segments", where); continue
        T = threads
        forms = []
        try:
            forms = [mk_fn("floor", [(K + T - 1) / T]), mk_fn("ceil", [K / T])]
        except Unknown:
            pass
        if any(blocks.eq(fm) for fm in forms):
            ctx.holds(rule, key, f"grid = ceil(K/{T!r})*{T!r} >= K", where); continue
        # the same idiom with room to spare: floor((K + T - 1 + d)/T) or ceil((K + d)/T) with a constant d >= 0 launches idle threads, which the
        # device guard (checked above) masks
        spare = None
        if len(blocks.m) == 1 and not blocks.p and blocks.c == C(1):
            (at_, e_), = blocks.m.items()
            if e_ == 1 and at_.tag == "fn" and at_.name in ("floor", "ceil") and len(at_.args) == 1:
                try:
                    r_ = (at_.args[0] * T - K).constval()
                    if r_ is not None and r_.im == 0:
                        need = (T - 1).constval().re if at_.name == "floor" else 0
                        if r_.re >= need: spare = r_.re - need
                except (Unknown, AttributeError):
                    pass
        if spare is not None:
            ctx.holds(rule, key, f"grid covers K with {spare} spare threads (masked by the device guard)", where); continue
        # not the ceiling-division idiom: look for a segment count the grid does not cover
        witness = None; failed = False
        tv = T.as_int() or 256
        for kval in (1, 2, tv - 1, tv, tv + 1, tv + tv // 4, 2 * tv - 1, 2 * tv + 1, 2 * tv + tv // 3, 5 * tv + 7, 1000 * tv + 1):
            env = NumEnv(1); env.fixed["starts.shape0"] = float(kval)
            try:
                g = evalx(grid, env).real
            except Exception:
                failed = True; break
            if g < kval: witness = (kval, g); break
        if witness:
            ctx.violated(rule, key, f"launch grid blocks*threads = {grid!r} covers only {witness[1]:.0f} threads for K={witness[0]} segments: "
                         "the last segments are never computed and uninitialised device memory is averaged in", where, lhs=blocks)
        else:
            ctx.unknown(rule, key, f"launch grid {grid!r} is not the ceiling-division idiom and no uncovered K was found", where)


def check_inputs_untouched(ctx, rule="R8-inputs-untouched"):
    """no statistics kernel modifies any of its arguments (interprocedural effect summaries): the record is shared by all bins."""
    from .effects import Effects
    E = Effects(ctx.repo); m = 0
    for backend in BACKENDS:
        for fam in FAMILIES:
            for mode in MODES:
                key = kernel_key(fam, mode, backend)
                if not ctx.repo.has(key): continue
                sm = E.summary(key); m += 1
                bad = [sm["params"][i] for i in sorted(sm["writes_param"])]
                where = ctx.repo.where(key, ctx.repo.get(key))
                if bad:
                    sk = sm["sinks"][sm["params"].index(bad[0])][0]
                    ctx.violated(rule, key, f"the kernel modifies its argument {bad[0]} in place ({sk.kind}: {sk.detail}): the record is shared by all bins, so the "
                                 "statistics of every later bin are computed from altered samples", f"{key.split('::')[0]}:{getattr(sk.node, 'lineno', 0)}")
                else:
                    ctx.holds(rule, key, "no in-place effect reaches x1, x2, starts, w or Q (interprocedural effect summary)", where)
    ctx.need("kernels summarised for effects", m, 18)


def check_pair_identities(ctx, KE, rule="R5-kernel-identities", backends=None):
    """kernel level, all backends: the auto statistic of a channel alone equals that in a pair; channel swap exchanges XX/YY,
    keeps Re XY, flips Im XY; one segment gives |XY|^2 = XX*YY."""
    K = "starts.shape0"
    for backend in (backends or BACKENDS):
        todo = [(f_, None, None) for f_ in FAMILIES]
        if backend == "numpy":
            todo += [(f_, None, 2) for f_ in FAMILIES if has_chunk_param(ctx.repo.get(kernel_key(f_, "csd", backend)))]      # several chunks (K > _chunk)
        while todo:
            fam, p1, chunk = todo.pop(0)
            key = kernel_key(fam, "csd", backend); akey = kernel_key(fam, "auto", backend)
            kw = ctx.repo.where(key, ctx.repo.get(key))
            ctx.analysed(key, akey)
            kk = 3 if chunk else 2
            pair = KE.outputs_at(fam, "csd", backend, kk, p1=p1, chunk=chunk)
            swp = KE.outputs_at(fam, "csd", backend, kk, ("x2", "x1"), p1=p1, chunk=chunk)
            a1 = KE.outputs_at(fam, "auto", backend, kk, ("x1", "x2"), p1=p1, chunk=chunk)
            a2 = KE.outputs_at(fam, "auto", backend, kk, ("x2", "x1"), p1=p1, chunk=chunk)
            bad = next((z for z in (pair, swp, a1, a2) if is_opaque(z)), None)
            if bad is not None:
                ctx.ob(rule, key, VIOLATED if isinstance(bad, Mismatch) else UNKNOWN, bad.why, kw); continue
            buf = []

            def kl(name, lhs, rhs, detail, buf=buf, p1=p1, key=key, kw=kw, chunk=chunk):
                st, why = compare(lhs, rhs, prepare=prepare_env_chunks if chunk else prepare_env, seed=ctx.seed)
                buf.append((f"{rule}[{name}]", key + (f"[{p1}-column basis]" if p1 else "") + ("[chunks of 2]" if chunk else ""), st, detail + (f" ({why})" if why else ""), kw, lhs if st != HOLDS else None, rhs if st != HOLDS else None))

            def flush(buf=buf, fam=fam, p1=p1, chunk=chunk):
                # a symbolic basis width that leaves a comparison inconclusive is instantiated (2 and 3 columns) instead
                if p1 is None and fam == "poly" and any(b[2] == UNKNOWN and "agree numerically" in b[3] for b in buf):
                    todo.extend([(fam, 2, chunk), (fam, 3, chunk)]); return
                for r_, c_, st_, d_, w_, l_, rr_ in buf: ctx.ob(r_, c_, st_, d_, w_, lhs=l_, rhs=rr_)
            kl("alone=pair:x", pair[0], a1[0], "mean |X|^2 of channel 1 in a pair vs analysed alone")
            kl("alone=pair:y", pair[1], a2[0], "mean |Y|^2 of channel 2 in a pair vs analysed alone")
            kl("swap:xx", swp[0], pair[1], "swapping the channels exchanges the auto statistics")
            kl("swap:yy", swp[1], pair[0], "swapping the channels exchanges the auto statistics")
            kl("swap:re", swp[2], pair[2], "Re<XY*> is symmetric under channel swap")
            kl("swap:im", swp[3], -pair[3], "Im<XY*> changes sign under channel swap")
            kl("swap:M2", swp[4], pair[4], "scatter is symmetric under channel swap")
            if chunk: flush(); continue
            one = KE.outputs_at(fam, "csd", backend, 1, p1=p1)
            if is_opaque(one):
                flush(); ctx.ob(f"{rule}[coh=1]", key, UNKNOWN, one.why, kw); continue
            try:
                o = [z.subst({K: X.const(1)}) for z in one]
                kl("coh=1", o[2] * o[2] + o[3] * o[3], o[0] * o[1], "single segment: |XY|^2 = XX*YY (L3), i.e. coherence 1")
            except Unknown as ex:
                ctx.ob(f"{rule}[coh=1]", key, UNKNOWN, str(ex), kw)
            flush()
