"""E5/E6 - loop summarisation by idiom.  A loop body is interpreted ONCE on a state in
which every loop-carried scalar is a fresh entry symbol; the resulting next-state
expressions are classified:
  unchanged | temp | accumulator (-> Sum) | Goertzel second-order recurrence (-> L1) |
  comprehension store | list append (-> per-iteration record) | havoc (opaque).
Nothing is unrolled or iterated to a fixed point: what is not one of the idioms is opaque.
"""
import ast

from .symalg import X, Unknown, mk_fn, mk_idx, mk_sum, V, Atom, C, KIND, I_
from .values import *
from . import libmodel as lm


def assigned_names(body):
    out = set()

    class Vis(ast.NodeVisitor):
        def visit_FunctionDef(s, n): out.add(n.name)
        def visit_Lambda(s, n): pass

        def visit_Name(s, n):
            if isinstance(n.ctx, (ast.Store, ast.Del)): out.add(n.id)
    v = Vis()
    for st in body: v.visit(st)
    return out


def _containers(env):
    seen = {}
    stack = list(env.values())
    while stack:
        v = stack.pop()
        if isinstance(v, (ListVal, LocalArr, DictVal, Obj)):
            if id(v) in seen: continue
            seen[id(v)] = v
            if isinstance(v, ListVal): stack.extend(v.items)
            elif isinstance(v, DictVal): stack.extend(v.d.values())
            elif isinstance(v, Obj): stack.extend(v.attrs.values())
        elif isinstance(v, (tuple, list)):
            stack.extend(v)
    return seen


def _leaves(v):
    if isinstance(v, PV):
        yield from _leaves(v.hi); yield from _leaves(v.lo)
    else:
        yield v


def _fv(v):
    out = set()
    for l in _leaves(v):
        if isinstance(l, X): out |= l.fv()
        elif isinstance(l, Arr):
            out |= _fv(l.body)
        elif isinstance(l, tuple):
            for e in l: out |= _fv(e)
    return out


def _positive(v):
    x = to_x(v)
    if x is None: return False
    n, d = x.rational()
    if not (n.single() and d.single()): return False
    for p in (n, d):
        (m, c), = p.t.items()
        if c.im != 0 or c.re <= 0: return False
        for a, e in m:
            if a.kind != "pos": return False
    return True


def _is_scalar(v):
    if isinstance(v, X): return True
    if isinstance(v, (int, float)) and not isinstance(v, bool): return True
    if isinstance(v, PV): return all(_is_scalar(l) or is_opaque(l) for l in _leaves(v))
    return False


def summarise(I, n, it, st):
    is_while = isinstance(n, ast.While)
    if is_while:
        ivar = fresh("it"); KIND.setdefault(ivar, "real")
        count = X.var(fresh("trips")); value = None
    else:
        gen = lm.iter_symbolic(I, it, st)
        if gen is None:
            for nm in assigned_names(n.body) | assigned_names([n.target]):
                st.env[nm] = Opaque(f"loop over {type(it).__name__}")
            # containers the skipped body stores into are no longer known: a dictionary becomes open, a list / local array opaque
            touched = set()
            for x in ast.walk(ast.Module(body=list(n.body), type_ignores=[])):
                tg = []
                if isinstance(x, ast.Assign): tg = x.targets
                elif isinstance(x, ast.AugAssign): tg = [x.target]
                for t in tg:
                    if isinstance(t, ast.Subscript):
                        b = t.value
                        while isinstance(b, ast.Subscript): b = b.value
                        if isinstance(b, ast.Name): touched.add(b.id)
                if isinstance(x, ast.Call) and isinstance(x.func, ast.Attribute) and isinstance(x.func.value, ast.Name) and \
                        x.func.attr in ("append", "extend", "update", "add", "insert", "setdefault", "pop", "clear", "appendleft"):
                    touched.add(x.func.value.id)
            for nm in touched:
                cur = st.env.get(nm)
                if isinstance(cur, DictVal): cur.open = True
                elif isinstance(cur, (ListVal, LocalArr)): st.env[nm] = Opaque(f"container filled in a loop over {type(it).__name__}")
            return None
        ivar, count, value = gen
    names = assigned_names(n.body)
    trial = st.clone()
    memo = trial._memo
    entry = {}
    flags = {}
    for nm in sorted(names):
        pre = st.env.get(nm)
        if pre is not None and _is_scalar(pre):
            en = fresh(f"{nm}@"); KIND[en] = "pos" if _positive(pre) else "real"
            entry[nm] = (en, pre)
            trial.env[nm] = X.var(en)
        elif isinstance(pre, bool):
            # loop-carried flag: unknown at the entry of an arbitrary iteration
            en = fresh(f"{nm}@")
            c = Cond.get(("flag", en), f"{nm} (at loop entry)"); c.flag = (nm, pre)
            flags[nm] = (c, pre)
            trial.env[nm] = PV(c, True, False)
    cont0 = _containers(trial.env)
    len0 = {}
    for cid, cv in cont0.items():
        if isinstance(cv, ListVal): len0[cid] = len(cv.items)
        elif isinstance(cv, LocalArr): len0[cid] = len(cv.stores)
    for cid, cv in cont0.items():
        if isinstance(cv, ListVal) and getattr(cv, "trial", None) is None: cv.trial = (ivar, len(cv.items), bool(cv.per_iter))
    trial.ranges[ivar] = (X.const(0), count)
    trial.loop_exits = []
    if not is_while:
        I.assign(n.target, value, trial)
        test_val = None
    else:
        test_val = I.eval(n.test, trial)
    ev0 = len(trial.events)
    r = I.exec_block(n.body, trial)
    entry_names = {en for en, _ in entry.values()}
    summary = {"ivar": ivar, "count": count, "entry": {k: en for k, (en, pre) in entry.items()}, "pre": {k: pre for k, (en, pre) in entry.items()},
               "next": {}, "appends": {}, "test": test_val, "exits": list(getattr(trial, "loop_exits", [])),
               "env": trial.env, "node": n, "is_while": is_while, "assumed": list(trial.assumed[len(st.assumed):]),
               "events": trial.events[ev0:], "result": r, "early": list(trial.early)}
    I.loop_summaries[id(n)] = summary
    I.loop_summaries.setdefault("by_line", {})[getattr(n, "lineno", 0)] = summary
    last = {ivar: count - 1}

    def split_cond(vals):
        for v in vals:
            stack = [v]
            while stack:
                x = stack.pop()
                if isinstance(x, PV):
                    cf = _cond_fv(x.cond)
                    if not (cf & (entry_names | {ivar, "<flag>", "<opaque>"})) and (getattr(x.cond, "lt", None) is not None or getattr(x.cond, "eq", None) is not None or getattr(x.cond, "tree", None) is not None):
                        return x.cond
                    stack.append(x.hi); stack.append(x.lo)
        return None

    def classify(newmap, depth=0):
        final = {}
        pending = {}
        if depth < 40:
            c = split_cond([v for v in newmap.values() if isinstance(v, PV)])
            if c is not None:
                hi = classify({k: pv_restrict(v, c, True) for k, v in newmap.items()}, depth + 1)
                acc_hi = dict(summary.get("accumulators", {}))
                summary["accumulators"] = {}
                lo = classify({k: pv_restrict(v, c, False) for k, v in newmap.items()}, depth + 1)
                acc_lo = dict(summary.get("accumulators", {}))
                summary["accumulators"] = {k: mk_pv(c, acc_hi[k], acc_lo[k]) for k in acc_hi if k in acc_lo}
                return {k: mk_pv(c, hi[k], lo[k]) for k in newmap}
        # ---- running means (Welford): m' = m + (v - m)/(j + 1) over j = 0..count-1 from m = 0 is the mean of v; a sum of (v - m)(v - m') alongside it
        #      is the sum of squared deviations from the final mean (lemma L24); any other use of m is expressed through m(j) = sum_{u<j} v(u) / max(j, 1)
        means = {}
        if not is_while and isinstance(value, X) and value.eq(X.var(ivar)):
            for nm, (en, pre) in entry.items():
                new = newmap.get(nm)
                if not isinstance(new, X) or to_x(pre) is None or not to_x(pre).iszero(): continue
                try:
                    b0 = new.subst({en: X.const(0)})
                    a0 = new.subst({en: X.const(1)}) - b0
                    if not (b0 + a0 * X.var(en)).eq(new): continue
                    if (a0.fv() | b0.fv()) & entry_names: continue
                    jv = X.var(ivar)
                    if not a0.eq(jv / (jv + 1)): continue
                    v_ = b0 * (jv + 1)                       # the sample averaged at step j
                    u_ = fresh("u")
                    at_j = mk_sum(u_, jv, v_.subst({ivar: X.var(u_)})) / mk_fn("max", [jv, X.const(1)], "pos")
                    fin = mk_sum(ivar, count, v_) / count
                    means[nm] = (en, v_, at_j, fin, new)
                except Unknown:
                    continue
        if means:
            sub_at = {en: at_j for (en, v_, at_j, fin, new) in means.values()}
            for nm in list(newmap):
                if nm in means or nm not in entry: continue
                new = newmap.get(nm)
                if not isinstance(new, X) or not (new.fv() & set(sub_at)): continue
                en_self = entry[nm][0]
                try:
                    inc = new - X.var(en_self)
                    if en_self in inc.fv(): continue
                    done = False
                    for mn, (en_m, v_, at_j, fin, new_m) in means.items():
                        if inc.eq((v_ - X.var(en_m)) * (v_ - new_m)):
                            # Welford: sum_j (v_j - m_{j-1})(v_j - m_j) = sum_j (v_j - mean)^2
                            newmap = dict(newmap); newmap[nm] = X.var(en_self) + (v_ - fin) * (v_ - fin); done = True; break
                    if not done:
                        newmap = dict(newmap); newmap[nm] = X.var(en_self) + inc.subst(sub_at)
                except Unknown:
                    continue
        for nm, (en, pre) in entry.items():
            if nm in means:
                final[nm] = means[nm][3]
                summary.setdefault("running_means", {})[nm] = means[nm][2]
                continue
            new = newmap.get(nm)
            fe = _fv(new) & entry_names
            if new is None or is_opaque(new):
                final[nm] = Opaque(f"loop-carried {nm}") if new is None else new; continue
            if isinstance(new, X) and new.eq(X.var(en)):
                final[nm] = pre; continue
            if not fe:
                if any(is_opaque(l) for l in _leaves(new)):
                    final[nm] = Opaque(f"{nm} opaque in loop")
                elif is_while: final[nm] = Opaque(f"{nm} after while loop")
                else: final[nm] = subst_val(new, last)
                continue
            if isinstance(new, X):
                try:
                    inc = new - X.var(en)
                except Unknown:
                    inc = None
                if inc is not None and not (inc.fv() & entry_names):
                    if is_while: final[nm] = Opaque(f"{nm} accumulates over a while loop")
                    else: final[nm] = to_x(pre) + mk_sum(ivar, count, inc) if to_x(pre) is not None else Opaque("accumulator with conditional start")
                    summary.setdefault("accumulators", {})[nm] = inc
                    continue
            pending[nm] = new
        # ---- Goertzel second-order recurrence
        while pending and not is_while:
            # several independent recurrences may share one loop (both channels of a pair processed in a single pass)
            gz = _goertzel(pending, entry, ivar, count, entry_names)
            if not gz: break
            final.update(gz); summary["goertzel"] = True
            for k in gz: pending.pop(k, None)
        for nm in pending:
            final[nm] = Opaque(f"loop-carried {nm} (no idiom)")
        return final

    newmap = {nm: trial.env.get(nm) for nm in entry}
    for nm in entry: summary["next"][nm] = newmap[nm]
    final = classify(newmap)
    # ---- names first bound inside the loop
    for nm in names:
        if nm in entry: continue
        new = trial.env.get(nm)
        if isinstance(new, (ListVal, LocalArr, DictVal, Obj)) and id(new) in memo.values():
            continue
        if nm in st.env and isinstance(st.env[nm], (ListVal, LocalArr, DictVal, Obj)):
            continue
        if new is None: continue
        if _is_scalar(new) or isinstance(new, Arr):
            if _fv(new) & entry_names or is_while: final[nm] = Opaque(f"{nm} defined in loop")
            else: final[nm] = subst_val(new, last)
        else:
            final[nm] = new if not is_while else new
    # ---- per-iteration records must not mention bare entry symbols: an accumulator's entry value is its closed form,
    #      any other loop-carried value becomes an (unknown) function of the iteration index
    remap = {}
    for nm, (en, pre) in entry.items():
        if nm in summary.get("running_means", {}):
            remap[en] = summary["running_means"][nm]; continue
        acc = summary.get("accumulators", {}).get(nm)
        if acc is not None and not is_while and to_x(pre) is not None and not (_fv(acc) & entry_names):
            u = fresh("u")
            remap[en] = pv_apply(lambda a_: to_x(pre) + mk_sum(u, X.var(ivar), a_.subst({ivar: X.var(u)})), acc)
        else:
            from .symalg import ARRAY_KIND
            ARRAY_KIND[en] = KIND.get(en, "real")
            remap[en] = mk_idx(en, [X.var(ivar)], KIND.get(en, "real"))
    summary["remap"] = remap
    summary["flags"] = flags

    def rm(v):
        return subst_pv(v, remap) if remap else v
    # ---- containers: convert growth during the trial iteration into per-iteration records
    inv = {id(v): k for k, v in memo.items()}    # clone id -> original id
    orig = _containers(st.env)
    name_of = {}
    for nm_, v_ in trial.env.items():
        if isinstance(v_, (ListVal, LocalArr, DictVal)): name_of.setdefault(id(v_), nm_)
    summary["appends_by_name"] = {}
    for cid, cv in _containers(trial.env).items():
        oid = inv.get(cid)
        if oid is None or oid not in orig: continue
        ov = orig[oid]
        if isinstance(cv, ListVal):
            new_items = cv.items[len0.get(cid, 0):]
            summary["appends"][oid] = new_items
            if cid in name_of: summary["appends_by_name"][name_of[cid]] = list(new_items)
            for item in new_items:
                ov.per_iter.append((ivar, count, _rm_deep(item, remap)))
            if getattr(cv, "sym_stores", None):
                ov.sym_stores = getattr(ov, "sym_stores", []) + [(ivar, count, rm(s_[0]), _rm_deep(s_[1], remap)) for s_ in cv.sym_stores if len(s_) == 2] + \
                    [s_ for s_ in cv.sym_stores if len(s_) != 2]
            # items mutated in place (D_arr[j].append) are handled by clients through the summary
        elif isinstance(cv, LocalArr):
            for rec in cv.stores[len0.get(cid, 0):]:
                if rec[0] == "opaque":
                    ov.stores.append(rec); continue
                binders, sidx, val = rec[0], rec[1], rec[2]
                extra = rec[3:]
                nb = ((ivar, count),) + tuple(binders)
                nrec = (nb, tuple(rm(i_) for i_ in sidx), rm(val)) + tuple(extra)
                nrec = _flatten_chunk(nrec, n, it, trial, summary, total=(ov.shape[0] if len(ov.shape) == 1 else None))
                ov.stores.append(nrec)
        elif isinstance(cv, DictVal):
            for k, v in cv.d.items():
                if k in ov.d and (memo.get(id(ov.d[k])) is v or vkey(ov.d[k]) == vkey(v)): continue
                if isinstance(v, (ListVal, DictVal, LocalArr, Obj)) and inv.get(id(v)) in orig:
                    ov.d[k] = orig[inv[id(v)]]; continue
                ov.d[k] = Opaque(f"dict entry {k!r} written in loop") if (_fv(v) & (entry_names | {ivar})) else v
        elif isinstance(cv, Obj):
            for k, v in cv.attrs.items():
                if k in ov.attrs and (memo.get(id(ov.attrs[k])) is v or vkey(ov.attrs[k]) == vkey(v)): continue
                if isinstance(v, (ListVal, DictVal, LocalArr, Obj)) and inv.get(id(v)) in orig:
                    ov.attrs[k] = orig[inv[id(v)]]; continue
                ov.attrs[k] = Opaque(f"attribute {k} written in loop")
    if is_while and not summary["exits"]:
        # a name last assigned inside a while loop holds, after the loop, its value of the LAST iteration (it = trips - 1): per-iteration
        # expression with the loop-carried entry symbols expressed per iteration
        for nm, v in list(final.items()):
            if isinstance(v, Opaque) and (v.why.endswith("after while loop") or v.why.endswith("defined in loop")):
                cur = trial.env.get(nm)
                if cur is not None and _is_scalar(cur) and not any(is_opaque(l) for l in _leaves(cur)):
                    try: final[nm] = subst_val(subst_pv(cur, remap), last)
                    except Unknown: pass
    for nm, v in final.items():
        st.env[nm] = v
    if not is_while and isinstance(n.target, ast.Name):
        st.env[n.target.id] = subst_val(value, last) if _is_scalar(value) else Opaque("loop variable after loop")
    st.assumed.extend(a for a in trial.assumed if a not in st.assumed and not (_cond_fv(a[0]) & (entry_names | {ivar})))
    return None


def subst_pv(v, remap):
    """substitution whose replacement values may be decision trees."""
    plain = {k: x for k, x in remap.items() if isinstance(x, X)}
    trees = {k: x for k, x in remap.items() if isinstance(x, PV)}
    if plain: v = subst_val(v, plain)
    for k, t in trees.items():
        if k in _fv(v) or (isinstance(v, Arr) and k in _fv(v.body)):
            v = pv_apply(lambda leaf, k=k, v=v: subst_val(v, {k: leaf}), t)
    return v


def _rm_deep(v, remap):
    if not remap: return v
    if isinstance(v, ListVal):
        v.items = [_rm_deep(e, remap) for e in v.items]
        v.per_iter = [(p[0], subst_pv(p[1], remap), _rm_deep(p[2], remap)) + tuple(p[3:]) if isinstance(p, tuple) and len(p) >= 3 else p for p in v.per_iter]
        return v
    return subst_pv(v, remap)


def _cond_fv(c):
    from .values import _cond_fvs
    if getattr(c, "flag", None) is not None: return {"<flag>"}
    if c.key and c.key[0] in ("src",): return {"<opaque>"}
    return _cond_fvs(c)


STRICT_RECURRENCES = [False]     # set by the statistics-kernel evaluation: every second-order recurrence there is one channel's own Goertzel filter


def _goertzel(pending, entry, ivar, count, entry_names):
    names = list(pending)
    for s1 in names:
        for s2 in names:
            if s1 == s2: continue
            e1, p1 = entry[s1]; e2, p2 = entry[s2]
            n2 = pending[s2]; n1 = pending[s1]
            if not (isinstance(n2, X) and isinstance(n1, X)): continue
            two = None
            if not n2.eq(X.var(e1)):
                # the recurrence unrolled by two: s2' = u0 + c s1 - s2 (one step on sample 2i), s1' = u1 + c s2' - s1 (a second step on sample 2i+1).
                # It is the single-step recurrence over the interleaved sequence v(2i) = u0(i), v(2i+1) = u1(i) of 2*count samples.
                two = _two_step(n1, n2, e1, e2, ivar, entry_names)
                if two is None: continue
            z = {e1: X.const(0), e2: X.const(0)}
            if two is not None:
                v2_, c2_, mvar = two
                x1, x2 = to_x(p1), to_x(p2)
                if x1 is None or x2 is None or not x1.iszero() or not x2.iszero():
                    why = "Goertzel recurrence does not start from zero state"
                    return {s1: Mismatch(why), s2: Mismatch(why)}
                th = _theta(c2_)
                if th is None: continue
                cnt2 = X.const(2) * count
                mv = X.var(mvar)
                Vsum = mk_sum(mvar, cnt2, v2_ * mk_fn("cis", [-(th * mv)]))
                W = mk_fn("cis", [th * (cnt2 - 1)]) * Vsum
                sin = mk_fn("sin", [th]); cos = mk_fn("cos", [th])
                s2f = W.imag() / sin
                s1f = W.real() + cos * s2f
                return {s1: s1f, s2: s2f}
            try:
                v = n1.subst(z)
                c = n1.subst({e1: X.const(1), e2: X.const(0)}) - v
                d = n1.subst({e1: X.const(0), e2: X.const(1)}) - v
                lin = v + c * X.var(e1) + d * X.var(e2)
                if not lin.eq(n1):
                    if STRICT_RECURRENCES[0] and e1 in n1.fv():
                        # inside a statistics kernel a state pair whose second member is the delayed first one is a Goertzel filter: its update must be
                        # the linear form x[n] + c*s1 - s2
                        why = (f"the state pair ({s1}, {s2}) is a delay line ({s2}' = {s1}) but the update of {s1} is not linear in the two state variables: "
                               "it is not the second-order Goertzel recurrence x[n] + 2cos(w)*s1 - s2")
                        return {s1: Mismatch(why), s2: Mismatch(why)}
                    continue
            except Unknown:
                if STRICT_RECURRENCES[0] and two is None and e1 in n1.fv():
                    why = (f"the state pair ({s1}, {s2}) is a delay line ({s2}' = {s1}) but the update of {s1} is not a polynomial of degree one in the state "
                           "(a state variable is divided by / raised to a power): it is not the second-order Goertzel recurrence x[n] + 2cos(w)*s1 - s2")
                    return {s1: Mismatch(why), s2: Mismatch(why)}
                continue
            if (v.fv() | c.fv() | d.fv()) & entry_names:
                foreign = sorted(nm for nm, (en, _) in entry.items() if en in (v.fv() | c.fv() | d.fv()) and nm not in (s1, s2))
                if STRICT_RECURRENCES[0] and foreign and d.eq(X.const(-1)):
                    why = (f"the second-order recurrence carried in ({s1}, {s2}) reads the state variable {foreign[0]} of another recurrence: the two channels' "
                           "Goertzel filters are coupled, so this channel's transform is contaminated by the other channel")
                    return {s1: Mismatch(why), s2: Mismatch(why)}
                continue
            out = {}
            if not d.eq(X.const(-1)):
                why = f"second-order recurrence with s[n-2] coefficient {d!r} instead of -1"
                out[s1] = Mismatch(why); out[s2] = Mismatch(why)
            elif ivar in c.fv():
                continue
            else:
                x1, x2 = to_x(p1), to_x(p2)
                if x1 is None or x2 is None or not x1.iszero() or not x2.iszero():
                    why = "Goertzel recurrence does not start from zero state"
                    out[s1] = Mismatch(why); out[s2] = Mismatch(why)
                else:
                    th = _theta(c)
                    if th is None:
                        why = f"recurrence coefficient {c!r} is not 2*cos(theta)"
                        if any(a.tag == "fn" and a.name not in ("cos", "sin") for a in c.all_atoms()):
                            out[s1] = Opaque(why); out[s2] = Opaque(why)
                        else:
                            out[s1] = Mismatch(why); out[s2] = Mismatch(why)
                    else:
                        iv = X.var(ivar)
                        Vsum = mk_sum(ivar, count, v * mk_fn("cis", [-(th * iv)]))
                        W = mk_fn("cis", [th * (count - 1)]) * Vsum
                        sin = mk_fn("sin", [th]); cos = mk_fn("cos", [th])
                        s2f = W.imag() / sin
                        s1f = W.real() + cos * s2f
                        out[s1] = s1f; out[s2] = s2f
            # temporaries equal to the new s1 (the usual s0)
            for other in names:
                if other in (s1, s2): continue
                no = pending[other]
                if isinstance(no, X) and no.eq(n1): out[other] = out[s1]
            return out
    return None


def _two_step(n1, n2, e1, e2, ivar, entry_names):
    """(v(m), c, m) if (n1, n2) is two Goertzel steps per iteration on consecutive samples, else None."""
    from fractions import Fraction
    z = {e1: X.const(0), e2: X.const(0)}
    try:
        u0 = n2.subst(z)
        c = n2.subst({e1: X.const(1), e2: X.const(0)}) - u0
        d = n2.subst({e1: X.const(0), e2: X.const(1)}) - u0
        if not (u0 + c * X.var(e1) + d * X.var(e2)).eq(n2) or not d.eq(X.const(-1)): return None
        if (u0.fv() | c.fv()) & entry_names or ivar in c.fv(): return None
        u1 = n1 - (c * n2 - X.var(e1))
        if u1.fv() & entry_names: return None
        # consecutive samples: the second input is the first one half an iteration later
        if not u1.eq(u0.subst({ivar: X.var(ivar) + X.const(Fraction(1, 2))})): return None
        m = fresh("m"); KIND[m] = "nat"
        return u0.subst({ivar: X.var(m) * X.const(Fraction(1, 2))}), c, m
    except Unknown:
        return None


def _theta(c):
    """c == 2*cos(theta) -> theta."""
    h = c * X.const(Fr_half())
    if len(h.m) == 1 and not h.p and h.c == C(1):
        (a, e), = h.m.items()
        if e == 1 and a.tag == "fn" and a.name == "cos":
            return a.args[0]
    return None


def Fr_half():
    from fractions import Fraction
    return Fraction(1, 2)


def _flatten_blocks(rec, total, summary):
    """blocks given by an arbitrary (lo, hi) sequence: for c in range(n): a[S*c : min(S*c + S, K)] = v  -> one binder over [0, K) when the
    blocks tile [0, K); a definite Mismatch when a count K is exhibited for which they do not (trailing elements never stored)."""
    binders, sidx, val = rec[0], rec[1], rec[2]
    if len(binders) != 2 or len(sidx) != 1 or len(rec) > 3 or total is None: return rec
    (iv, icount), (tv, tcount) = binders
    try:
        lo = sidx[0] - X.var(tv)
        if tv in lo.fv(): return rec
        lo0 = lo.subst({iv: X.const(0)}); S = lo.subst({iv: X.const(1)}) - lo0
        if not lo0.iszero() or iv in S.fv() or not (S * X.var(iv)).eq(lo): return rec
        want = lm.canon_minmax('min', [lo + S, total])
        if not (tcount + lo).eq(want): return rec
        end = lm.canon_minmax('min', [icount * S, total])
    except Unknown:
        return rec
    J = fresh("J")
    try: ceil_count = icount.eq(mk_fn("ceil", [total / S]))          # S * ceil(K / S) >= K: the blocks reach the end
    except Unknown: ceil_count = False
    if not end.eq(total) and not ceil_count:
        # do the blocks reach the end?  look for a concrete count for which they do not
        from .symalg import NumEnv, evalx
        for kval in (1, 2, 3, 5, 7, 10, 11, 13, 100, 101, 1000, 1001, 32769, 65537, 100003):
            env = NumEnv(1)
            for nm in (total.fv() | end.fv()): env.fixed[nm] = float(kval)
            try:
                a, b = evalx(end, env).real, evalx(total, env).real
            except Exception:
                continue
            if abs(a - b) > 1e-9:
                return (((J, total),), (X.var(J),), Mismatch(f"the blocks [{lo!r}, {want!r}) for {iv} < {icount!r} cover only {a:.0f} of {b:.0f} elements (e.g. for a count of {kval}): "
                                                              "the trailing elements are never stored and uninitialised memory enters the result"))
        return rec
    v2 = subst_val(val, {tv: X.var(J) - lo})
    if iv in lm_fv(v2):
        if not _aggregates_over(v2, iv): return rec
        return (((J, total),), (X.var(J),), Mismatch("the value stored for a segment depends on the block it is processed in"))
    summary.setdefault("chunked", []).append(J)
    return (((J, total),), (X.var(J),), v2)


def _flatten_chunk(rec, n, it, trial, summary, total=None):
    if not isinstance(it, lm.RangeVal):
        return _flatten_blocks(rec, total, summary)
    return _flatten_chunk_range(rec, n, it, trial, summary)


def _flatten_chunk_range(rec, n, it, trial, summary):
    """chunk idiom: for j0 in range(0, K, c): j1 = min(j0+c, K); p[j0:j1] = A
    -> a single binder J over [0, K) when the stored value depends on (j0 + t) only."""
    binders, sidx, val = rec[0], rec[1], rec[2]
    if len(binders) != 2 or len(sidx) != 1 or len(rec) > 3: return rec
    if not isinstance(it, lm.RangeVal): return rec
    (iv, icount), (tv, tcount) = binders
    lo, hi, step = it.lo, it.hi, it.step
    if not lo.iszero(): return rec
    j0 = step * X.var(iv)
    if not sidx[0].eq(j0 + X.var(tv)): return rec
    # partition lemma: tcount + j0 == min(j0 + step, hi)
    want = lm.canon_minmax('min', [j0 + step, hi])
    want_len = lm.canon_minmax('min', [step, hi - j0])           # the same partition written as a block length: min(c, K - j0)
    if not (tcount + j0).eq(want) and not tcount.eq(want_len):
        return (binders, sidx, Mismatch(f"chunk store of length {tcount!r} at {j0!r} does not tile [0,{hi!r}) in steps of {step!r}"))
    J = fresh("J")
    # substitute t := J - j0 and require independence from the chunk index
    v2 = subst_val(val, {tv: X.var(J) - j0})
    if iv in lm_fv(v2):
        # after re-indexing by the global segment number the stored value still mentions the chunk.  It is certainly not a function of the
        # segment alone when it aggregates over the chunk's extent (a sum whose length depends on the chunk); a mere case split on the chunk
        # length (fast paths for short chunks) may still compute the same values and stays undecided
        if not _aggregates_over(v2, iv): return rec
        return (((J, hi),), (X.var(J),), Mismatch("the value stored for a segment depends on the chunk it is processed in (e.g. a mean taken over the chunk's "
                                                    "segments instead of over the segment's own samples): the statistic changes with the chunk size"))
    summary.setdefault("chunked", []).append(J)
    return (((J, hi),), (X.var(J),), v2)


def lm_fv(v):
    return _fv(v)


def _aggregates_over(v, name):
    """does the value contain a sum whose number of terms depends on `name`?"""
    from .values import PV, Arr
    if isinstance(v, PV): return _aggregates_over(v.hi, name) or _aggregates_over(v.lo, name)
    if isinstance(v, Arr): return _aggregates_over(v.body, name)
    if isinstance(v, tuple): return any(_aggregates_over(e, name) for e in v)
    if not isinstance(v, X): return False
    def walk(x):
        for a in x.all_atoms():
            if a.tag == "sum":
                cnt, body = a.args
                if isinstance(cnt, X) and name in cnt.fv(): return True
        return False
    return walk(v)


# ---------------------------------------------------------------------------- CUDA launch
def cuda_launch(I, launch, args, kwargs, st, n):
    """kernel[blocks, threads](args): every thread index tau in [0, blocks*threads) runs the body;
    summarised like a parallel for-loop over tau."""
    fn = launch.fn
    cfg = launch.cfg
    if len(cfg) != 2: return Opaque("launch configuration")
    blocks, threads = to_x(cfg[0]), to_x(cfg[1])
    if blocks is None or threads is None: return Opaque("launch configuration")
    grid = blocks * threads
    tau = fresh("tau"); KIND[tau] = "nat"
    trial = St_for_kernel(I, fn, args, kwargs, st)
    if is_opaque(trial): return trial
    cont0 = {id(a): (a, len(a.stores)) for a in args if isinstance(a, LocalArr)}
    old = I.hooks.get("cuda_grid")
    I.hooks["cuda_grid"] = lambda I_, st_: X.var(tau)
    trial.ranges[tau] = (X.const(0), grid)
    old_dec = I.hooks.get("decide")

    def dec(cond):
        # a guard on the segment start that has one truth value for every admissible start is decided at once (no case split)
        v = _admissible_truth(cond, tau)
        if v is True or v is False: return v
        return old_dec(cond) if old_dec is not None else None
    I.hooks["decide"] = dec
    try:
        I.depth += 1
        I.exec_block(fn.node.body, trial)
    finally:
        I.depth -= 1
        if old is None: I.hooks.pop("cuda_grid", None)
        else: I.hooks["cuda_grid"] = old
        if old_dec is None: I.hooks.pop("decide", None)
        else: I.hooks["decide"] = old_dec
    facts = {"grid": grid, "blocks": blocks, "threads": threads, "tau": tau, "kernel": fn.key, "guards": []}
    for a, l0 in cont0.values():
        for i in range(l0, len(a.stores)):
            rec = a.stores[i]
            if rec[0] == "opaque": continue
            binders, sidx, val = rec[0], rec[1], rec[2]
            extra = rec[3:]
            cnt = grid
            rest = []
            for ex in extra:
                if isinstance(ex, tuple) and ex[0] == "under":
                    cond, pol = ex[1], ex[2]
                    d = getattr(cond, "lt", None)
                    # tau - B < 0  (polarity True)
                    if d is not None and pol is True and (d - X.var(tau)).fv().isdisjoint({tau}):
                        B = X.var(tau) - d
                        facts["guards"].append(B)
                        cnt = B
                        continue
                    # a data-dependent guard inside the kernel: decide it for every admissible segment start 0 <= s <= N - L
                    # (the host-side bounds check dominates every launch, C02.R6) by evaluating it at the two extreme starts
                    verdict = _admissible_truth(cond, tau)
                    if verdict is not None:
                        if verdict == "mixed":
                            val = Mismatch(f"the kernel stores this statistic only {'when' if pol else 'unless'} [{cond.text}], which changes over the admissible segment starts "
                                           "0 <= s <= N-L: e.g. the last admissible segment (s = N-L, ending exactly at the record end) takes the other branch")
                            continue
                        if verdict == pol: continue            # holds for every admissible start: the store is unconditional
                        val = None; break                      # never happens for an admissible start: the store is dead
                rest.append(ex)
            if val is None:
                a.stores[i] = ("dead",)
                continue
            a.stores[i] = (((tau, cnt),) + tuple(binders), sidx, val) + tuple(rest)
        a.stores[:] = [r_ for r_ in a.stores if r_ != ("dead",)]
    st.events.append(("cuda-launch", facts, n))
    I.call_log.append((fn.key, args, kwargs, n))
    return None


def _admissible_truth(cond, tau):
    """truth of a kernel-internal guard over all admissible starts: True / False if it is the same at s = 0 and s = N - L (affine in s),
    'mixed' if it differs, None if it is not a condition on the segment start."""
    d = getattr(cond, "lt", None)
    if d is None: return None
    sat = [a for a in d.all_atoms() if a.tag == "idx" and len(a.args) == 1 and isinstance(a.args[0], X) and a.args[0].eq(X.var(tau))]
    if len(sat) != 1: return None
    s_at = sat[0]
    shapes = [a for a in d.all_atoms() if a.tag == "v" and a.name.endswith(".shape0") and not a.name.startswith(s_at.name + ".")]
    KIND["M_adm"] = "pos"
    M = X.var("M_adm"); L = X.var("L")
    out = []
    for sval in (X.const(0), M):
        try:
            def is_len(a):
                if a in shapes: return True
                # min(N1, N2): the common admissible length of two records
                return a.tag == "fn" and a.name in ("min", "max") and all(isinstance(g, X) and len(list(g.all_atoms())) >= 1 and all(b in shapes for b in g.atoms()) and g.eq(X.atom(list(g.atoms())[0])) for g in a.args)
            e = d.map_atoms(lambda a: (sval if a == s_at else (M + L) if is_len(a) else X.atom(a)))
        except Exception:
            return None
        # min(N1, N2) of two records of the same admissible length
        e2 = e
        sg = _sign_simple(e2)
        if sg is None: return None
        out.append(sg < 0)
    return out[0] if out[0] == out[1] else "mixed"


def _sign_simple(x):
    c = x.constval()
    if c is not None and c.im == 0: return (c.re > 0) - (c.re < 0)
    n, dn = x.rational()
    if len(n.t) == 1 and len(dn.t) == 1:
        (m, cf), = n.t.items(); (m2, cf2), = dn.t.items()
        if cf.im == 0 and cf2.im == 0 and all(a.kind == "pos" for a, e in list(m) + list(m2)):
            sgn = (cf.re > 0) - (cf.re < 0); sgn2 = (cf2.re > 0) - (cf2.re < 0)
            return sgn * sgn2
    return None


def St_for_kernel(I, fn, args, kwargs, st):
    from .absint import St
    fst = St()
    fst.events = st.events
    fst.mod = fn.key.split("::")[0]
    fst.fn_key = fn.key
    try:
        fst.env.update(I.bind_args(fn.node, list(args), dict(kwargs), fst))
    except Unknown as ex:
        return Opaque(str(ex))
    return fst
