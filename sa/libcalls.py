"""library call handlers (part of the E3 library model)."""
import ast
from fractions import Fraction as Fr

from .symalg import X, Unknown, mk_fn, mk_idx, mk_sum, V, Atom, C, KIND, ARRAY_KIND, I_
from .values import *
from . import libmodel as lm

PI = None


def _pi():
    KIND.setdefault("pi", "pos")
    return X.var("pi")


def _x(v):
    return to_x(v)


def _is_arr(v): return isinstance(v, (Arr, ArrParam, LocalArr))


def _arr(v, st=None):
    if isinstance(v, LocalArr): return lm.local_to_arr(v, st)
    return as_arr(v)


def elementwise(f):
    def h(I, args, kw, st, n):
        a = args[0]
        if isinstance(a, LocalArr): a = _arr(a, st)
        if a is None: return Opaque("partially filled local array")
        if isinstance(a, ListVal): a = list_to_arr(a)
        return lift1(f, a)
    return h


def list_to_arr(l):
    if isinstance(l, ListVal):
        if l.per_iter and not l.items and len(l.per_iter) == 1 and isinstance(l.per_iter[0], tuple):
            var, count, val = l.per_iter[0][:3]
            for rec in reversed(getattr(l, "sym_stores", [])):
                if len(rec) == 4 and isinstance(rec[2], X) and rec[2].eq(X.var(rec[0])) and rec[1].eq(count):
                    val = subst_val(rec[3], {rec[0]: X.var(var)}); break       # every element overwritten by a later loop
            if isinstance(val, (X, PV)) or to_x(val) is not None:
                nv = fresh("i")
                return Arr([(nv, count)], subst_val(val, {var: X.var(nv)}))
            return Opaque("array of non-scalars")
        if not l.per_iter:
            items = l.items
            if len(items) == 1 and (to_x(items[0]) is not None or isinstance(items[0], PV)):
                return Arr([(fresh("i"), X.const(1))], items[0])
            if len(items) == 1 and _is_arr(items[0]):
                A = _arr(items[0])
                if A is None: return Opaque("array of local array")
                return Arr([(fresh("i"), X.const(1))] + list(A.axes), A.body)
            if items and all(to_x(e) is not None for e in items):
                nv = fresh("i"); body = to_x(items[-1])
                for k in range(len(items) - 2, -1, -1):
                    c = lm._cond_eq(X.var(nv), X.const(k), f"{nv}=={k}")
                    body = mk_pv(c, to_x(items[k]), body)
                return Arr([(nv, X.const(len(items)))], body)
            if not items: return Arr([(fresh("i"), X.const(0))], X.const(0))
            rows = [r.items if isinstance(r, ListVal) and not r.per_iter else list(r) if isinstance(r, (list, tuple)) else None for r in items]
            if items and all(r is not None for r in rows) and len({len(r) for r in rows}) == 1 and rows[0] and all(to_x(e) is not None for r in rows for e in r):
                # a list of equally long rows of scalars: a 2-D array
                nv, mv = fresh("i"), fresh("j")
                def row_body(r):
                    b = to_x(r[-1])
                    for k in range(len(r) - 2, -1, -1): b = mk_pv(lm._cond_eq(X.var(mv), X.const(k), f"{mv}=={k}"), to_x(r[k]), b)
                    return b
                body = row_body(rows[-1])
                for k in range(len(rows) - 2, -1, -1): body = mk_pv(lm._cond_eq(X.var(nv), X.const(k), f"{nv}=={k}"), row_body(rows[k]), body)
                return Arr([(nv, X.const(len(rows))), (mv, X.const(len(rows[0])))], body)
        return Opaque("array from list")
    if isinstance(l, (tuple, list)): return list_to_arr(ListVal(list(l)))
    return l


def h_exp(I, args, kw, st, n):
    def f(x):
        if x.iszero(): return X.const(1)
        th = x / X(I_)
        if th.isreal() and not x.isreal():
            return mk_fn("cis", [th])
        if x.isreal(): return mk_fn("exp", [x], "pos")
        return mk_fn("exp", [x], "complex")
    return elementwise(f)(I, args, kw, st, n)


def h_angle(I, args, kw, st, n):
    deg = kw.get("deg", args[1] if len(args) > 1 else False)
    r = elementwise(lambda x: mk_fn("angle", [x], "real"))(I, args, kw, st, n)
    if deg is True: r = lift2("*", r, X.const(180) / _pi())
    elif deg is not False: return Opaque("angle(deg=?)")
    return r


def h_round(I, args, kw, st, n):
    if len(args) > 1 or "decimals" in kw or "ndigits" in kw: return Opaque("round with digits")

    def f(x):
        if lm.is_integer(x): return x
        return mk_fn("nearest", [x])
    return elementwise(f)(I, args, kw, st, n)


def h_int(I, args, kw, st, n):
    if not args: return X.const(0)

    def f(x):
        if lm.is_integer(x): return x
        return mk_fn("trunc", [x])
    a = args[0]
    if isinstance(a, (bool,)): return X.const(int(a))
    if isinstance(a, str): return Opaque("int(str)")
    return elementwise(f)(I, args, kw, st, n)


def h_floor(I, args, kw, st, n):
    return elementwise(lambda x: x if lm.is_integer(x) else mk_fn("floor", [x]))(I, args, kw, st, n)


def h_ceil(I, args, kw, st, n):
    return elementwise(lambda x: x if lm.is_integer(x) else mk_fn("ceil", [x]))(I, args, kw, st, n)


def h_identity(I, args, kw, st, n):
    if not args: return Opaque("no argument")
    a = args[0]
    if isinstance(a, lm.Masked): return a
    if isinstance(a, (ListVal, tuple, list)): return list_to_arr(a)
    return a


def h_float(I, args, kw, st, n):
    if not args: return X.const(0)
    a = args[0]
    if isinstance(a, (str, type(None))): return Opaque("float of non-number")
    return a


def h_complex(I, args, kw, st, n):
    if len(args) == 2: return lift2("+", args[0], lift2("*", X(I_), args[1]))
    if len(args) == 1: return args[0]
    return X.const(0)


def h_len(I, args, kw, st, n):
    a = args[0]
    if isinstance(a, (tuple, list, str)): return X.const(len(a))
    if isinstance(a, ListVal):
        tot = X.const(len(a.items))
        for p in a.per_iter:
            if isinstance(p, tuple): tot = tot + p[1]
            else: return Opaque("length of filtered list")
        return tot
    if isinstance(a, DictVal): return X.const(len(a.d)) if not a.open else Opaque("len of open dict")
    if isinstance(a, Arr): return a.axes[0][1] if a.axes else Opaque("len of 0-d")
    if isinstance(a, ArrParam): return a.shape(0)
    if isinstance(a, lm.Masked): return a.count()
    if isinstance(a, LocalArr): return a.shape[0]
    if isinstance(a, lm.RangeVal): return a.count()
    if isinstance(a, PV): return pv_apply(lambda x: h_len(I, [x], kw, st, n), a)
    return Opaque("len of " + type(a).__name__)


def h_range(I, args, kw, st, n):
    args = [name_pv(a) if isinstance(a, PV) and all(to_x(l) is not None for _, l in pv_leaves(a)) else a for a in args]
    xs = [_x(a) for a in args]
    if any(x is None for x in xs): return Opaque("range of non-numbers")
    if len(xs) == 1: return lm.RangeVal(X.const(0), xs[0], X.const(1))
    if len(xs) == 2: return lm.RangeVal(xs[0], xs[1], X.const(1))
    return lm.RangeVal(xs[0], xs[1], xs[2])


def _minmax(name):
    def h(I, args, kw, st, n):
        if len(args) == 1:
            a = args[0]
            if _is_arr(a) or isinstance(a, (ListVal, tuple)):
                return Opaque(f"{name} over array")
        vals = list(args)

        def f(*xs):
            xs = [to_x(x) for x in xs]
            if any(x is None for x in xs): return Opaque(f"{name} of non-number")
            return lm.canon_minmax(name, xs)
        if any(_is_arr(v) for v in vals):
            acc = vals[0]
            for v in vals[1:]:
                acc = _ew2(lambda a, b: f(a, b), acc, v, st)
            return acc
        return pv_apply(lambda *xs: (next((x for x in xs if is_opaque(x)), None) or f(*xs)), *vals)
    return h


def _ew2(f, a, b, st=None, strict=True):
    """elementwise binary function with broadcasting (via arr_op2 plumbing)."""
    if not strict:
        g = f
        class _Box:
            def __init__(s_, v): s_.v = v
        # opaque leaves are boxed so that they survive as operands (needed for np.where / np.divide(where=))
        def box(v):
            if isinstance(v, PV): return mk_pv(v.cond, box(v.hi), box(v.lo))
            if isinstance(v, Arr): return Arr(v.axes, box(v.body))
            return _Box(v) if is_opaque(v) else v
        def unbox(v): return v.v if isinstance(v, _Box) else v
        return _ew2(lambda x, y: g(unbox(x), unbox(y)), box(a) if not isinstance(a, (ArrParam, LocalArr)) else a, box(b) if not isinstance(b, (ArrParam, LocalArr)) else b, st, True)
    if isinstance(a, LocalArr): a = _arr(a, st)
    if isinstance(b, LocalArr): b = _arr(b, st)
    if a is None or b is None: return Opaque("local array")
    if not (isinstance(a, (Arr, ArrParam)) or isinstance(b, (Arr, ArrParam))):
        return pv_apply(lambda x, y: x if is_opaque(x) else y if is_opaque(y) else f(x, y), a, b)
    # reuse broadcasting: compute aligned bodies through a marker op
    A = as_arr(a); B = as_arr(b)
    if A is None: return Arr(B.axes, pv_apply(lambda y: f(a, y), B.body))
    if B is None: return Arr(A.axes, pv_apply(lambda x: f(x, b), A.body))
    z = arr_op2("+", Arr(A.axes, X.const(0)), Arr(B.axes, X.const(0)))
    if is_opaque(z): return z
    nr = len(z.axes)
    ma = {A.axes[A.ndim - k][0]: (X.var(z.axes[nr - k][0]) if not (A.axes[A.ndim - k][1].as_int() == 1 and z.axes[nr - k][1].as_int() != 1) else X.const(0))
          for k in range(1, A.ndim + 1)}
    mb = {B.axes[B.ndim - k][0]: (X.var(z.axes[nr - k][0]) if not (B.axes[B.ndim - k][1].as_int() == 1 and z.axes[nr - k][1].as_int() != 1) else X.const(0))
          for k in range(1, B.ndim + 1)}
    return Arr(z.axes, pv_apply(lambda x, y: x if is_opaque(x) else y if is_opaque(y) else f(x, y),
                                subst_val(A.body, ma), subst_val(B.body, mb)))


def _shape_of(v):
    if isinstance(v, tuple): return tuple(to_x(e) for e in v)
    x = to_x(v)
    if x is not None: return (x,)
    if isinstance(v, PV): return (v,)
    return None


def _alloc(fill):
    def h(I, args, kw, st, n):
        sh = _shape_of(args[0] if args else kw.get("shape"))
        if sh is None or any(s is None for s in sh): return Opaque("allocation with opaque shape")
        if any(isinstance(s, PV) for s in sh): return Opaque("allocation with conditional shape")
        name = "local"
        return LocalArr(name, sh, fill)
    return h


def h_full(I, args, kw, st, n):
    """np.full(shape, v): every element is v (dtype inferred from v unless dtype= is given - a narrowing dtype is not modelled)."""
    v = args[1] if len(args) > 1 else kw.get("fill_value")
    if v is None or to_x(v) is None: return Opaque("np.full fill value")
    if kw.get("dtype") is not None or len(args) > 2: return Opaque("np.full(dtype=)")
    if args and args[0] == (): return to_x(v)            # 0-d
    return _alloc(to_x(v))(I, args[:1], {k_: v_ for k_, v_ in kw.items() if k_ == "shape"}, st, n)


def _like(fill):
    def h(I, args, kw, st, n):
        a = args[0]
        if isinstance(a, LocalArr): a = _arr(a, st)
        if isinstance(a, (Arr, ArrParam)):
            A = as_arr(a)
            return Arr(A.axes, fill if fill is not None else Opaque("empty_like"))
        if isinstance(a, ListVal): return _like(fill)(I, [list_to_arr(a)], kw, st, n)
        if to_x(a) is not None or isinstance(a, PV): return fill if fill is not None else Opaque("empty_like")
        return Opaque("like of " + type(a).__name__)
    return h


def h_arange(I, args, kw, st, n):
    if any(isinstance(a, PV) for a in args):
        return pv_apply(lambda *xs: h_arange(I, list(xs), kw, st, n), *args)
    xs = [_x(a) for a in args]
    if any(x is None for x in xs): return Opaque("arange of non-numbers")
    v = fresh("i")
    if len(xs) == 1: return Arr([(v, xs[0])], X.var(v))
    if len(xs) == 2: return Arr([(v, xs[1] - xs[0])], xs[0] + X.var(v))
    return Opaque("arange with step")


def h_linspace(I, args, kw, st, n):
    a, b, num = _x(args[0]), _x(args[1]), _x(args[2] if len(args) > 2 else kw.get("num"))
    if a is None or b is None or num is None: return Opaque("linspace")
    v = fresh("i")
    ep = kw.get("endpoint", args[3] if len(args) > 3 else True)
    if ep is not True and ep is not False: return Opaque("linspace(endpoint=<expression>)")
    if num.as_int() == 1: return Arr([(v, num)], a)                    # a single point is the start value (no division by num - 1)
    return Arr([(v, num)], a + (b - a) * X.var(v) / ((num - 1) if ep else num))


def h_logspace(I, args, kw, st, n):
    a, b, num = _x(args[0]), _x(args[1]), _x(args[2] if len(args) > 2 else kw.get("num"))
    if a is None or b is None or num is None: return Opaque("logspace")
    v = fresh("i")
    return Arr([(v, num)], mk_fn("pow", [X.const(10), a + (b - a) * X.var(v) / (num - 1)], "pos"))


def _reduce(mean):
    def h(I, args, kw, st, n):
        a = args[0]
        if isinstance(a, LocalArr): a = _arr(a, st)
        if a is None: return Opaque("reduction of partially filled array")
        if is_opaque(a): return a
        if isinstance(a, ListVal): a = list_to_arr(a)
        A = as_arr(a)
        if A is None:
            if to_x(a) is not None: return a
            return Opaque("reduction of " + type(a).__name__)
        ax = kw.get("axis", args[1] if len(args) > 1 else None)
        if ax is not None:
            ax = _x(ax).as_int() if _x(ax) is not None else "?"
            if ax == "?": return Opaque("symbolic axis")
        kd = kw.get("keepdims", False)
        return arr_sum(A, ax, mean=mean, keepdims=bool(kd))
    return h


def h_builtin_sum(I, args, kw, st, n):
    a = args[0]
    from .absint import _concrete_seq
    seq = _concrete_seq(a)
    if seq is not None:
        acc = args[1] if len(args) > 1 else X.const(0)
        for e in seq: acc = lift2("+", acc, e)
        return acc
    if isinstance(a, ListVal) and a.per_iter and not a.items and len(a.per_iter) == 1 and isinstance(a.per_iter[0], tuple):
        var, count, val = a.per_iter[0][:3]
        return lift1(lambda b: mk_sum(var, count, b), val)
    return _reduce(False)(I, args, kw, st, n)


def h_nan_to_num(I, args, kw, st, n):
    st.events.append(("nan_to_num", args[0], dict(kw), n))
    return h_identity(I, args, kw, st, n)


def h_divide(I, args, kw, st, n):
    a, b = args[0], args[1]
    out = kw.get("out"); where = kw.get("where")
    q = _ew2(lambda x, y: scal_op("/", x, y), a if not isinstance(a, ListVal) else list_to_arr(a), b, st)
    st.events.append(("divide", a, b, where, out, n))
    if where is None: return q
    if out is None: out = Opaque("np.divide(where=) without out= leaves garbage")
    return h_where(I, [where, q, out], {}, st, n)


def h_where(I, args, kw, st, n):
    if len(args) != 3: return Opaque("np.where with one argument")
    c, a, b = args
    if isinstance(c, LocalArr): c = _arr(c, st)
    cb = as_arr(c)

    def pick(cv, x, y):
        if cv is True: return x
        if cv is False: return y
        if isinstance(cv, PV): return mk_pv(cv.cond, pick(cv.hi, x, y), pick(cv.lo, x, y))
        return Opaque("where condition")
    if cb is None and not _is_arr(a) and not _is_arr(b):
        return pick(c, a, b)
    # broadcast all three: use _ew2 twice with a tagging tuple
    t = _ew2(lambda x, y: (x, y), a, b, st, strict=False)
    if is_opaque(t): return t
    if cb is None:
        T = as_arr(t)
        r = Arr(T.axes, pv_apply(lambda xy: pick(c, xy[0], xy[1]) if isinstance(xy, tuple) else xy, T.body))
    else:
        r = _ew2(lambda cv, xy: pick(cv, xy[0], xy[1]) if isinstance(xy, tuple) else Opaque("where"), cb, t, st)
    if isinstance(r, Arr) and not r.axes: return r.body       # 0-d result: the scalar itself
    return r


def h_select(I, args, kw, st, n):
    conds, choices = args[0], args[1]
    default = kw.get("default", args[2] if len(args) > 2 else X.const(0))
    from .absint import _concrete_seq
    cs, ch = _concrete_seq(conds), _concrete_seq(choices)
    if cs is None or ch is None or len(cs) != len(ch): return Opaque("np.select")
    res = default
    for c, v in reversed(list(zip(cs, ch))):
        res = h_where(I, [c, v, res], {}, st, n)
    return res


def h_clip(I, args, kw, st, n):
    a, lo, hi = args[0], args[1], args[2]
    r = _minmax("max")(I, [a, lo], {}, st, n)
    return _minmax("min")(I, [r, hi], {}, st, n)


def h_isinstance(I, args, kw, st, n):
    v, t = args
    names = set()
    for tt in (t if isinstance(t, tuple) else (t,)):
        if isinstance(tt, Lib): names.add(tt.name.split(".")[-1])
        else: return Opaque("isinstance against non-type")
    if is_opaque(v): return Opaque("isinstance of opaque")
    if isinstance(v, PV): return pv_apply(lambda x: h_isinstance(I, [x, t], kw, st, n), v)
    vt = set()
    if isinstance(v, str): vt = {"str"}
    elif isinstance(v, bool): vt = {"bool", "int"}
    elif isinstance(v, ListVal): vt = {"list"}
    elif isinstance(v, tuple): vt = {"tuple"}
    elif isinstance(v, DictVal): vt = {"dict"}
    elif isinstance(v, (Arr, ArrParam, LocalArr)): vt = {"ndarray"}
    elif v is None: vt = {"NoneType"}
    elif isinstance(v, X):
        if names & {"int", "float", "complex", "Number", "Real", "Integral", "integer", "floating", "bool", "number", "generic"}:
            return Opaque("isinstance of number")
        return False
    elif isinstance(v, (Func, Lib)): vt = {"function"}
    else: return Opaque("isinstance")
    return bool(vt & names)


def h_dict(I, args, kw, st, n):
    d = DictVal()
    if args:
        a = args[0]
        if isinstance(a, DictVal): d.d.update(a.d); d.open = a.open
        elif isinstance(a, PV): return Opaque("dict of conditional")
        else: d.open = True
    star = kw.pop("**", None)
    if star is not None: d.open = True
    d.d.update(kw)
    return d


def h_list(I, args, kw, st, n):
    if not args: return ListVal()
    a = args[0]
    from .absint import _concrete_seq
    seq = _concrete_seq(a)
    if seq is not None: return ListVal(seq)
    if isinstance(a, ListVal):
        r = ListVal(a.items); r.per_iter = list(a.per_iter); return r
    return Opaque("list()")


def h_tuple(I, args, kw, st, n):
    if not args: return ()
    from .absint import _concrete_seq
    seq = _concrete_seq(args[0])
    if seq is not None: return tuple(seq)
    return Opaque("tuple()")


def h_getattr(I, args, kw, st, n):
    o, name = args[0], args[1]
    if not isinstance(name, str): return Opaque("getattr with dynamic name")
    r = lm.get_attr(I, o, name, st, n)
    if is_opaque(r) and len(args) > 2 and not isinstance(o, Obj): return args[2]
    if is_opaque(r) and len(args) > 2 and isinstance(o, Obj) and name not in o.attrs: return Opaque("getattr default")
    return r


def h_zip(I, args, kw, st, n):
    from .absint import _concrete_seq
    seqs = [_concrete_seq(a) for a in args]
    if all(s is not None for s in seqs):
        return [tuple(t) for t in zip(*seqs)]
    return lm.ZipVal(list(args))


def h_enumerate(I, args, kw, st, n):
    from .absint import _concrete_seq
    s = _concrete_seq(args[0])
    start = 0
    if s is not None: return [(X.const(i + start), v) for i, v in enumerate(s)]
    return lm.EnumVal(args[0], start)


def h_mag2db(I, args, kw, st, n):
    return lift2("*", X.const(20), elementwise(lambda x: mk_fn("log10", [x]))(I, args, kw, st, n))


def h_cuda_grid(I, args, kw, st, n):
    nd = to_x(args[0]).as_int() if args and to_x(args[0]) is not None else None
    if nd is not None and nd != 1:
        return Mismatch(f"cuda.grid({nd}) is a tuple of {nd} indices, not the one-dimensional thread index the kernel is launched with")
    h = I.hooks.get("cuda_grid")
    if h: return h(I, st)
    return Opaque("cuda.grid outside a launch")


def h_searchsorted(I, args, kw, st, n):
    grid, v = args[0], args[1]
    side = kw.get("side", "left")
    G = _arr(grid, st) if isinstance(grid, LocalArr) else as_arr(grid)
    if G is None or is_opaque(G): return Opaque("searchsorted grid")
    import hashlib
    gid = hashlib.md5(repr(vkey(Arr([("_g", G.axes[0][1])], subst_val(G.body, {G.axes[0][0]: X.var("_g")})))).encode()).hexdigest()[:8]
    name = f"searchsorted_{side}#{gid}"
    lm.INT_FNS.add(name)
    I.trace.append(("searchsorted", name, G))
    return lift1(lambda x: mk_fn(name, [x], "pos"), v)


def h_fftfreq(I, args, kw, st, n):
    cnt = to_x(args[0]); d = to_x(kw.get("d", args[1] if len(args) > 1 else X.const(1)))
    if cnt is None or d is None: return Opaque("fftfreq arguments")
    v = fresh("i")
    return Arr([(v, cnt)], mk_fn("fftfreq", [X.var(v), cnt, d], "real"))


def h_pad(I, args, kw, st, n):
    A = _arr(args[0], st) if isinstance(args[0], LocalArr) else as_arr(args[0])
    if A is None or is_opaque(A) or A.ndim != 1: return Opaque("np.pad of a non 1-D array")
    w = args[1] if len(args) > 1 else kw.get("pad_width")
    if isinstance(w, tuple) and len(w) == 2: pl, pr = to_x(w[0]), to_x(w[1])
    else: pl = pr = to_x(w)
    if pl is None or pr is None: return Opaque("np.pad widths")
    mode = kw.get("mode", "constant")
    (av, ac), = A.axes
    j = fresh("j")
    src = X.var(j) - pl
    if mode == "edge":
        idx = lm.canon_minmax("min", [lm.canon_minmax("max", [src, X.const(0)]), ac - 1])
        return Arr([(j, pl + ac + pr)], subst_val(A.body, {av: idx}))
    if mode == "constant":
        c1 = lm.scal_compare(ast.Lt(), src, X.const(0), "left pad")
        c2 = lm.scal_compare(ast.Lt(), src - ac, X.const(0), "inside")
        inner = subst_val(A.body, {av: src})
        body = pv_apply(lambda a_, b_, x_: (x_ if (a_ is False and b_ is True) else X.const(0)) if isinstance(a_, bool) and isinstance(b_, bool) else Opaque("pad test"), c1, c2, inner)
        return Arr([(j, pl + ac + pr)], body)
    return Opaque(f"np.pad mode {mode!r}")


def h_correlate(I, args, kw, st, n):
    A, Vv = as_arr(args[0]), as_arr(args[1])
    mode = kw.get("mode", args[2] if len(args) > 2 else "valid")
    if A is None or Vv is None or A.ndim != 1 or Vv.ndim != 1 or mode != "valid": return Opaque("np.correlate")
    (av, ac), = A.axes; (vv, vc), = Vv.axes
    m = fresh("m"); k = fresh("k")
    prod = lift2("*", subst_val(A.body, {av: X.var(m) + X.var(k)}), subst_val(Vv.body, {vv: X.var(k)}))
    return Arr([(m, ac - vc + 1)], sum_over(k, vc, prod))


def h_convolve(I, args, kw, st, n):
    """convolution, 'valid' part: out[m] = sum_k a[m + k] * v[K - 1 - k] (the kernel is reversed with respect to np.correlate)."""
    A, Vv = as_arr(args[0]), as_arr(args[1])
    mode = kw.get("mode", args[2] if len(args) > 2 else "full")
    if A is None or Vv is None or A.ndim != 1 or Vv.ndim != 1 or mode != "valid": return Opaque("convolution (only mode='valid' of 1-D operands is modelled)")
    (av, ac), = A.axes; (vv, vc), = Vv.axes
    m = fresh("m"); k = fresh("k")
    prod = lift2("*", subst_val(A.body, {av: X.var(m) + X.var(k)}), subst_val(Vv.body, {vv: vc - 1 - X.var(k)}))
    return Arr([(m, ac - vc + 1)], sum_over(k, vc, prod))


def h_sliding(I, args, kw, st, n):
    A = as_arr(args[0]); W = to_x(args[1] if len(args) > 1 else kw.get("window_shape"))
    if A is None or A.ndim != 1 or W is None: return Opaque("sliding_window_view")
    (av, ac), = A.axes
    m = fresh("m"); k = fresh("k")
    return Arr([(m, ac - W + 1), (k, W)], subst_val(A.body, {av: X.var(m) + X.var(k)}))


def h_einsum(I, args, kw, st, n):
    for i_ in (1, 2):
        if len(args) > i_ and isinstance(args[i_], PV):
            return pv_apply(lambda x, i_=i_: x if is_opaque(x) else h_einsum(I, args[:i_] + [x] + args[i_ + 1:], kw, st, n), args[i_])
    if args and isinstance(args[0], str) and args[0] != "ij,ij->i":
        return _einsum_general(args[0], args[1:], st)
    if not args or args[0] != "ij,ij->i": return Opaque("einsum signature")
    A, B = as_arr(args[1]), as_arr(args[2])
    if A is None or B is None or A.ndim != 2 or B.ndim != 2: return Opaque("einsum operands")
    (ai, ac), (aj, ad) = A.axes; (bi, bc), (bj, bd) = B.axes
    if not ad.eq(bd): return Mismatch(f"einsum contraction lengths differ: {ad!r} vs {bd!r}")
    prod = lift2("*", A.body, subst_val(B.body, {bi: X.var(ai), bj: X.var(aj)}))
    return Arr([(ai, ac)], sum_over(aj, ad, prod))


def _einsum_general(sig, ops, st):
    """explicit signature 'ab,bc,...->out': out[...] = sum over the letters not in out of the product of the operands' elements"""
    sig = sig.replace(" ", "")
    if "->" not in sig or "." in sig: return Opaque("einsum signature")
    lhs, out = sig.split("->")
    subs = lhs.split(",")
    if len(subs) != len(ops) or len(set(out)) != len(out): return Opaque("einsum signature")
    arrs = []
    for o in ops:
        if isinstance(o, PV): return Opaque("einsum operand under a condition")
        if isinstance(o, LocalArr): o = _arr(o, st)
        if isinstance(o, ListVal): o = list_to_arr(o)
        A = as_arr(o) if o is not None and not is_opaque(o) else None
        if A is None or is_opaque(A): return Opaque("einsum operands")
        arrs.append(A)
    letter = {}; count = {}
    prod = None
    # the caller's model may carry one frequency bin at a time (a spectrum is a scalar): trailing letters without an axis are per-bin labels;
    # they must be the same for every operand, occur in the output, and are dropped from it
    dropped = set()
    for sub, A in zip(subs, arrs):
        if len(sub) > A.ndim: dropped |= set(sub[A.ndim:])
    if dropped:
        if any(ch not in out for ch in dropped): return Opaque("einsum operand rank")
        subs2 = []
        for sub, A in zip(subs, arrs):
            eff = sub[:A.ndim]
            if any(ch in dropped for ch in eff) or any(ch not in dropped for ch in sub[A.ndim:]): return Opaque("einsum operand rank")
            subs2.append(eff)
        subs = subs2; out = "".join(ch for ch in out if ch not in dropped)
    for sub, A in zip(subs, arrs):
        if len(sub) != A.ndim or len(set(sub)) != len(sub): return Opaque("einsum operand rank")
        mp = {}
        for ch, (v, c) in zip(sub, A.axes):
            if ch not in letter: letter[ch] = fresh("e" + ch); count[ch] = c
            elif not count[ch].eq(c):
                try:
                    if count[ch].as_int() is not None and c.as_int() is not None: return Mismatch(f"einsum extents differ for '{ch}': {count[ch]!r} vs {c!r}")
                except Exception: pass
            mp[v] = X.var(letter[ch])
        b = subst_val(A.body, mp)
        prod = b if prod is None else lift2("*", prod, b)
    if any(ch not in letter for ch in out): return Opaque("einsum output letter")
    for ch in letter:
        if ch not in out: prod = sum_over(letter[ch], count[ch], prod)
    if not out: return prod
    return Arr([(letter[ch], count[ch]) for ch in out], prod)


def h_vecdot(I, args, kw, st, n):
    """np.vecdot(a, b, axis=-1) = sum_k conj(a[..., k]) * b[..., k]  (the FIRST argument is conjugated)."""
    if len(args) < 2: return Opaque("vecdot arguments")
    ax = to_x(kw.get("axis", X.const(-1)))
    A, B = as_arr(args[0]), as_arr(args[1])
    if A is None or B is None or A.ndim != 2 or B.ndim != 2 or ax is None or ax.as_int() not in (-1, 1): return Opaque("vecdot operands")
    (ai, ac), (aj, ad) = A.axes; (bi, bc), (bj, bd) = B.axes
    if not ad.eq(bd): return Mismatch(f"vecdot contraction lengths differ: {ad!r} vs {bd!r}")
    prod = lift2("*", lift1(lambda x: x.conj(), A.body), subst_val(B.body, {bi: X.var(ai), bj: X.var(aj)}))
    return Arr([(ai, ac)], sum_over(aj, ad, prod))


def h_vdot(I, args, kw, st, n):
    """np.vdot(a, b) = sum_k conj(a[k]) * b[k]  for 1-D arguments (the FIRST argument is conjugated)."""
    if len(args) != 2: return Opaque("vdot arguments")
    a, b = args
    if isinstance(a, LocalArr): a = _arr(a, st)
    if isinstance(b, LocalArr): b = _arr(b, st)
    A, B = as_arr(a), as_arr(b)
    if A is None or B is None or is_opaque(A) or is_opaque(B) or A.ndim != 1 or B.ndim != 1: return Opaque("vdot operands")
    (av, ac), = A.axes; (bv, bc), = B.axes
    if not ac.eq(bc): return Mismatch(f"vdot lengths differ: {ac!r} vs {bc!r}")
    prod = lift2("*", lift1(lambda x: x.conj(), A.body), subst_val(B.body, {bv: X.var(av)}))
    return sum_over(av, ac, prod)


def h_repeat(I, args, kw, st, n):
    v, cnt = args[0], to_x(args[1])
    if to_x(v) is None or cnt is None: return Opaque("np.repeat")
    return Arr([(fresh("i"), cnt)], to_x(v))


def h_opaque(why):
    def h(I, args, kw, st, n): return Opaque(why)
    return h


def h_none(I, args, kw, st, n): return None


def h_callable(I, args, kw, st, n):
    v = args[0]
    if isinstance(v, (Func, Lib, BoundMethod)): return True
    if is_opaque(v): return Opaque("callable(opaque)")
    return False


def h_str(I, args, kw, st, n):
    a = args[0] if args else ""
    if isinstance(a, str): return a
    x = to_x(a)
    if x is not None and x.as_int() is not None: return str(x.as_int())
    return Opaque("str()")


def h_bool(I, args, kw, st, n):
    if not args: return False
    t = I.truth(args[0], n)
    if isinstance(t, bool): return t
    if t[0] == "tree": return t[1]
    return PV(t[0], t[1], not t[1])


def h_sorted(I, args, kw, st, n):
    from .absint import _concrete_seq
    s = _concrete_seq(args[0])
    if s is not None and all(isinstance(e, str) for e in s): return ListVal(sorted(s))
    return Opaque("sorted")


def h_pow(I, args, kw, st, n):
    return _ew2(lambda a, b: scal_op("**", a, b), args[0], args[1], st)


def h_stack(I, args, kw, st, n):
    """np.stack(list of equal-shaped arrays, axis): a new axis whose position k selects the k-th list element
    (1-D inputs: axis 0 or 1; N-D inputs: axis 0)."""
    from .absint import _concrete_seq
    cols = _concrete_seq(args[0])
    ax = kw.get("axis", args[1] if len(args) > 1 else X.const(0))
    ax = to_x(ax).as_int() if to_x(ax) is not None else None
    if cols is None or ax not in (0, 1): return Opaque("np.stack")
    arrs = [_arr(c, st) if isinstance(c, LocalArr) else as_arr(c) for c in cols]
    if any(a is None or is_opaque(a) for a in arrs): return Opaque("np.stack of non-arrays")
    nd = arrs[0].ndim
    if any(a.ndim != nd for a in arrs) or (nd != 1 and ax != 0): return Opaque("np.stack of arrays of different rank / unsupported axis")
    base_axes = [(fresh("s"), c) for _, c in arrs[0].axes]
    kv = fresh("k")
    body = None
    for i in range(len(arrs) - 1, -1, -1):
        a = arrs[i]
        if not all(ca.eq(cb) for (_, ca), (_, cb) in zip(a.axes, base_axes)): return Opaque("np.stack of unequal shapes")
        b = subst_val(a.body, {va: X.var(vb) for (va, _), (vb, _) in zip(a.axes, base_axes)})
        if body is None: body = b
        else:
            c = lm._cond_eq(X.var(kv), X.const(i), f"{kv}=={i}")
            body = mk_pv(c, b, body)
    if nd == 1 and ax == 1: axes = [base_axes[0], (kv, X.const(len(arrs)))]
    else: axes = [(kv, X.const(len(arrs)))] + base_axes
    return Arr(axes, body)


class QROf:
    def __init__(s, V, mode): s.V = V; s.mode = mode
    def __repr__(s): return f"QR.Q({s.V!r}, mode={s.mode})"


def h_qr(I, args, kw, st, n):
    mode = kw.get("mode", args[1] if len(args) > 1 else "reduced")
    return (QROf(args[0], mode), Opaque("R factor"))


def h_to_device(I, args, kw, st, n):
    return args[0]


def h_abs(I, args, kw, st, n):
    return elementwise(lambda x: x.abs())(I, args, kw, st, n)


LIB = {}


def _reg(names, h):
    for nm in names.split():
        LIB[nm] = h


def h_sqrt(I, args, kw, st, n):
    st.events.append(("sqrt", args[0], n))
    return elementwise(lambda x: x.sqrt())(I, args, kw, st, n)


_reg("numpy.sqrt math.sqrt", h_sqrt)
_reg("numpy.abs numpy.absolute builtins.abs", h_abs)
_reg("numpy.conj numpy.conjugate", elementwise(lambda x: x.conj()))
_reg("numpy.real", elementwise(lambda x: x.real()))
_reg("numpy.imag", elementwise(lambda x: x.imag()))
_reg("numpy.exp math.exp", h_exp)
_reg("numpy.cos math.cos", elementwise(lambda x: mk_fn("cos", [x])))
_reg("numpy.sin math.sin", elementwise(lambda x: mk_fn("sin", [x])))
_reg("numpy.tan math.tan", elementwise(lambda x: mk_fn("tan", [x])))
_reg("numpy.arctan math.atan", elementwise(lambda x: mk_fn("arctan", [x])))
_reg("numpy.tanh math.tanh", elementwise(lambda x: mk_fn("tanh", [x])))
_reg("numpy.sinh math.sinh", elementwise(lambda x: mk_fn("sinh", [x])))
_reg("numpy.cosh math.cosh", elementwise(lambda x: mk_fn("cosh", [x], "pos")))
_reg("numpy.arcsin math.asin", elementwise(lambda x: mk_fn("arcsin", [x])))
_reg("numpy.log math.log", elementwise(lambda x: mk_fn("log", [x])))
_reg("numpy.log10 math.log10", elementwise(lambda x: mk_fn("log10", [x])))
_reg("numpy.square", elementwise(lambda x: x * x))
_reg("numpy.angle", h_angle)
_reg("numpy.rad2deg numpy.degrees math.degrees", lambda I, a, k, st, n: lift2("*", h_identity(I, a, k, st, n), X.const(180) / _pi()))
_reg("numpy.deg2rad numpy.radians math.radians", lambda I, a, k, st, n: lift2("*", h_identity(I, a, k, st, n), _pi() / X.const(180)))
def unwrap_form(x, period=None, discont=None):
    """np.unwrap(x, discont, period) = period * U(x / period [, discont / period]) with U the unit-period unwrapping (2*pi is the default period;
    a discont of at most half a period is the default behaviour).  The scaling law unwrap(c x, c P) = c unwrap(x, P) is built into the form."""
    P = period if period is not None else X.const(2) * X.var("pi")
    t = x / P
    if discont is not None:
        try:
            r = (discont / P).constval()
            if r is None or r.im != 0 or r.re > Fr(1, 2): return P * mk_fn("unwrap1d", [t, discont / P], "real")
        except Unknown:
            return P * mk_fn("unwrap1d", [t, discont / P], "real")
    return P * mk_fn("unwrap1", [t], "real")


def h_unwrap(I, args, kw, st, n):
    if kw.get("axis") is not None or len(args) > 2: return Opaque("np.unwrap(axis=)")
    period = to_x(kw["period"]) if kw.get("period") is not None else None
    dc = kw.get("discont", args[1] if len(args) > 1 else None)
    discont = to_x(dc) if dc is not None else None
    if (kw.get("period") is not None and period is None) or (dc is not None and discont is None): return Opaque("np.unwrap parameters")
    return elementwise(lambda x: unwrap_form(x, period, discont))(I, args[:1], {}, st, n)


_reg("numpy.unwrap", h_unwrap)
_reg("numpy.round numpy.rint numpy.around builtins.round", h_round)
_reg("builtins.int numpy.int64 numpy.int32 numpy.intp", h_int)
_reg("builtins.float numpy.float64 numpy.float32", h_float)
_reg("builtins.complex numpy.complex128", h_complex)
_reg("numpy.floor math.floor", h_floor)
_reg("numpy.ceil math.ceil", h_ceil)
_reg("builtins.len", h_len)
_reg("builtins.range numba.prange", h_range)
_reg("builtins.min numpy.minimum numpy.fmin", _minmax("min"))
_reg("builtins.max numpy.maximum numpy.fmax", _minmax("max"))
_reg("numpy.empty numba.cuda.device_array numba.cuda.local.array", _alloc(None))
_reg("numpy.zeros", _alloc(X.const(0)))
_reg("numpy.full", h_full)
_reg("numpy.ones", _alloc(X.const(1)))
_reg("numpy.zeros_like", _like(X.const(0)))
_reg("numpy.ones_like", _like(X.const(1)))
_reg("numpy.empty_like", _like(None))
_reg("numpy.arange", h_arange)
_reg("numpy.linspace", h_linspace)
_reg("numpy.logspace", h_logspace)
_reg("numpy.asarray numpy.ascontiguousarray numpy.asanyarray numpy.array numpy.require numpy.atleast_1d", h_identity)
_reg("numpy.mean", _reduce(True))
_reg("numpy.sum", _reduce(False))
_reg("builtins.sum", h_builtin_sum)
_reg("numpy.nan_to_num", h_nan_to_num)


def h_finfo(I, args, kw, st, n):
    """machine constants of IEEE double precision: absolute numbers (they do not scale with the data)"""
    from fractions import Fraction as Fr
    o = Obj("numpy.finfo")
    o.attrs = {"eps": X.const(Fr(1, 2 ** 52)), "epsneg": X.const(Fr(1, 2 ** 53)), "resolution": X.const(Fr(1, 10 ** 15)), "tiny": X.const(Fr(1, 2 ** 1022)),
               "smallest_normal": X.const(Fr(1, 2 ** 1022)), "max": X.const(Fr(2 ** 1024 - 2 ** 971)), "precision": X.const(15)}
    return o


_reg("numpy.finfo", h_finfo)


def h_next_fast_len(I, args, kw, st, n):
    """smallest 5-/11-smooth length >= n: equal to n only for such n, an unrelated larger integer otherwise"""
    x = _x(args[0]) if args else None
    if x is None: return Opaque("next_fast_len")
    return mk_fn("next_fast_len", [x], "nat")


_reg("scipy.fft.next_fast_len", h_next_fast_len)
_reg("scipy.fftpack.next_fast_len", h_next_fast_len)
_reg("scipy.fft.next_fast_len", h_next_fast_len)
_reg("numpy.divide numpy.true_divide", h_divide)
def h_isclose(I, a, k, st, n):
    """np.isclose(a, b, rtol=1e-05, atol=1e-08): |a-b| <= atol + rtol*|b| elementwise."""
    rtol = to_x(k.get("rtol", a[2] if len(a) > 2 else X.const(Fr(1, 100000))))
    atol = to_x(k.get("atol", a[3] if len(a) > 3 else X.const(Fr(1, 100000000))))
    if rtol is None or atol is None: return Opaque("isclose tolerances")
    text = " ".join(ast.unparse(n).split())[:120]

    def f(x, y):
        xx, yy = to_x(x), to_x(y)
        if xx is None or yy is None: return Opaque("isclose of non-numeric")
        try:
            lhs = (xx - yy).abs(); rhs = atol + rtol * yy.abs()
        except Unknown as ex: return Opaque(str(ex))
        return lm.scal_compare(ast.LtE(), lhs, rhs, text)
    return _ew2(f, a[0], a[1], st)


def h_take(I, a, k, st, n):
    """np.take(a, indices) of a 1-D array is a[indices]; with out= the gathered values are also what the out array holds afterwards
    (which names share that array is the alias analysis' business, not the value's)."""
    if len(a) < 2 or k.get("axis") is not None or len(a) > 2: return Opaque("np.take(axis=)")
    A = as_arr(a[0]) if isinstance(a[0], (Arr, ArrParam)) else (_arr(a[0], st) if isinstance(a[0], LocalArr) else None)
    if A is None or is_opaque(A) or A.ndim != 1: return Opaque("np.take of a non 1-D array")
    return lm.subscript_value(I, a[0], (a[1],), st)


def h_globals(I, a, k, st, n):
    """globals(): the module namespace of the function being interpreted (looked up by name: a naming-scheme dispatch)."""
    g = I.module_globals(st.mod) if getattr(st, "mod", None) else {}
    return DictVal(dict(g), open_=True)


def h_norm(I, a, k, st, n):
    """np.linalg.norm: Euclidean norm of a vector, or of the columns / rows of a matrix along `axis` (ord=None only)."""
    if k.get("ord") is not None or (len(a) > 1 and a[1] is not None): return Opaque("np.linalg.norm(ord=)")
    A = _arr(a[0], st) if isinstance(a[0], LocalArr) else as_arr(a[0]) if isinstance(a[0], (Arr, ArrParam)) else None
    if A is None or is_opaque(A): return Opaque("np.linalg.norm of a non-array")
    ax = k.get("axis", a[2] if len(a) > 2 else None)
    keep = k.get("keepdims", False) is True
    sq = lambda x: (x * x.conj())

    def root(x):
        try: return x.sqrt()
        except Unknown: return mk_fn("sqrt", [x])
    if A.ndim == 1 and ax is None:
        (v, c), = A.axes
        return lift1(root, sum_over(v, c, lift1(sq, A.body)))
    axx = to_x(ax).as_int() if ax is not None and to_x(ax) is not None else None
    if A.ndim == 2 and axx in (0, 1, -1, -2):
        axx %= 2
        (v0, c0), (v1, c1) = A.axes
        red, other = ((v0, c0), (v1, c1)) if axx == 0 else ((v1, c1), (v0, c0))
        body = lift1(root, sum_over(red[0], red[1], lift1(sq, A.body)))
        if keep:
            one = (fresh("u"), X.const(1))
            return Arr([one, other] if axx == 0 else [other, one], body)
        return Arr([other], body)
    return Opaque("np.linalg.norm of this shape / axis")


def _cumulative(op):
    def h(I, a, k, st, n):
        """np.cumprod / np.cumsum along the first axis of an array whose first extent is a small constant (partial evaluation on instances)."""
        A = _arr(a[0], st) if isinstance(a[0], LocalArr) else as_arr(a[0]) if isinstance(a[0], (Arr, ArrParam)) else None
        if A is None or is_opaque(A): return Opaque("cumulative reduction of a non-array")
        ax = k.get("axis", a[1] if len(a) > 1 else None)
        axx = to_x(ax).as_int() if ax is not None and to_x(ax) is not None else None
        if not ((A.ndim == 1 and ax is None) or axx == 0): return Opaque("cumulative reduction along this axis")
        cnt = A.axes[0][1].as_int()
        if cnt is None or cnt > 64: return Opaque("cumulative reduction over a symbolic extent")
        if cnt == 0: return A
        rows = []; acc = None
        for i in range(cnt):
            r = lm.arr_index(A, X.const(i)) if hasattr(lm, "arr_index") else arr_index(A, X.const(i))
            acc = r if acc is None else (arr_op2(op, acc, r) if isinstance(acc, Arr) or isinstance(r, Arr) else lift2(op, acc, r))
            rows.append(acc)
        kv = fresh("k")
        rest = list(A.axes[1:])
        body = None
        for i in range(cnt - 1, -1, -1):
            b = rows[i]
            if isinstance(b, Arr): b = subst_val(b.body, {va: X.var(vb) for (va, _), (vb, _) in zip(b.axes, rest)})
            body = b if body is None else mk_pv(lm._cond_eq(X.var(kv), X.const(i), f"{kv}=={i}"), b, body)
        return Arr([(kv, X.const(cnt))] + rest, body)
    return h


def _concrete_elems(v, st):
    """the elements of a 1-D array of small concrete length, or None."""
    A = _arr(v, st) if isinstance(v, LocalArr) else as_arr(v) if isinstance(v, (Arr, ArrParam)) else (list_to_arr(v) if isinstance(v, ListVal) else None)
    if A is None or is_opaque(A) or A.ndim != 1: return None
    k_ = A.axes[0][1].as_int()
    if k_ is None or k_ > 64: return None
    out = [arr_index(A, X.const(i)) for i in range(k_)]
    return out if all(to_x(e) is not None and not isinstance(e, PV) for e in out) else None


def _from_elems(elems):
    kv = fresh("k"); body = None
    for i in range(len(elems) - 1, -1, -1):
        body = elems[i] if body is None else mk_pv(lm._cond_eq(X.var(kv), X.const(i), f"{kv}=={i}"), elems[i], body)
    return Arr([(kv, X.const(len(elems)))], body if body is not None else X.const(0))


def h_diff(I, a, k, st, n):
    e = _concrete_elems(a[0], st)
    if e is None or len(a) > 1 or k: return Opaque("np.diff (only first differences of a short concrete vector are modelled)")
    return _from_elems([to_x(e[i + 1]) - to_x(e[i]) for i in range(len(e) - 1)])


def h_gradient(I, a, k, st, n):
    """np.gradient(f) with unit spacing: central differences inside, one-sided first differences at the two ends."""
    e = _concrete_elems(a[0], st)
    if e is None or len(a) > 1 or k or len(e) < 2: return Opaque("np.gradient (only a short concrete vector with unit spacing is modelled)")
    x = [to_x(v) for v in e]; m = len(x)
    g = [x[1] - x[0]] + [(x[i + 1] - x[i - 1]) * X.const(Fr(1, 2)) for i in range(1, m - 1)] + [x[m - 1] - x[m - 2]]
    return _from_elems(g)


def h_trapz(I, a, k, st, n):
    """np.trapezoid / np.trapz (y, x): sum of (y[i] + y[i+1])/2 * (x[i+1] - x[i])."""
    y = _concrete_elems(a[0], st)
    xs = a[1] if len(a) > 1 else k.get("x")
    x = _concrete_elems(xs, st) if xs is not None else None
    if y is None or (xs is not None and x is None) or k.get("dx") is not None or k.get("axis") is not None: return Opaque("np.trapezoid (only short concrete vectors are modelled)")
    tot = X.const(0)
    for i in range(len(y) - 1):
        dx = (to_x(x[i + 1]) - to_x(x[i])) if x is not None else X.const(1)
        tot = tot + (to_x(y[i]) + to_x(y[i + 1])) * X.const(Fr(1, 2)) * dx
    return tot


def h_dot1(I, a, k, st, n):
    u, v = _concrete_elems(a[0], st), _concrete_elems(a[1], st) if len(a) > 1 else None
    if u is None or v is None: return NotImplemented
    if len(u) != len(v): return Mismatch(f"np.dot of vectors of length {len(u)} and {len(v)}")
    tot = X.const(0)
    for p_, q_ in zip(u, v): tot = tot + to_x(p_) * to_x(q_)
    return tot


def h_squeeze(I, a, k, st, n):
    """np.squeeze drops every axis of length 1 (an axis of symbolic length is a generic one and stays)."""
    o = a[0]
    if isinstance(o, X): return o
    A = _arr(o, st) if isinstance(o, LocalArr) else as_arr(o)
    if A is None or is_opaque(A): return Opaque("np.squeeze")
    if k.get("axis") is not None or len(a) > 1: return Opaque("np.squeeze(axis=)")
    keep = [(v, c) for v, c in A.axes if c.as_int() != 1]
    if len(keep) == len(A.axes): return o
    body = subst_val(A.body, {v: X.const(0) for v, c in A.axes if c.as_int() == 1})
    return Arr(keep, body)


def _np_allany(which):
    def h(I, a, k, st, n):
        v = a[0] if a else None
        if isinstance(v, bool): return v
        if isinstance(v, PV) and all(isinstance(l, bool) for _, l in pv_leaves(v)): return v          # a scalar test
        if isinstance(v, (Arr, ArrParam, LocalArr)) and k.get("axis") is None and len(a) == 1: return call_method(I, v, which, [], {}, st, n)
        return Opaque(f"np.{which}")
    return h


def h_allclose(I, a, k, st, n):
    """np.allclose: a tolerance test - it does NOT establish equality of its operands, so nothing is learnt on the true branch."""
    text = " ".join(ast.unparse(n).split())[:120]
    c = Cond.get(("allclose", text), text)
    return PV(c, True, False)


def h_broadcast_to(I, a, k, st, n):
    A = as_arr(a[0]) if isinstance(a[0], (Arr, ArrParam, LocalArr)) else None
    shape = a[1] if len(a) > 1 else k.get("shape")
    if isinstance(shape, X): shape = (shape,)
    if A is None or not isinstance(shape, (tuple, list)) or any(to_x(c) is None for c in shape): return Opaque("np.broadcast_to")
    shape = [to_x(c) for c in shape]
    if A.ndim > len(shape): return Mismatch("broadcast_to a lower rank")
    axes = []; sub = {}
    lead = len(shape) - A.ndim
    for i, cnt in enumerate(shape):
        if i < lead: axes.append((fresh("b"), cnt)); continue
        v, c0 = A.axes[i - lead]
        if c0.eq(cnt): axes.append((v, cnt))
        elif c0.as_int() == 1: axes.append((fresh("b"), cnt)); sub[v] = X.const(0)
        else: return Mismatch(f"operands could not be broadcast together: {c0!r} vs {cnt!r}")
    return Arr(axes, subst_val(A.body, sub) if sub else A.body)


def _binary(sym):
    def h(I, a, k, st, n):
        if len(a) != 2: return Opaque(f"numpy ufunc {sym} arguments")
        q = lift2(sym, a[0], a[1])
        out = k.get("out"); where = k.get("where")
        if where is None: return q
        if out is None: out = Opaque("ufunc(where=) without out= leaves garbage")
        return h_where(I, [where, q, out], {}, st, n)
    return h


def h_matmul(I, a, k, st, n):
    if len(a) != 2 or k: return Opaque("matmul arguments")
    return I.binop(ast.MatMult(), a[0], a[1])


def h_logical(op):
    def h(I, a, k, st, n):
        if len(a) != 2 or k: return Opaque("logical ufunc arguments")
        return I.binop(ast.BitAnd() if op == "and" else ast.BitOr(), a[0], a[1])
    return h


def h_flatnonzero(I, a, k, st, n):
    m = a[0]
    if isinstance(m, LocalArr): m = _arr(m, st)
    if as_arr(m) is None: return Opaque("flatnonzero of non-array")
    return lm.MaskIdx(m)


def h_count_nonzero(I, a, k, st, n):
    m = a[0]
    if isinstance(m, LocalArr): m = _arr(m, st)
    if as_arr(m) is None or k: return Opaque("count_nonzero of non-array")
    return lm.mask_count(m)


def h_interp(I, a, k, st, n):
    """np.interp(x, xp, fp): piecewise-linear interpolant of the table (xp, fp) evaluated at x - kept as an uninterpreted function of x
    that is specific to the table (it is *not* the tabulated function itself)."""
    import hashlib
    if len(a) < 3: return Opaque("np.interp arguments")
    if any(k.get(z) is not None for z in ("left", "right", "period")) or len(a) > 3: return Opaque("np.interp with boundary arguments")
    tabs = []
    for t_ in a[1:3]:
        if isinstance(t_, LocalArr): t_ = _arr(t_, st)
        T_ = as_arr(t_)
        if T_ is None or is_opaque(T_): return Opaque("np.interp table not recognised")
        tabs.append(repr(vkey(Arr([(f"_t{i}", c) for i, (v, c) in enumerate(T_.axes)], subst_val(T_.body, {v: X.var(f"_t{i}") for i, (v, c) in enumerate(T_.axes)})))))
    tag = hashlib.md5("|".join(tabs).encode()).hexdigest()[:8]
    return lift1(lambda x: mk_fn("interp#" + tag, [x], "real"), a[0])


def h_prod(I, a, k, st, n):
    """np.prod over a 1-D array: kept as an uninterpreted product of the (normalised) element expression."""
    import hashlib
    v = a[0]
    if isinstance(v, LocalArr): v = _arr(v, st)
    A = as_arr(v)
    if A is None or is_opaque(A) or A.ndim != 1 or k.get("axis") is not None: return Opaque("np.prod argument")
    (av, ac), = A.axes
    b = subst_val(A.body, {av: X.var("_p0")})
    if is_opaque(b) or isinstance(b, PV) or to_x(b) is None: return Opaque("np.prod of a conditional / unrecognised element")
    tag = hashlib.md5((to_x(b).keystr() + "|" + ac.keystr()).encode()).hexdigest()[:8]
    kind = "complex" if not to_x(b).isreal() else "real"
    KIND["prod#" + tag] = kind
    return X.var("prod#" + tag)


def h_slice(I, a, k, st, n):
    """builtins.slice(stop) / slice(start, stop[, step]) -> the same value a literal a:b:c subscript evaluates to."""
    if len(a) == 1: return ("slice", None, a[0], None)
    if len(a) == 2: return ("slice", a[0], a[1], None)
    if len(a) == 3: return ("slice", a[0], a[1], a[2])
    return Opaque("slice()")


def h_unique(I, a, k, st, n):
    """np.unique(a): the sorted DISTINCT elements - a different multiset from a whenever a has repeated entries."""
    v = a[0] if a else None
    nm = getattr(v, "name", None) or "the array"
    return Mismatch(f"np.unique({nm}) keeps only the distinct elements (and sorts them): entries that occur more than once are dropped, "
                    "so sums / means over the array run over fewer terms than the caller supplied")


_reg("numpy.unique", h_unique)
_reg("builtins.slice", h_slice)
_reg("numpy.prod", h_prod)
_reg("numpy.interp", h_interp)
_reg("numpy.flatnonzero", h_flatnonzero)
_reg("numpy.count_nonzero", h_count_nonzero)
_reg("numpy.multiply", _binary("*"))
_reg("numpy.add", _binary("+"))
_reg("numpy.subtract", _binary("-"))
_reg("numpy.matmul numpy.dot", h_matmul)
_reg("numpy.logical_and", h_logical("and"))
_reg("numpy.logical_or", h_logical("or"))
_reg("numpy.isclose", h_isclose)
_reg("numpy.where", h_where)
_reg("numpy.select", h_select)
_reg("numpy.clip", h_clip)
_reg("numpy.power", h_pow)
_reg("numpy.pad", h_pad)
_reg("numpy.correlate", h_correlate)
_reg("numpy.allclose", h_allclose)
_reg("numpy.all", _np_allany("all"))
_reg("numpy.any", _np_allany("any"))
_reg("numpy.squeeze", h_squeeze)
_reg("numpy.diff", h_diff)
_reg("numpy.gradient", h_gradient)
_reg("numpy.trapezoid numpy.trapz scipy.integrate.trapezoid", h_trapz)
_reg("numpy.cumprod", _cumulative("*"))
_reg("numpy.cumsum", _cumulative("+"))
_reg("numpy.linalg.norm", h_norm)
_reg("builtins.globals", h_globals)
_reg("numpy.take", h_take)
_reg("numpy.broadcast_to", h_broadcast_to)
_reg("scipy.signal.correlate", lambda I, a, kw, st, n: h_correlate(I, a, dict({"mode": a[2] if len(a) > 2 else "full"}, **kw), st, n))
for _nm in ("numpy.convolve", "scipy.signal.convolve", "scipy.signal.fftconvolve", "scipy.signal.oaconvolve"): _reg(_nm, h_convolve)
_reg("numpy.lib.stride_tricks.sliding_window_view", h_sliding)
_reg("numpy.einsum", h_einsum)
_reg("numpy.vecdot numpy.linalg.vecdot", h_vecdot)
_reg("numpy.vdot", h_vdot)
_reg("numpy.repeat", h_repeat)
_reg("numpy.fft.fftfreq", h_fftfreq)
_reg("numpy.searchsorted", h_searchsorted)
_reg("numpy.stack", h_stack)
_reg("numpy.vstack", lambda I, a, k, st, n: h_stack(I, [a[0], X.const(0)], {}, st, n))
_reg("numpy.column_stack", lambda I, a, k, st, n: h_stack(I, [a[0], X.const(1)], {}, st, n))
_reg("numpy.linalg.qr", h_qr)
_reg("builtins.isinstance", h_isinstance)
_reg("builtins.dict", h_dict)
_reg("builtins.list", h_list)
_reg("builtins.tuple builtins.set", h_tuple)
_reg("builtins.getattr", h_getattr)
_reg("builtins.zip", h_zip)
_reg("builtins.enumerate", h_enumerate)
_reg("builtins.callable", h_callable)
_reg("builtins.str", h_str)
_reg("builtins.bool", h_bool)
_reg("builtins.sorted", h_sorted)
_reg("builtins.print", h_none)
_reg("control.mag2db", h_mag2db)
_reg("numba.cuda.grid", h_cuda_grid)
_reg("numba.cuda.to_device", h_to_device)
_reg("time.perf_counter time.time", h_opaque("clock"))


NO_PV_LIFT = {"builtins.isinstance", "builtins.getattr", "builtins.dict", "builtins.callable", "builtins.print", "numpy.where", "numpy.select"}


def _has_array_leaf(v):
    if isinstance(v, PV): return _has_array_leaf(v.hi) or _has_array_leaf(v.lo)
    return isinstance(v, (Arr, ArrParam, LocalArr))


def call_lib(I, name, args, kw, st, n):
    name = lm.canon(name)
    h = I.hooks.get("lib")
    if h:
        r = h(I, name, args, kw, st, n)
        if r is not NotImplemented: return r
    st.events.append(("libcall", name, n))
    fn = LIB.get(name)
    if fn is None:
        if name.startswith("logging.") or name.startswith("logger."): return None
        return Opaque(f"call {name}")
    if any(is_opaque(a) for a in args[:1]) and name not in ("builtins.isinstance", "builtins.getattr", "builtins.dict", "builtins.callable", "builtins.len", "builtins.print"):
        return type(args[0])(f"{name}({args[0].why})")
    try:
        if args and isinstance(args[0], PV) and name not in NO_PV_LIFT and _has_array_leaf(args[0]):
            return pv_apply(lambda x: x if is_opaque(x) else fn(I, [x] + list(args[1:]), dict(kw), st, n), args[0])
        return fn(I, list(args), dict(kw), st, n)
    except Unknown as ex:
        return Opaque(f"{name}: {ex}")
    except (IndexError, KeyError, AttributeError, TypeError) as ex:
        return Opaque(f"{name}: unmodelled use ({type(ex).__name__}: {ex})")


# ---------------------------------------------------------------------------- methods
def call_method(I, o, name, args, kw, st, n):
    h = I.hooks.get("method")
    if h:
        r = h(I, o, name, args, kw, st, n)
        if r is not NotImplemented: return r
    if isinstance(o, CudaLaunchT): return Opaque("launch method")
    if isinstance(o, (Arr, ArrParam, LocalArr)):
        if name == "mean": return _reduce(True)(I, [o] + args, kw, st, n)
        if name == "sum": return _reduce(False)(I, [o] + args, kw, st, n)
        if name in ("astype",):
            st.events.append(("astype", o, args, dict(kw), n))
            if isinstance(o, (Arr, ArrParam)) and args and isinstance(args[0], Lib) and args[0].name.split(".")[-1] in ("int", "int64", "int32", "intp"):
                return lift1(lambda x: x if lm.is_integer(x) else mk_fn("trunc", [x]), o)
            return o
        if name == "squeeze": return h_squeeze(I, [o] + list(args), kw, st, n)
        if name in ("copy", "copy_to_host", "view"): return o
        if name in ("conj", "conjugate"): return elementwise(lambda x: x.conj())(I, [o], kw, st, n)
        if name == "item":
            A = _arr(o, st)
            if A is not None and A.ndim == 1 and A.axes[0][1].as_int() == 1:
                return arr_index(A, X.const(0))
            return Opaque("item of array")
        if name == "reshape":
            return arr_reshape(o, args, st)
        if name in ("any", "all"):
            A = _arr(o, st) if isinstance(o, LocalArr) else as_arr(o)
            if A is None or is_opaque(A): return Opaque(f"array.{name}")
            body = A.body
            for v, c in A.axes: body = subst_val(body, {v: X.var("_any_" + str(len(v)))}) if False else body
            k = vkey(Arr([(f"_a{i}", c) for i, (v, c) in enumerate(A.axes)], subst_val(A.body, {v: X.var(f"_a{i}") for i, (v, c) in enumerate(A.axes)})))
            cnd = Cond.get((name, repr(k)), f"{name}({A.body!r})"[:120])
            setattr(cnd, name + "_of", A)
            return PV(cnd, True, False)
        if name in ("ravel", "flatten"):
            A = _arr(o, st) if isinstance(o, LocalArr) else as_arr(o)
            if A is not None and not is_opaque(A) and A.ndim == 1: return A
        if name == "tolist":
            A = _arr(o, st) if isinstance(o, LocalArr) else as_arr(o)
            if A is not None and not is_opaque(A) and A.ndim == 1:
                k_ = A.axes[0][1].as_int()
                if k_ is not None and k_ <= 64: return ListVal([arr_index(A, X.const(i)) for i in range(k_)])
                r_ = ListVal(); r_.per_iter = [(A.axes[0][0], A.axes[0][1], A.body)]
                return r_
        if name in ("any", "all", "min", "max", "tolist", "ravel", "flatten"):
            return Opaque(f"array.{name}")
        return Opaque(f"array method {name}")
    if isinstance(o, X):
        if name in ("item", "copy"): return o
        if name == "astype":
            if args and isinstance(args[0], Lib) and args[0].name.split(".")[-1] in ("int", "int64", "int32", "intp"):
                return o if lm.is_integer(o) else mk_fn("trunc", [o])
            return o
        if name in ("conj", "conjugate"): return o.conj()
        if name in ("max", "min") and not args and not kw and len(o.fv()) == 1 and o.eq(X.var(next(iter(o.fv())))):
            # the scalar symbol stands for one element of a per-bin array: its extreme over all bins is another quantity (of the same sign)
            nm_ = f"{next(iter(o.fv()))}.{name}"
            KIND.setdefault(nm_, KIND.get(next(iter(o.fv())), "real"))
            return X.var(nm_)
        return Opaque(f"scalar method {name}")
    if isinstance(o, ListVal):
        if name == "append":
            o.items.append(args[0]); st.events.append(("append", id(o), args[0], n)); return None
        if name == "extend":
            from .absint import _concrete_seq
            s = _concrete_seq(args[0])
            if s is None: o.items.append(Opaque("extend")); return None
            o.items.extend(s); return None
        if name in ("tolist", "copy"): return o
        if name == "pop" and not o.per_iter:
            k_ = to_x(args[0]).as_int() if args and to_x(args[0]) is not None else (-1 if not args else None)
            if k_ is None or not o.items: return Opaque("list.pop")
            try: return o.items.pop(k_)
            except IndexError: return Mismatch(f"IndexError: pop index {k_} out of range")
        if name == "insert" and not o.per_iter and len(args) == 2 and to_x(args[0]) is not None and to_x(args[0]).as_int() is not None:
            o.items.insert(to_x(args[0]).as_int(), args[1]); return None
        if name == "reverse" and not o.per_iter:
            o.items.reverse(); return None
        if name == "clear":
            o.items = []; o.per_iter = []; return None
        if name == "index": return Opaque("list.index")
        return Opaque(f"list method {name}")
    if isinstance(o, DictVal):
        if name == "get":
            k = lm.dkey(args[0])
            if k is not None and k in o.d: return o.d[k]
            if o.open: return Opaque(f"get {k!r} from open dict")
            return args[1] if len(args) > 1 else None
        if name == "items":
            return [(k, v) for k, v in o.d.items()] if not o.open else Opaque("items of open dict")
        if name == "keys": return list(o.d.keys()) if not o.open else Opaque("keys of open dict")
        if name == "values": return list(o.d.values()) if not o.open else Opaque("values of open dict")
        if name == "update":
            a = args[0] if args else DictVal(kw)
            if isinstance(a, DictVal): o.d.update(a.d); o.open = o.open or a.open
            else:
                # an iterable of (key, value) pairs
                from .absint import _concrete_seq
                seq = _concrete_seq(a)
                pairs = [(_concrete_seq(p) if not isinstance(p, tuple) else p) for p in seq] if seq is not None else None
                if pairs is not None and all(p is not None and len(p) == 2 and lm.dkey(p[0]) is not None for p in pairs):
                    for k_, v_ in pairs: o.d[lm.dkey(k_)] = v_
                else: o.open = True
            return None
        if name == "copy":
            r = DictVal(o.d, o.open); return r
        if name == "setdefault":
            k = args[0]
            if isinstance(k, str):
                if k not in o.d: o.d[k] = args[1] if len(args) > 1 else None
                return o.d[k]
        if name == "pop":
            k = args[0]
            if isinstance(k, str) and k in o.d: return o.d.pop(k)
            return args[1] if len(args) > 1 else Opaque("pop")
        return Opaque(f"dict method {name}")
    if isinstance(o, str):
        try:
            if name in ("lower", "upper", "strip"): return getattr(o, name)()
            if name in ("startswith", "endswith"):
                a = args[0]
                if isinstance(a, tuple) and all(isinstance(e, str) for e in a): return getattr(o, name)(a)
                if isinstance(a, str): return getattr(o, name)(a)
            if name == "join":
                from .absint import _concrete_seq
                s = _concrete_seq(args[0])
                if s is not None and all(isinstance(e, str) for e in s): return o.join(s)
        except Exception:
            pass
        return Opaque(f"str method {name}")
    if isinstance(o, tuple):
        return Opaque(f"tuple method {name}")
    if isinstance(o, Obj):
        hk = getattr(o, "hook", None)
        if hk:
            r = hk("call", o, name, (args, kw), st)
            if r is not NotImplemented: return r
        if isinstance(o, SuperObj):
            m = I.find_method(o.obj.cls, name, after=o.after)
            if m is None: return None if name == "__init__" else Opaque(f"super().{name}")
            return I.call_func(Func(m, I.repo.get(m)), [o.obj] + list(args), kw, st, n)
        if o.cls and I.repo.has(o.cls):
            m = I.find_method(o.cls, name)
            if m is not None:
                node_ = I.repo.get(m)
                decos = {ast.unparse(d) for d in getattr(node_, "decorator_list", [])}
                if "staticmethod" in decos: return I.call_func(Func(m, node_), list(args), kw, st, n)
                if "classmethod" in decos: return I.call_func(Func(m, node_), [Func(o.cls, I.repo.get(o.cls))] + list(args), kw, st, n)
                return I.call_func(Func(m, node_), [o] + list(args), kw, st, n)
        return Opaque(f"method {name}")
    return Opaque(f"method {name} of {type(o).__name__}")


class CudaLaunchT:
    pass


class SuperObj(Obj):
    def __init__(s, obj, after):
        Obj.__init__(s, "super"); s.obj = obj; s.after = after


def h_super(I, args, kw, st, n):
    me = st.env.get("self")
    fk = getattr(st, "fn_key", "")
    cls = fk.rsplit(".", 1)[0] if "." in fk.split("::")[-1] else None
    if not isinstance(me, Obj) or cls is None: return Opaque("super() outside a method")
    return SuperObj(me, cls)


def arr_reshape(o, args, st):
    """C-order reshape of a 2-D array to 2-D: element [i, j] is the flat element i*C' + j of the source."""
    A = _arr(o, st) if isinstance(o, LocalArr) else as_arr(o)
    if A is None or is_opaque(A): return Opaque("reshape of a partially filled array")
    shp = args[0] if len(args) == 1 and isinstance(args[0], tuple) else tuple(args)
    xs = [to_x(a) for a in shp]
    if any(x is None for x in xs): return Opaque("reshape with non-numeric shape")
    total = X.const(1)
    for _, c in A.axes: total = total * c
    known = X.const(1); unknown = None
    for i, x in enumerate(xs):
        if x.as_int() == -1:
            if unknown is not None: return Opaque("reshape with two -1")
            unknown = i
        else: known = known * x
    if unknown is not None: xs[unknown] = total / known
    if len(xs) == len(A.axes) and all(a.eq(c) for a, (_, c) in zip(xs, A.axes)): return A
    if len(xs) != 2 or A.ndim not in (1, 2): return Opaque("reshape of this rank")
    iv, jv = fresh("i"), fresh("j")
    flat = X.var(iv) * xs[1] + X.var(jv)
    if A.ndim == 1:
        body = subst_val(A.body, {A.axes[0][0]: flat})
    else:
        (rv, rc), (cv, cc) = A.axes
        body = subst_val(A.body, {rv: mk_fn("floor", [flat / cc]), cv: mk_fn("mod", [flat, cc])})
    return Arr([(iv, xs[0]), (jv, xs[1])], body)


_reg("builtins.super", h_super)
