"""E2 - SymAlg: algebraic normal form over Gaussian rationals with conj, rational
exponents, binders (sums), indexed atoms and unit phasors.  stdlib only.

An expression is an ``X``: ``coef * prod(atom^e) * prod(P_i^e_i)`` where each P_i is a
multi-term primitive Laurent polynomial.  Expansion to a (num, den) pair of ``Poly`` is
lazy (addition and the equality test only).  Nothing here executes analysed code; this
is value numbering modulo the ring axioms.
"""
from fractions import Fraction as Fr
import cmath
import hashlib
import math


class Unknown(Exception):
    """Raised when a construct is outside the modelled fragment (three-valued logic)."""


# --------------------------------------------------------------------------- coefficients
def _n(v):
    """canonical number: int when integral, else Fraction."""
    if type(v) is int: return v
    if isinstance(v, Fr): return v.numerator if v.denominator == 1 else v
    if isinstance(v, int): return int(v)
    f = Fr(v)
    return f.numerator if f.denominator == 1 else f


class C:
    __slots__ = ("re", "im")

    def __init__(s, re=0, im=0):
        s.re = _n(re); s.im = _n(im)

    def __add__(s, o):
        if s.im == 0 and o.im == 0: return C(s.re + o.re)
        return C(s.re + o.re, s.im + o.im)

    def __mul__(s, o):
        if s.im == 0 and o.im == 0: return C(s.re * o.re)
        return C(s.re * o.re - s.im * o.im, s.re * o.im + s.im * o.re)

    def __neg__(s): return C(-s.re, -s.im)
    def conj(s): return C(s.re, -s.im) if s.im != 0 else s
    def iszero(s): return s.re == 0 and s.im == 0

    def inv(s):
        d = Fr(s.re * s.re + s.im * s.im)
        if d == 0:
            raise Unknown("division by zero coefficient")
        return C(s.re / d, -s.im / d)

    def __eq__(s, o): return s.re == o.re and s.im == o.im
    def __hash__(s): return hash((s.re, s.im))

    def __repr__(s):
        if s.im == 0: return str(s.re)
        if s.re == 0: return f"{s.im}i"
        return f"({s.re}+{s.im}i)"

    def complex(s): return complex(float(s.re), float(s.im))


ONE = C(1)
ZERO = C(0)
I_ = C(0, 1)

# --------------------------------------------------------------------------- atoms
KIND = {}          # variable name -> 'pos' | 'real' | 'complex' | 'nat'
ARRAY_KIND = {}    # array name -> 'real' | 'complex' | 'pos'
INT_ARRAY_NAMES = set()   # arrays holding integers (numeric cross-check only)


class Atom:
    """tag in {'v','conj','num','fn','idx','sum','pa'}; hash/eq by canonical key."""
    __slots__ = ("tag", "name", "args", "kind", "key", "fv", "depth")

    def __init__(s, tag, name=None, args=(), kind="real"):
        s.tag = tag; s.name = name; s.args = tuple(args); s.kind = kind
        fv = set(); depth = 0
        if tag == "v":
            fv.add(name)
        for a in s.args:
            if isinstance(a, X):
                fv |= a.fv(); depth = max(depth, a.depth())
            elif isinstance(a, Atom):
                fv |= a.fv; depth = max(depth, a.depth)
            elif isinstance(a, Poly):
                fv |= a.fv(); depth = max(depth, a.depth())
        if tag == "sum":
            fv = set(fv); fv.discard(name); depth += 1
        s.fv = frozenset(fv); s.depth = depth
        parts = []
        for a in s.args:
            if isinstance(a, X): parts.append(a.keystr())
            elif isinstance(a, Atom): parts.append(a.key)
            elif isinstance(a, Poly): parts.append(repr(a.key()))
            else: parts.append(repr(a))
        s.key = f"{tag}:{name}:{kind}(" + ",".join(parts) + ")"

    def __eq__(s, o): return isinstance(o, Atom) and s.key == o.key
    def __hash__(s): return hash(s.key)
    def __repr__(s): return fmt_atom(s)


_VCACHE = {}


def V(name):
    """Variable atom; kind looked up in KIND at creation."""
    k = KIND.get(name, "real")
    a = _VCACHE.get((name, k))
    if a is None:
        a = Atom("v", name, (), "pos" if k == "nat" else k)
        _VCACHE[(name, k)] = a
    return a


def atom_kind(a):
    return a.kind


def conj_atom(a):
    """conjugate of an atom, as an (atom, exponent-sign) pair: returns (atom, sign)."""
    k = a.kind
    if k in ("pos", "real"):
        return a, 1
    if k == "unit":
        return a, -1
    if a.tag == "conj":
        return a.args[0], 1
    if a.tag == "sum":
        cnt, body = a.args
        return Atom("sum", a.name, (cnt, body.conj()), a.kind), 1
    return Atom("conj", None, (a,), "complex"), 1


def fmt_atom(a):
    if a.tag == "v": return str(a.name)
    if a.tag == "conj": return f"~{fmt_atom(a.args[0])}"
    if a.tag == "num": return f"#{a.name}"
    if a.tag == "pa": return f"<{a.args[0]}>"
    if a.tag == "fn": return f"{a.name}(" + ", ".join(map(repr, a.args)) + ")"
    if a.tag == "idx": return f"{a.name}[" + ", ".join(map(repr, a.args)) + "]"
    if a.tag == "sum": return f"Sum[{a.name}<{a.args[0]!r}]({a.args[1]!r})"
    return a.key


def primes(n):
    n = int(n); out = {}; p = 2
    while p * p <= n:
        while n % p == 0:
            out[p] = out.get(p, 0) + 1; n //= p
        p += 1
    if n > 1: out[n] = out.get(n, 0) + 1
    return out


_NUMA = {}


def num_atom(p):
    a = _NUMA.get(p)
    if a is None:
        a = Atom("num", int(p), (), "pos"); _NUMA[p] = a
    return a


# --------------------------------------------------------------------------- polynomials
def mono(d):
    return tuple(sorted(((a, _n(e)) for a, e in d.items() if e != 0), key=lambda t: t[0].key))


M1 = ()


class Poly:
    """dict monomial -> C; monomials hold rational exponents (Laurent/Puiseux)."""
    __slots__ = ("t", "_key")

    def __init__(s, terms=None):
        s.t = {}; s._key = None
        if terms:
            for m, c in terms.items(): s._add(m, c)

    def _add(s, m, c):
        s._key = None
        d = dict(m)
        coef = c
        extra = []
        for a in list(d):
            e = d[a]
            if e == 0:
                del d[a]; continue
            if a.tag == "num" and (type(e) is int or e.denominator == 1):
                coef = coef * C(Fr(a.name) ** int(e)); del d[a]
            elif a.tag == "pa" and (type(e) is int or e.denominator == 1) and e > 0:
                extra.append((a.args[0], int(e))); del d[a]
        if extra:
            p = Poly({mono(d): coef})
            for base, k in extra:
                for _ in range(k): p = p * base
            for m2, c2 in p.t.items(): s._add(m2, c2)
            return
        mm = mono(d)
        nc = s.t.get(mm, ZERO) + coef
        if nc.iszero(): s.t.pop(mm, None)
        else: s.t[mm] = nc

    @staticmethod
    def const(c): return Poly({M1: c if isinstance(c, C) else C(c)})

    @staticmethod
    def atom(a, e=1): return Poly({((a, Fr(e)),): ONE})

    def __add__(s, o):
        r = Poly(); r.t = dict(s.t)
        for m, c in o.t.items(): r._add(m, c)
        return r

    def __neg__(s):
        r = Poly(); r.t = {m: -c for m, c in s.t.items()}; return r

    def __sub__(s, o): return s + (-o)

    def __mul__(s, o):
        r = Poly()
        if len(s.t) * len(o.t) > 200000:
            raise Unknown("polynomial product too large")
        for m1, c1 in s.t.items():
            for m2, c2 in o.t.items():
                d = {}
                for a, e in m1: d[a] = d.get(a, 0) + e
                for a, e in m2: d[a] = d.get(a, 0) + e
                r._add(d, c1 * c2)
        return r

    def iszero(s): return not s.t
    def single(s): return len(s.t) == 1

    def conj(s):
        r = Poly()
        for m, c in s.t.items():
            d = {}
            for a, e in m:
                ca, sg = conj_atom(a)
                d[ca] = d.get(ca, 0) + e * sg
            r._add(d, c.conj())
        return r

    def key(s):
        if s._key is None:
            s._key = tuple(sorted(((tuple((a.key, str(e)) for a, e in m), (str(c.re), str(c.im)))
                                   for m, c in s.t.items())))
        return s._key

    def fv(s):
        out = set()
        for m in s.t:
            for a, _ in m: out |= a.fv
        return out

    def depth(s):
        d = 0
        for m in s.t:
            for a, _ in m: d = max(d, a.depth)
        return d

    def atoms(s):
        out = set()
        for m in s.t:
            for a, _ in m: out.add(a)
        return out

    def __repr__(s):
        if not s.t: return "0"
        out = []
        for m, c in sorted(s.t.items(), key=lambda kv: tuple((a.key, e) for a, e in kv[0])):
            ms = "*".join((fmt_atom(a) if e == 1 else f"{fmt_atom(a)}^{e}") for a, e in m)
            if ms and c == ONE: out.append(ms)
            else: out.append(f"{c}" + (("*" + ms) if ms else ""))
        return " + ".join(out)


NONNEG = set()    # keys of primitive polynomials declared non-negative


GENERIC_ROOTS = [False]
ROOT_ASSUMED = []


def declare_nonneg(x):
    n, d = x.rational()
    xx = X.from_poly(n)
    for k, (pl, e) in xx.p.items():
        NONNEG.add(k)


def poly_atom(p):
    k = p.key()
    kind = "pos" if k in NONNEG else "real"
    if p.conj().key() != k: kind = "complex"
    return Atom("pa", hashlib.md5(repr(k).encode()).hexdigest()[:10], (p,), kind)


def content(p):
    """split a multi-term polynomial into (rational>0, monomial dict, primitive poly)."""
    from math import gcd
    nterms = len(p.t)
    atoms = {}
    for m in p.t:
        for a, e in m: atoms.setdefault(a, []).append(e)
    cm = {}
    for a, es in atoms.items():
        mn = min(es) if len(es) == nterms else min(min(es), Fr(0))
        if mn != 0: cm[a] = mn
    nums = []; dens = []
    for c in p.t.values():
        for v in (c.re, c.im):
            if v != 0:
                nums.append(abs(v.numerator)); dens.append(v.denominator)
    g = 0
    for n_ in nums: g = gcd(g, n_)
    l = 1
    for d_ in dens: l = l * d_ // gcd(l, d_)
    cc = Fr(g, l)
    inv = Poly({tuple((a, -e) for a, e in cm.items()): C(1 / cc)})
    prim = p * inv
    return cc, cm, prim


# --------------------------------------------------------------------------- factored form
class X:
    """coef * prod(atom^e) * prod(prim_i^e_i)"""
    __slots__ = ("c", "m", "p", "_rat", "_ks")

    def __init__(s, coef=ONE, mono_=None, prims=None):
        s.c = coef
        s.m = {a: _n(e) for a, e in (mono_ or {}).items() if e != 0}
        s.p = {k: (v[0], _n(v[1])) for k, v in (prims or {}).items() if v[1] != 0}
        s._rat = None; s._ks = None
        if s.c.iszero():
            s.m = {}; s.p = {}
        # fold integer powers of prime atoms into the coefficient
        for a in [a for a in s.m if a.tag == "num" and Fr(s.m[a]).denominator == 1]:
            e = int(s.m.pop(a))
            s.c = s.c * C(Fr(a.name) ** e)

    # constructors
    @staticmethod
    def from_poly(p):
        if p.iszero(): return X(ZERO)
        if p.single():
            (m, c), = p.t.items()
            return X(c, dict(m))
        cc, cm, prim = content(p)
        return X(C(cc), cm, {prim.key(): (prim, Fr(1))})

    @staticmethod
    def const(v):
        if isinstance(v, C): return X(v)
        if isinstance(v, complex): return X(C(Fr(str(v.real)), Fr(str(v.imag))))
        if isinstance(v, float): return X(C(Fr(str(v))))
        return X(C(Fr(v)))

    @staticmethod
    def atom(a):
        if isinstance(a, str): a = V(a)
        return X(ONE, {a: Fr(1)})

    @staticmethod
    def var(name): return X.atom(V(name))

    def iszero(s): return s.c.iszero()

    def isconst(s): return not s.m and not s.p

    def constval(s):
        if not s.isconst(): return None
        return s.c

    def as_int(s):
        if s.isconst() and s.c.im == 0 and s.c.re.denominator == 1: return int(s.c.re)
        return None

    def __mul__(s, o):
        if not isinstance(o, X): o = X.const(o)
        m = dict(s.m)
        for a, e in o.m.items(): m[a] = m.get(a, 0) + e
        p = dict(s.p)
        for k, (pl, e) in o.p.items():
            p[k] = (pl, p[k][1] + e) if k in p else (pl, e)
        return X(s.c * o.c, m, p)

    __rmul__ = __mul__

    def inv(s):
        if s.iszero(): raise Unknown("division by zero")
        return X(s.c.inv(), {a: -e for a, e in s.m.items()}, {k: (pl, -e) for k, (pl, e) in s.p.items()})

    def __truediv__(s, o):
        if not isinstance(o, X): o = X.const(o)
        return s * o.inv()

    def __neg__(s): return X(-s.c, s.m, s.p)

    def rational(s):
        """-> (num Poly, den Poly); fractional powers of multi-term prims become poly-atoms."""
        if s._rat is not None: return s._rat
        num = Poly(); num._add(dict(s.m), s.c); den = Poly.const(1)
        for k, (pl, e) in s.p.items():
            e = Fr(e)
            ip = e.numerator // e.denominator if e >= 0 else -((-e).numerator // (-e).denominator)
            fr = e - ip
            if fr != 0:
                q = Poly(); q._add({poly_atom(pl): fr}, ONE); num = num * q
            for _ in range(abs(ip)):
                if ip > 0: num = num * pl
                else: den = den * pl
        # move negative-exponent monomial content of a single-term denominator up
        s._rat = (num, den)
        return s._rat

    def __add__(s, o):
        if not isinstance(o, X): o = X.const(o)
        if s.iszero(): return o
        if o.iszero(): return s
        n1, d1 = s.rational(); n2, d2 = o.rational()
        if d1.key() == d2.key(): n, d = n1 + n2, d1
        else: n, d = n1 * d2 + n2 * d1, d1 * d2
        if n.iszero(): return X(ZERO)
        return X.from_poly(n) / X.from_poly(d)

    __radd__ = __add__

    def __sub__(s, o):
        if not isinstance(o, X): o = X.const(o)
        return s + (-o)

    def __rsub__(s, o): return X.const(o) - s

    def eq(s, o):
        if not isinstance(o, X): o = X.const(o)
        n1, d1 = s.rational(); n2, d2 = o.rational()
        if d1.key() == d2.key(): return (n1 - n2).iszero()
        return (n1 * d2 - n2 * d1).iszero()

    def conj(s):
        m = {}
        for a, e in s.m.items():
            ca, sg = conj_atom(a)
            m[ca] = m.get(ca, 0) + e * sg
        p = {}
        for k, (pl, e) in s.p.items():
            cp = pl.conj()
            # re-normalise (conjugation may change sign conventions of primitive part: it does not,
            # content() only extracts positive rationals)
            p[cp.key()] = (cp, e)
        return X(s.c.conj(), m, p)

    def isreal(s):
        try: return s.eq(s.conj())
        except Unknown: return False

    def pow(s, q):
        q = Fr(q)
        if q.denominator == 1:
            k = int(q)
            if k == 0: return X.const(1)
            if k < 0 and s.iszero(): raise Unknown("0 ** negative")
            return X(_cpow(s.c, k), {a: e * k for a, e in s.m.items()},
                     {kk: (pl, e * k) for kk, (pl, e) in s.p.items()})
        if s.iszero():
            if q > 0: return X(ZERO)
            raise Unknown("0 ** negative")
        if s.c.im != 0 or s.c.re <= 0:
            raise Unknown(f"fractional power of coefficient {s.c}")
        m = {}
        for pr, k in primes(s.c.re.numerator).items(): m[num_atom(pr)] = Fr(k) * q
        for pr, k in primes(s.c.re.denominator).items():
            m[num_atom(pr)] = m.get(num_atom(pr), 0) - Fr(k) * q
        for a, e in s.m.items():
            kd = a.kind
            if kd == "pos":
                m[a] = m.get(a, 0) + e * q
            elif kd in ("complex",):
                ca, sg = conj_atom(a)
                if s.m.get(ca) != e:
                    raise Unknown(f"fractional power of lone complex atom {a}")
                m[a] = m.get(a, 0) + e * q
            elif kd == "unit":
                raise Unknown(f"fractional power of phasor {a}")
            else:
                if Fr(e).denominator == 1 and e % 2 == 0:
                    ab = Atom("fn", "abs", (X.atom(a),), "pos"); m[ab] = m.get(ab, 0) + e * q
                elif GENERIC_ROOTS[0] and a.tag == "pa":
                    m[a] = m.get(a, 0) + e * q
                else:
                    raise Unknown(f"fractional power of signed atom {a}")
        p = {}
        for kk, (pl, e) in s.p.items():
            ck = pl.conj().key()
            if kk in NONNEG:
                p[kk] = (pl, e * q)
            elif ck != kk and ck in s.p and s.p[ck][1] == e:
                p[kk] = (pl, e * q)          # pl * conj(pl) = |pl|^2 >= 0: the conjugate pair takes the root together
            elif Fr(e).denominator == 1 and e % 2 == 0:
                ab = Atom("fn", "abs", (X.from_poly(pl),), "pos"); m[ab] = m.get(ab, 0) + e * q
            elif GENERIC_ROOTS[0]:
                # client-declared generic regime: a root is only taken of quantities that are positive there (recorded as an assumption)
                ROOT_ASSUMED.append(pl); p[kk] = (pl, e * q)
            else:
                raise Unknown("fractional power of signed polynomial " + repr(pl))
        return X(ONE, m, p)

    def sqrt(s): return s.pow(Fr(1, 2))

    def abs(s):
        if s.isreal():
            try: return s.pow(2).pow(Fr(1, 2))
            except Unknown: pass
        zz = s * s.conj()
        try: return zz.pow(Fr(1, 2))
        except Unknown:
            declare_nonneg(zz)          # z * conj(z) >= 0 by construction
            return zz.pow(Fr(1, 2))

    def real(s): return (s + s.conj()) * X.const(Fr(1, 2))

    def imag(s): return (s - s.conj()) * X(C(0, Fr(-1, 2)))

    # structure
    def fv(s):
        out = set()
        for a in s.m: out |= a.fv
        for k, (pl, e) in s.p.items(): out |= pl.fv()
        return out

    def depth(s):
        d = 0
        for a in s.m: d = max(d, a.depth)
        for k, (pl, e) in s.p.items(): d = max(d, pl.depth())
        return d

    def atoms(s):
        out = set(s.m)
        for k, (pl, e) in s.p.items(): out |= pl.atoms()
        return out

    def all_atoms(s):
        """atoms including those nested in structured atoms."""
        out = set()
        stack = list(s.atoms())
        while stack:
            a = stack.pop()
            if a in out: continue
            out.add(a)
            for g in a.args:
                if isinstance(g, X): stack.extend(g.atoms())
                elif isinstance(g, Atom): stack.append(g)
                elif isinstance(g, Poly): stack.extend(g.atoms())
        return out

    def keystr(s):
        if s._ks is None:
            n, d = s.rational()
            s._ks = repr((n.key(), d.key()))
        return s._ks

    def __repr__(s):
        n, d = s.rational()
        if d.key() == Poly.const(1).key(): return f"{n}"
        return f"({n})/({d})"

    # substitution / mapping
    def map_atoms(s, f):
        """rebuild with every top-level atom a replaced by f(a) (an X)."""
        r = X(s.c)
        for a, e in s.m.items():
            r = r * _xpow(f(a), e)
        for k, (pl, e) in s.p.items():
            r = r * _xpow(poly_map(pl, f), e)
        return r

    def subst(s, mapping):
        """mapping: variable name -> X.  Capture-avoiding (bound names are canonical)."""
        if not mapping: return s
        fvs = s.fv()
        mapping = {k: v for k, v in mapping.items() if k in fvs}
        if not mapping: return s
        ren = _as_rename(mapping)
        if ren is not None:
            return _rename_x(s, ren, {})
        return s.map_atoms(lambda a: atom_subst(a, mapping))

    def rewrite(s, table):
        """deep rewrite of atoms: table maps atom key -> X (applied bottom-up, also inside function arguments)."""
        def f(a):
            if a.key in table: return table[a.key]
            if a.tag == "fn":
                args = [g.rewrite(table) if isinstance(g, X) else g for g in a.args]
                r = mk_fn(a.name, args, a.kind)
                if len(r.m) == 1 and not r.p:
                    (b, e), = r.m.items()
                    if b.key in table and e == 1 and r.c == ONE: return table[b.key]
                return r
            if a.tag == "idx":
                return mk_idx(a.name, [g.rewrite(table) for g in a.args], a.kind)
            if a.tag == "sum":
                cnt, body = a.args
                return mk_sum(a.name, cnt.rewrite(table), body.rewrite(table))
            if a.tag == "conj":
                return f(a.args[0]).conj()
            return X.atom(a)
        return s.map_atoms(f)

    def degree_in(s, scales):
        """homogeneity degree under atom -> lambda^w atom for atoms in `scales` (dict atom->weight);
        returns Fraction or raises Unknown if not homogeneous."""
        n, d = s.rational()
        return _poly_degree(n, scales) - _poly_degree(d, scales)


def _as_rename(mapping):
    """mapping whose values are all plain variables -> {old name: new Atom}; else None."""
    out = {}
    for k, v in mapping.items():
        if not isinstance(v, X) or v.p or len(v.m) != 1 or not (v.c == ONE): return None
        (a, e), = v.m.items()
        if e != 1 or a.tag != "v": return None
        out[k] = a
    # injective and not clashing with remaining free names is the caller's business (fresh names)
    if len({a.key for a in out.values()}) != len(out): return None
    return out


def _rename_atom(a, ren, memo):
    if not (a.fv & set(ren)): return a
    r = memo.get(a.key)
    if r is not None: return r
    if a.tag == "v":
        r = ren[a.name]
    elif a.tag == "conj":
        r = Atom("conj", None, (_rename_atom(a.args[0], ren, memo),), "complex")
    elif a.tag == "pa":
        np_ = _rename_poly(a.args[0], ren, memo)
        r = poly_atom(np_)
    elif a.tag == "sum":
        cnt, body = a.args
        rr = {k: v for k, v in ren.items() if k != a.name}
        if any(v.name == a.name for v in rr.values()):
            return None
        r = Atom("sum", a.name, (_rename_x(cnt, rr, {}), _rename_x(body, rr, {})), a.kind)
    else:
        args = []
        for g in a.args:
            if isinstance(g, X): args.append(_rename_x(g, ren, memo))
            elif isinstance(g, Atom): args.append(_rename_atom(g, ren, memo))
            else: args.append(g)
        if a.tag == "fn" and a.name in ("cis", "cos", "sin", "arcsin", "min", "max"):
            return None      # sign / order canonicalisation may change: take the slow path
        r = Atom(a.tag, a.name, tuple(args), a.kind)
    memo[a.key] = r
    return r


class _SlowPath(Exception):
    pass


def _rename_poly(p, ren, memo):
    q = Poly()
    for m, c in p.t.items():
        d = {}
        for a, e in m:
            na = _rename_atom(a, ren, memo)
            if na is None: raise _SlowPath()
            d[na] = d.get(na, 0) + e
        q._add(d, c)
    return q


def _rename_x(x, ren, memo):
    ren = {k: v for k, v in ren.items() if k in x.fv()}
    if not ren: return x
    try:
        m = {}
        for a, e in x.m.items():
            na = _rename_atom(a, ren, memo)
            if na is None: raise _SlowPath()
            m[na] = m.get(na, 0) + e
        p = {}
        for k, (pl, e) in x.p.items():
            npl = _rename_poly(pl, ren, memo)
            cc, cm, prim = content(npl) if len(npl.t) > 1 else (None, None, None)
            if cc is None or cc != 1 or cm: raise _SlowPath()
            kk = prim.key()
            p[kk] = (prim, p[kk][1] + e) if kk in p else (prim, e)
        return X(x.c, m, p)
    except _SlowPath:
        mp = {k: X.atom(v) for k, v in ren.items()}
        return x.map_atoms(lambda a: atom_subst(a, mp))


def _poly_degree(p, scales):
    degs = set()
    for m, c in p.t.items():
        dg = Fr(0)
        for a, e in m:
            dg += _atom_degree(a, scales) * e
        degs.add(dg)
    if len(degs) != 1:
        raise Unknown(f"not homogeneous: degrees {sorted(degs)}")
    return degs.pop()


def _atom_degree(a, scales):
    if a in scales: return Fr(scales[a])
    if a.tag == "conj": return _atom_degree(a.args[0], scales)
    if a.tag == "pa": return _poly_degree(a.args[0], scales)
    if a.tag == "fn":
        if a.name == "abs": return a.args[0].degree_in(scales)
        for g in a.args:
            if isinstance(g, X) and g.degree_in(scales) != 0:
                raise Unknown(f"{a.name} of a dimensioned argument")
        return Fr(0)
    if a.tag == "sum":
        return a.args[1].degree_in(scales)
    if a.tag == "idx":
        w = scales.get(("array", a.name))
        return Fr(w) if w is not None else Fr(0)
    return Fr(0)


def _xpow(x, e):
    e = Fr(e)
    return x.pow(e)


def _cpow(c, k):
    r = ONE; b = c if k > 0 else c.inv()
    for _ in range(abs(k)): r = r * b
    return r


def poly_map(pl, f):
    r = X(ZERO)
    for m, c in pl.t.items():
        t = X(c)
        for a, e in m: t = t * _xpow(f(a), e)
        r = r + t
    return r


def atom_subst(a, mapping):
    if not (a.fv & set(mapping)): return X.atom(a)
    if a.tag == "v":
        return mapping[a.name]
    if a.tag == "conj":
        return atom_subst(a.args[0], mapping).conj()
    if a.tag == "pa":
        return poly_map(a.args[0], lambda b: atom_subst(b, mapping))  # exponent applied by caller
    if a.tag == "fn":
        args = [g.subst(mapping) if isinstance(g, X) else g for g in a.args]
        return mk_fn(a.name, args, a.kind)
    if a.tag == "idx":
        return mk_idx(a.name, [g.subst(mapping) for g in a.args], a.kind)
    if a.tag == "sum":
        cnt, body = a.args
        mp = {k: v for k, v in mapping.items() if k != a.name}
        return mk_sum(a.name, cnt.subst(mp), body.subst(mp))
    return X.atom(a)


# --------------------------------------------------------------------------- smart constructors
REAL_FNS = {"arcsin", "tan", "arctan", "tanh", "sinh", "cosh", "log10", "log", "angle", "unwrap", "unwrap1", "unwrap1d", "cos", "sin", "nearest", "trunc", "floor", "ceil",
            "abs", "min", "max", "mod", "sign"}


def _looks_negative(x):
    n, d = x.rational()
    if n.iszero(): return False
    m0 = min(n.t, key=lambda m: tuple((a.key, e) for a, e in m))
    c = n.t[m0]
    # account for sign of a single-term denominator
    sgn = 1
    if d.single():
        (dm, dc), = d.t.items()
        if dc.re < 0: sgn = -1
    return (c.re * sgn < 0) or (c.re == 0 and c.im * sgn < 0)


def mk_fn(name, args, kind=None):
    args = [a if isinstance(a, X) else X.const(a) for a in args]
    if kind is None:
        kind = "real"
    if name == "cis":
        th = args[0]
        if th.iszero(): return X.const(1)
        if _looks_negative(th):
            return X.atom(Atom("fn", "cis", ((-th),), "unit")).inv()
        return X.atom(Atom("fn", "cis", (th,), "unit"))
    if name in ("cos",):
        th = args[0]
        if th.iszero(): return X.const(1)
        if _looks_negative(th): th = -th
        return X.atom(Atom("fn", "cos", (th,), "real"))
    if name in ("sin", "arcsin"):
        th = args[0]
        if th.iszero(): return X.const(0)
        if _looks_negative(th):
            return -X.atom(Atom("fn", name, ((-th),), "real"))
        return X.atom(Atom("fn", name, (th,), "real"))
    if name in ("nearest", "trunc", "floor", "ceil"):
        v = args[0].as_int()
        if v is not None: return X.const(v)
        c = args[0].constval()
        if c is not None and c.im == 0:
            f = c.re
            if name == "nearest": return X.const(math.floor(f + Fr(1, 2)))
            if name == "trunc": return X.const(int(f))
            if name == "floor": return X.const(math.floor(f))
            if name == "ceil": return X.const(math.ceil(f))
    if name == "abs":
        return args[0].abs()
    if name in ("min", "max"):
        cs = [a.constval() for a in args]
        if all(c is not None and c.im == 0 for c in cs):
            return X.const((min if name == "min" else max)(Fr(c.re) for c in cs))
        uniq = {}
        for a in args: uniq[a.keystr()] = a
        args = [uniq[k] for k in sorted(uniq)]
        if len(args) == 1: return args[0]
        if kind != "pos": kind = "real"
    return X.atom(Atom("fn", name, tuple(args), kind))


def mk_idx(arr, idx, kind=None):
    idx = [a if isinstance(a, X) else X.const(a) for a in idx]
    if kind is None: kind = ARRAY_KIND.get(arr, "real")
    return X.atom(Atom("idx", arr, tuple(idx), kind))


def _bname(d): return f"_b{d}"


def mk_sum(var, count, body):
    """Sum_{var=0}^{count-1} body, normalised by linearity; bound variable renamed canonically."""
    if not isinstance(count, X): count = X.const(count)
    if body.iszero(): return X(ZERO)
    if var not in body.fv():
        return count * body
    ci = count.as_int()
    pure = ci is not None and ci <= 256 and body.fv() == {var} and all(a.tag == "v" for a in body.all_atoms())
    if ci is not None and (0 <= ci <= 8 or pure):
        # small counts, and power sums over a concrete range (a pure polynomial / rational function of the index), are expanded exactly
        res = X(ZERO)
        for i in range(ci): res = res + body.subst({var: X.const(i)})
        return res
    n, d = body.rational()
    if var in d.fv():
        return _sum_atom(var, count, body)
    if FAULHABER[0]:
        r_ = _faulhaber(var, count, body)
        if r_ is not None: return r_
    res = X(ZERO)
    dx = X.from_poly(d)
    for m, c in n.t.items():
        dep = {}; ind = {}
        for a, e in m:
            (dep if var in a.fv else ind)[a] = e
        outside = X(c, ind) / dx
        if not dep:
            res = res + outside * count
        else:
            res = res + outside * _sum_atom(var, count, X(ONE, dep))
    return res


FAULHABER = [False]      # switched on by clients that prove identities of power sums over a symbolic range (orthonormality of closed-form bases)
_FAUL = {0: [0, 1], 1: [0, Fr(-1, 2), Fr(1, 2)], 2: [0, Fr(1, 6), Fr(-1, 2), Fr(1, 3)], 3: [0, 0, Fr(1, 4), Fr(-1, 2), Fr(1, 4)],
         4: [0, Fr(-1, 30), 0, Fr(1, 3), Fr(-1, 2), Fr(1, 5)], 5: [0, 0, Fr(-1, 12), 0, Fr(5, 12), Fr(-1, 2), Fr(1, 6)],
         6: [0, Fr(1, 42), 0, Fr(-1, 6), 0, Fr(1, 2), Fr(-1, 2), Fr(1, 7)]}


def _faulhaber(var, count, body):
    """sum_{var<count} of a polynomial in var with var-free coefficients: closed form in count (sum_{i<N} i^p, p <= 6), or None."""
    n, d = body.rational()
    if var in d.fv(): return None
    tot = X(ZERO); dx = X.from_poly(d)
    for m, c in n.t.items():
        p = 0; ind = {}
        for a, e in m:
            if a.tag == "v" and a.name == var:
                if e.denominator != 1 or e < 0 or e > 6: return None
                p = int(e)
            elif var in a.fv: return None
            else: ind[a] = e
        cf = _FAUL[p]
        power = X(ZERO)
        for k_, ck in enumerate(cf):
            if ck: power = power + X.const(ck) * _xpow(count, Fr(k_))
        tot = tot + X(c, ind) / dx * power
    return tot


def _sum_atom(var, count, body):
    d = body.depth()
    bn = _bname(d)
    if var != bn:
        if bn in body.fv():
            raise Unknown("bound-variable clash")
        body = body.subst({var: X.atom(Atom("v", bn, (), "real"))})
    kind = "real" if body.isreal() else "complex"
    return X.atom(Atom("sum", bn, (count, body), kind))


# --------------------------------------------------------------------------- numeric evaluation
class NumEnv:
    """Deterministic pseudo-random assignment used only for the Schwartz-Zippel style
    double check of a failed identity (never for a positive verdict)."""

    def __init__(s, seed=0, nat=3, heavy=False):
        s.seed = seed; s.nat = nat; s.bound = {}; s.fixed = {}
        s.heavy = heavy        # magnitudes log-uniform over many decades: exercises both sides of clamps (max(x, 1e-12), clip, ...)

    def _u(s, *key):
        h = hashlib.sha256(repr((s.seed,) + key).encode()).digest()
        return int.from_bytes(h[:8], "big") / 2.0 ** 64

    def var(s, a):
        if a.name in s.bound: return s.bound[a.name]
        if a.name in s.fixed: return s.fixed[a.name]
        k = KIND.get(a.name, a.kind)
        if k == "nat": return float(2 + int(s._u("v", a.name) * s.nat))
        if s.heavy:
            mag = 10.0 ** (60 * s._u("h", a.name) - 30)
            if k == "pos": return mag
            if k == "complex":
                import cmath
                return mag * cmath.exp(2j * math.pi * s._u("hp", a.name))
            return mag if s._u("hs", a.name) < 0.5 else -mag
        if k == "pos": return 0.5 + 1.5 * s._u("v", a.name)
        if k == "complex": return complex(2 * s._u("v", a.name) - 1, 2 * s._u("vi", a.name) - 1)
        return 4 * s._u("v", a.name) - 2

    def arr(s, a, idx):
        k = a.kind
        key = tuple(round(float(i.real), 6) for i in idx)
        if a.name in INT_ARRAY_NAMES: return float(int(s._u("a", a.name, key) * 4))
        if k == "complex": return complex(2 * s._u("a", a.name, key) - 1, 2 * s._u("ai", a.name, key) - 1)
        if k == "pos": return 0.5 + s._u("a", a.name, key)
        return 2 * s._u("a", a.name, key) - 1


def evalx(x, env):
    n, d = x.rational()
    dv = _evalpoly(d, env)
    if dv == 0: raise Unknown("numeric: zero denominator")
    return _evalpoly(n, env) / dv


def _evalpoly(p, env):
    tot = 0j
    for m, c in p.t.items():
        t = c.complex()
        for a, e in m:
            v = _evalatom(a, env)
            e = Fr(e)
            if e.denominator == 1: t *= v ** int(e)
            else: t *= complex(v) ** float(e)
        tot += t
    return tot


def _evalatom(a, env):
    if a.tag == "v": return complex(env.var(a))
    if a.tag == "num": return complex(a.name)
    if a.tag == "conj": return _evalatom(a.args[0], env).conjugate()
    if a.tag == "pa": return _evalpoly(a.args[0], env)
    if a.tag == "idx":
        return complex(env.arr(a, [evalx(g, env) for g in a.args]))
    if a.tag == "sum":
        cnt = evalx(a.args[0], env)
        k = int(round(cnt.real))
        if abs(cnt - k) > 1e-9 or k < 0 or k > 64: raise Unknown("numeric: non-integer count")
        old = env.bound.get(a.name)
        tot = 0j
        for i in range(k):
            env.bound[a.name] = float(i); tot += evalx(a.args[1], env)
        if old is None: env.bound.pop(a.name, None)
        else: env.bound[a.name] = old
        return tot
    if a.tag == "fn":
        av = [evalx(g, env) for g in a.args]
        nm = a.name
        for pre, fnc in getattr(env, "fn_override", {}).items():
            if nm.startswith(pre): return complex(fnc(av))
        if nm == "cis": return cmath.exp(1j * av[0])
        if nm == "cos": return cmath.cos(av[0])
        if nm == "sin": return cmath.sin(av[0])
        if nm == "arcsin": return cmath.asin(av[0])
        if nm == "tan": return cmath.tan(av[0])
        if nm == "arctan": return cmath.atan(av[0])
        if nm == "tanh": return cmath.tanh(av[0])
        if nm == "sinh": return cmath.sinh(av[0])
        if nm == "cosh": return cmath.cosh(av[0])
        if nm == "log10": return cmath.log10(av[0])
        if nm == "log": return cmath.log(av[0])
        if nm == "exp": return cmath.exp(av[0])
        if nm == "angle": return complex(cmath.phase(av[0]))
        if nm == "unwrap": return av[0]
        if nm == "abs": return complex(abs(av[0]))
        if nm == "nearest": return complex(math.floor(av[0].real + 0.5))
        if nm == "trunc": return complex(int(av[0].real))
        if nm == "floor": return complex(math.floor(av[0].real))
        if nm == "ceil": return complex(math.ceil(av[0].real))
        if nm == "min": return complex(min(v.real for v in av))
        if nm == "max": return complex(max(v.real for v in av))
        if nm == "pow": return av[0] ** av[1]
        if nm == "mod": return complex(av[0].real % av[1].real) if av[1].real != 0 else 0j
        # unknown function: deterministic smooth surrogate
        h = env._u("fn", nm)
        return sum((i + 1 + h) * v for i, v in enumerate(av)) + h
    raise Unknown("numeric: atom " + a.key)


def numerically_equal(x, y, seeds=(1, 2, 3), prepare=None, tol=1e-8):
    """True/False, or raises Unknown when evaluation is impossible."""
    good = 0; last = None
    # a sample at which a form cannot be evaluated (a denominator that happens to vanish there) is replaced by another one
    for sd in list(seeds) + [seeds[-1] + 100 + k for k in range(12)]:
        env = NumEnv(sd)
        if prepare: prepare(env)
        try:
            a = evalx(x, env); b = evalx(y, env)
        except (Unknown, OverflowError, ZeroDivisionError, ValueError) as ex:
            last = ex; continue
        if a != a or b != b: last = ValueError("nan"); continue
        good += 1
        if abs(a - b) > tol * (1 + abs(a) + abs(b)): return False
        if good >= len(seeds): return True
    if good == 0: raise Unknown(f"numeric: {last}")
    return True


def compare(x, y, prepare=None, seed=0):
    """three-valued comparison: 'HOLDS' | 'VIOLATED' | 'UNKNOWN' (+ detail)."""
    try:
        if x.eq(y): return "HOLDS", ""
    except Unknown as ex:
        return "UNKNOWN", f"normaliser: {ex}"
    try:
        same = numerically_equal(x, y, seeds=(seed + 1, seed + 2, seed + 3), prepare=prepare)
    except (Unknown, OverflowError, ZeroDivisionError, ValueError) as ex:
        return "UNKNOWN", f"normal forms differ and numeric cross-check impossible: {ex}"
    if same:
        # expressions with clamps (min / max against something) are piecewise: sample magnitudes over many decades as well
        names = {a.name for z in (x, y) for a in z.all_atoms() if a.tag == "fn"}
        if names & {"min", "max"}:
            for sd in range(seed + 11, seed + 51):
                env = NumEnv(sd, heavy=True)
                if prepare: prepare(env)
                try:
                    a = evalx(x, env); b = evalx(y, env)
                except (Unknown, OverflowError, ZeroDivisionError, ValueError):
                    continue
                if a != a or b != b or abs(a) == float("inf") or abs(b) == float("inf"): continue
                if abs(a - b) > 1e-8 * (1 + abs(a) + abs(b)):
                    return "VIOLATED", "the two forms differ where a clamp (min/max) is active"
        return "UNKNOWN", "normal forms differ but values agree numerically (normaliser incompleteness)"
    return "VIOLATED", ""
