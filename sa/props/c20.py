"""C20 - derived result quantities and exports are consistent views of one estimate."""
import ast
from ..symalg import X, KIND, mk_fn, Unknown
from ..values import *
from ..absint import Interp, St
from ..table import *
from ..purity import table_purity
from ..report import HOLDS, VIOLATED, UNKNOWN

PROBES = ("__setstate__", "__getstate__", "__deepcopy__", "__copy__", "__reduce_ex__", "__getnewargs_ex__")


def check(ctx):
    repo = ctx.repo
    T = Table(repo); ref = reference()
    ctx.analysed(GETATTR)
    names = []
    for nm in dir_names(repo) + tested_names(repo):
        if nm not in names: names.append(nm)
    ctx.need("attribute names handled by SpectrumResult.__getattr__", len(names), 44)
    for iscsd in (False, True):
        for nm in names:
            check_cell(ctx, T, nm, iscsd, ref, "R1-documented-function")
    # raw fields pass through unchanged
    for key in ("f", "L", "K", "navg", "XX", "XY"):
        for iscsd in (False, True):
            v = T.cell(key, iscsd)
            c = f"{GETATTR}[{key}|{'cross' if iscsd else 'auto'}]"
            if isinstance(v, X) and v.eq(X.var(key)): ctx.holds("R1-documented-function", c, "raw field returned as stored")
            else: ctx.ob("R1-documented-function", c, UNKNOWN if is_opaque(v) else VIOLATED, f"raw field {key} is not returned as stored: {v!r}"[:200])
    _interp(ctx)
    _reconstruction(ctx)
    _export_rank(ctx)
    from ..dispatch import check_result_fields_aligned
    check_result_fields_aligned(ctx, rule="R6-result-fields-aligned")
    _export_columns(ctx)
    # a memoised view must be keyed by everything that selects it (a cache slot shared by several views makes the value depend on access order)
    from ..dispatch import check_cache_keys
    check_cache_keys(ctx, rule="R5-cache-key", about=("other",))
    table_purity(ctx)
    ctx.trust("E4 partial evaluation of __getattr__", "L12 np.interp", "L13 copy/pickle protocol on a blank instance", "L14 rank of np.array(list, dtype=object)")
    ctx.assume("exact arithmetic; generic branch of guarded quotients")
    return ("All 44 attribute names x 2 modes (88 cells) are partially evaluated and compared with the documented functions (Appendix A.1), "
            "including the None matrix; get_measurement is interpreted for real and complex targets (component-wise np.interp over self.f); "
            "__getattr__ is evaluated on a blank instance for the names copy/pickle probe and for the instance attributes it reads itself "
            "(must raise AttributeError before touching self); the constructors of the ragged field D are ranked (L14); in-place effects on cached "
            "values are excluded by the alias analysis. Declined: value equality after an actual pickle round trip (runtime).")


def _interp(ctx):
    key = CLS + ".get_measurement"
    fn = ctx.repo.get(key); ctx.analysed(key)
    where = ctx.repo.where(key, fn)
    KIND.update({"q": "real", "j": "nat", "nfb": "nat"})
    from ..symalg import ARRAY_KIND, mk_idx, I_
    ARRAY_KIND["fgrid"] = "real"
    for is_complex, n in [(c_, n_) for n_ in (X.var("nfb"), X.const(1)) for c_ in (True, False)]:
        I = Interp(ctx.repo)
        single = n.as_int() == 1
        # generic grid: more than one bin (the single-bin result is its own instance)
        I.hooks["decide"] = lambda cond: (False if getattr(cond, "eq", None) is not None and any("nfb" in e.fv() for e in cond.eq[1:] if isinstance(e, X)) and not any("q" in e.fv() for e in cond.eq[1:] if isinstance(e, X)) else None)
        tname = "Tc" if is_complex else "Tr"
        ARRAY_KIND[tname] = "complex" if is_complex else "real"
        tgt = ArrParam(tname, kind="complex" if is_complex else "real", shape=(n,))
        fgrid = ArrParam("fgrid", shape=(n,))

        def lib(I_x, name, args, kw, st, node, is_complex=is_complex):
            if name == "numpy.iscomplexobj": return is_complex
            if name == "numpy.interp":
                pos = list(args)
                if len(pos) < 3: return Opaque("np.interp arguments")
                if kw.get("period", pos[5] if len(pos) > 5 else None) is not None: return Mismatch("np.interp(period=...) wraps the abscissa instead of clamping")
                x, xp, fp = pos[:3]
                XP, FP = as_arr(xp), as_arr(fp)
                if to_x(x) is None or XP is None or FP is None or XP.ndim != 1 or FP.ndim != 1: return Opaque("np.interp arguments")
                if not XP.axes[0][1].eq(FP.axes[0][1]): return Mismatch("np.interp: abscissa and ordinate arrays of different length")
                # L12: without left/right np.interp clamps to fp[0] / fp[-1]; an explicit boundary value must be that very sample
                for side, v, ix in (("left", kw.get("left", pos[3] if len(pos) > 3 else None), X.const(0)),
                                    ("right", kw.get("right", pos[4] if len(pos) > 4 else None), FP.axes[0][1] - 1)):
                    if v is None: continue
                    vx = to_x(v)
                    own = to_x(arr_index(FP, ix))
                    if vx is None or own is None: return Opaque(f"np.interp {side}= value not recognised")
                    if not vx.eq(own):
                        return Mismatch(f"np.interp(..., {side}={vx!r}): outside the grid the value is not clamped to the interpolated array's own {'first' if side == 'left' else 'last'} sample ({own!r})")
                if XP.axes[0][1].as_int() == 1:
                    # a one-point table: np.interp returns fp[0] at every abscissa
                    v0 = to_x(arr_index(FP, X.const(0)))
                    return lift1(lambda _q: v0, x) if isinstance(x, (Arr, ArrParam)) else v0
                j = X.var("j")
                return mk_fn("interp", [to_x(x), to_x(arr_index(XP, j)), to_x(arr_index(FP, j))], "real")
            if name == "numpy.isscalar": return Opaque("isscalar")
            if name in ("numpy.full_like",) and len(args) >= 2:
                # the result takes the dtype of the template: a complex fill value is cast to the (real) template's type
                tmpl, v = args[0], to_x(args[1])
                if v is None: return Opaque("np.full_like fill value")
                dt = kw.get("dtype")
                keep = dt is not None and "complex" in repr(dt)
                if dt is not None and not keep and not is_opaque(dt) and "float" not in repr(dt): return Opaque("np.full_like dtype")
                vv = v if (keep or v.isreal()) else v.real()
                return lift1(lambda _q: vv, tmpl) if isinstance(tmpl, (Arr, ArrParam)) else vv
            return NotImplemented
        I.hooks["lib"] = lib
        me = Obj(CLS)

        def hook(kind, o, attr, v, st, tgt=tgt, fgrid=fgrid, n=n):
            if kind == "getattr":
                if attr == "f": return fgrid
                if attr == "nf": return n
                return tgt
            return NotImplemented
        me.hook = hook
        st = St()
        r = I.call_func(Func(key, fn), [me, X.var("q"), "anything"], {}, st, None)
        c = f"{key}[{'complex' if is_complex else 'real'} quantity{', single-bin result' if single else ''}]"
        q = X.var("q"); j = X.var("j")
        fj = mk_idx("fgrid", [j], "real"); tj = mk_idx(tname, [j], "complex" if is_complex else "real")
        if single:
            want = mk_idx(tname, [X.const(0)], "complex" if is_complex else "real")         # the one tabulated value, at every frequency
        elif is_complex:
            want = mk_fn("interp", [q, fj, tj.real()], "real") + X(I_) * mk_fn("interp", [q, fj, tj.imag()], "real")
        else:
            want = mk_fn("interp", [q, fj, tj], "real")
        bad = next((l for _, l in pv_leaves(r) if isinstance(l, Mismatch)), None)
        if bad is not None:
            ctx.violated("R2-interpolation", c, bad.why, where); continue
        if is_opaque(r) or isinstance(r, PV) or to_x(r) is None:
            ctx.ob("R2-interpolation", c, UNKNOWN, f"result not recognised: {r!r}"[:200], where); continue
        ctx.compare("R2-interpolation", c, to_x(r), want, where,
                    detail="np.interp over the result's own frequency grid, clamped to the array's own end samples" + (", real and imaginary parts separately" if is_complex else ""))


def _state_protocol(ctx, cls, defined, where):
    """a class that customises copy/pickle must carry over every instance attribute that __init__ establishes."""
    custom = [m for m in ("__getstate__", "__setstate__", "__reduce__", "__reduce_ex__", "__copy__", "__deepcopy__") if m in defined]
    rule = "R3-state-survives-copy"
    if not custom:
        ctx.holds(rule, CLS, "default protocol: copy/deepcopy/pickle carry the whole instance __dict__", where); return
    init = ctx.repo.get(CLS + ".__init__")
    me = init.args.args[0].arg
    inst = {n.attr for n in ast.walk(init) if isinstance(n, ast.Attribute) and isinstance(n.value, ast.Name) and n.value.id == me and isinstance(n.ctx, ast.Store)}
    if any(m in defined for m in ("__reduce__", "__reduce_ex__", "__copy__", "__deepcopy__")):
        ctx.unknown(rule, CLS, f"custom {', '.join(custom)}: reconstruction path not modelled", where); return
    methods = {n.name: n for n in cls.body if isinstance(n, ast.FunctionDef)}

    def shipped():
        g = methods.get("__getstate__")
        if g is None: return set(inst), True
        gs = g.args.args[0].arg
        rets = [n.value for n in ast.walk(g) if isinstance(n, ast.Return) and n.value is not None]
        if len(rets) != 1: return None, False
        r = rets[0]
        if isinstance(r, ast.Dict) and all(isinstance(k, ast.Constant) and isinstance(k.value, str) for k in r.keys):
            return {k.value for k in r.keys}, False          # keys are the author's own names: only meaningful to a matching __setstate__
        if isinstance(r, ast.Name):
            # state = self.__dict__.copy() / dict(self.__dict__) followed by deletions
            src = [a for a in ast.walk(g) if isinstance(a, ast.Assign) and isinstance(a.targets[0], ast.Name) and a.targets[0].id == r.id]
            if len(src) == 1 and f"{gs}.__dict__" in ast.unparse(src[0].value):
                removed = set()
                for n in ast.walk(g):
                    if isinstance(n, ast.Delete):
                        for t in n.targets:
                            if isinstance(t, ast.Subscript) and isinstance(t.value, ast.Name) and t.value.id == r.id and isinstance(t.slice, ast.Constant): removed.add(t.slice.value)
                    if isinstance(n, ast.Call) and isinstance(n.func, ast.Attribute) and n.func.attr == "pop" and isinstance(n.func.value, ast.Name) and n.func.value.id == r.id and n.args and isinstance(n.args[0], ast.Constant):
                        removed.add(n.args[0].value)
                return set(inst) - removed, True
        return None, False
    ship, by_attr_name = shipped()
    sset = methods.get("__setstate__")
    if ship is None:
        ctx.unknown(rule, CLS, "__getstate__ not recognised", where); return
    if sset is None:
        restored = set(ship) if by_attr_name else {k for k in ship if k in inst}
    else:
        ss = sset.args.args[0].arg
        restored = {n.attr for n in ast.walk(sset) if isinstance(n, ast.Attribute) and isinstance(n.value, ast.Name) and n.value.id == ss and isinstance(n.ctx, ast.Store)}
        for n in ast.walk(sset):
            # self.__dict__["name"] = ... / setattr(self, "name", ...) / object.__setattr__(self, "name", ...)
            if isinstance(n, ast.Subscript) and isinstance(n.ctx, ast.Store) and isinstance(n.slice, ast.Constant) and isinstance(n.slice.value, str) and ast.unparse(n.value) == f"{ss}.__dict__":
                restored.add(n.slice.value)
            if isinstance(n, ast.Call) and ast.unparse(n.func) in ("setattr", "object.__setattr__") and len(n.args) >= 3 and isinstance(n.args[0], ast.Name) and n.args[0].id == ss and isinstance(n.args[1], ast.Constant):
                restored.add(n.args[1].value)
        txt = ast.unparse(sset)
        if f"{ss}.__dict__.update(" in txt or f"{ss}.__dict__ = " in txt:
            restored |= (set(ship) if by_attr_name else {k for k in ship if k in inst})
    missing = sorted(inst - restored)
    if missing:
        ctx.violated(rule, CLS, f"copy / deepcopy / pickle rebuild the result through {', '.join(custom)}, which do not restore the instance attribute(s) {missing} set by __init__: "
                     "a clone is not the original (reads fall through to __getattr__ or raise AttributeError)", f"speckit/analysis.py:{(sset or methods['__getstate__']).lineno}")
    else:
        ctx.holds(rule, CLS, f"custom state protocol restores all {len(inst)} instance attributes", where)


def _reconstruction(ctx):
    cls = ctx.repo.get(CLS)
    fn = ctx.repo.get(GETATTR)
    where = ctx.repo.where(GETATTR, fn)
    defined = {n.name for n in cls.body if isinstance(n, ast.FunctionDef)}
    _state_protocol(ctx, cls, defined, where)
    selfname = fn.args.args[0].arg
    reads = []
    for n in ast.walk(fn):
        if isinstance(n, ast.Attribute) and isinstance(n.value, ast.Name) and n.value.id == selfname and isinstance(n.ctx, ast.Load):
            if n.attr not in reads: reads.append(n.attr)
    # instance attributes (set in __init__) that __getattr__ itself relies on
    init = ctx.repo.get(CLS + ".__init__")
    inst = set()
    for n in ast.walk(init):
        if isinstance(n, ast.Attribute) and isinstance(n.value, ast.Name) and n.value.id == init.args.args[0].arg and isinstance(n.ctx, ast.Store):
            inst.add(n.attr)
    ctx.need("instance attributes read by __getattr__", len([a for a in reads if a in inst]), 1)
    memo = {}

    def first_touch(name):
        """('raise', exc) | ('touch', attr) | ('return', repr) for __getattr__(name) on a blank instance."""
        if name in memo: return memo[name]
        I = Interp(ctx.repo)
        touched = []
        me = Obj(CLS)

        def hook(kind, o, attr, v, st):
            if kind == "getattr":
                touched.append(attr)
                return Opaque(f"attribute {attr} of a blank instance")
            return NotImplemented
        me.hook = hook
        fst = St(); fst.mod = "speckit/analysis.py"; fst.fn_key = GETATTR
        fst.env.update({fn.args.args[0].arg: me, fn.args.args[1].arg: name})
        raised = []

        def stmt_hook(I_, n, st):
            if isinstance(n, ast.Raise):
                exc = n.exc
                nm = ast.unparse(exc.func if isinstance(exc, ast.Call) else exc) if exc is not None else ""
                raised.append((nm, len(touched)))
            return NotImplemented
        I.hooks["stmt"] = stmt_hook
        try:
            r = I.exec_block(fn.body, fst)
        except Unknown as ex:
            memo[name] = ("unknown", str(ex)); return memo[name]
        if raised and raised[0][1] == 0 and r and r[0] == "raise": memo[name] = ("raise", raised[0][0])
        elif touched: memo[name] = ("touch", touched[0])
        elif r and r[0] == "raise": memo[name] = ("raise", raised[0][0] if raised else "?")
        else: memo[name] = ("return", repr(r)[:80])
        return memo[name]

    for p_ in [p for p in PROBES if p not in defined]:
        chain = [p_]
        verdict = None
        while verdict is None:
            kind, what = first_touch(chain[-1])
            if kind == "raise":
                verdict = (HOLDS, f"lookup chain {' -> '.join(chain)} ends in {what}") if what == "AttributeError" else \
                          (VIOLATED, f"lookup chain {' -> '.join(chain)} raises {what}, not AttributeError (hasattr/getattr(..., None) probes propagate it)")
            elif kind == "touch":
                if what in chain:
                    verdict = (VIOLATED, f"on an instance without attributes (as created by copy / deepcopy / pickle.loads) the probe for {p_!r} reads "
                               f"self.{what}, which re-enters __getattr__({what!r}) and reads self.{what} again: unbounded recursion "
                               f"(chain {' -> '.join(chain + [what])})")
                else: chain.append(what)
            elif kind == "return":
                verdict = (VIOLATED, f"probe for {p_!r} on a blank instance returns {what} instead of raising AttributeError")
            else:
                verdict = (UNKNOWN, what)
            if len(chain) > 12: verdict = (UNKNOWN, "lookup chain too long")
        ctx.ob("R3-reconstruction-safety", f"{GETATTR}[name={p_}]", verdict[0], verdict[1], where)


def _rank_of(repo, rel, e, depth=0):
    """abstract rank of an expression building the ragged field: 1, 'top' (1 or 2 by L14), or None (unknown)."""
    if isinstance(e, ast.Call):
        name = ast.unparse(e.func)
        short = name.split(".")[-1]
        kw = {k.arg: k.value for k in e.keywords if k.arg}
        if short in ("array", "asarray", "asanyarray") and isinstance(kw.get("dtype"), ast.Name) and kw["dtype"].id == "object":
            return "top"
        if short in ("array", "asarray", "asanyarray") and "dtype" in kw and ast.unparse(kw["dtype"]) in ("object", "np.object_", "'O'", "'object'"):
            return "top"
        k = f"{rel}::{short}"
        if repo.has(k) and depth < 3:
            fn = repo.get(k)
            ranks = set()
            binds = {}
            for n in ast.walk(fn):
                if isinstance(n, ast.Assign) and len(n.targets) == 1 and isinstance(n.targets[0], ast.Name):
                    binds.setdefault(n.targets[0].id, []).append(n.value)
            for n in ast.walk(fn):
                if isinstance(n, ast.Return) and n.value is not None:
                    v = n.value
                    if isinstance(v, ast.Name) and v.id in binds:
                        for b in binds[v.id]: ranks.add(_rank_of(repo, rel, b, depth + 1))
                    else: ranks.add(_rank_of(repo, rel, v, depth + 1))
            if ranks == {1}: return 1
            if "top" in ranks: return "top"
            return None
        if short in ("empty", "zeros") and e.args:
            a = e.args[0]
            if isinstance(a, ast.Tuple): return len(a.elts) if len(a.elts) != 1 else 1
            return 1
    return None


def _export_columns(ctx, rule="R4-export-columns"):
    """to_dataframe is interpreted on a result whose dir() lists per-bin arrays (length nf), quantities that do not apply (None), scalars and methods:
    the frame must be built from 'f' plus every per-bin array, unchanged - for a generic nf, for a single-bin result (nf = 1) and for nf = 2."""
    from ..absint import Interp, St
    from ..values import Obj, ArrParam, ListVal, DictVal, BoundMethod, PV, is_opaque
    repo = ctx.repo
    key = CLS + ".to_dataframe"; fn = repo.get(key); where = repo.where(key, fn); ctx.analysed(key)
    dyn = [n_ for n_ in dir_names(repo)]
    ctx.need("per-bin attribute names advertised by __dir__", len(dyn), 30)
    perbin = ["f", "L", "K", "navg", "D"] + dyn
    none = dyn[-3:]                                       # three of them stand for quantities that do not apply to the analysis type
    perbin = [n_ for n_ in perbin if n_ not in none]
    methods = ["plot", "to_dataframe", "get_rms", "get_measurement"]
    for n, label in ((X.var("nf"), "generic nf"), (X.const(1), "single-bin result"), (X.const(2), "nf=2")):
        I = Interp(repo)
        vals = {nm: ArrParam("col_" + nm, shape=(n,)) for nm in perbin}
        vals.update({nm: None for nm in none}); vals.update({"iscsd": True, "fs": X.var("fs"), "nf": n, "_data": DictVal({})})
        me = Obj(CLS)

        def hook(kind, o, k_, v, st, vals=vals):
            if kind == "getattr":
                if k_ in vals: return vals[k_]
                if k_ in methods: return BoundMethod(o, k_)
            return NotImplemented
        me.hook = hook
        made = []

        def lib(I_, name, args, kw, st, nd, made=made, vals=vals):
            if name == "builtins.dir": return ListVal(sorted(list(vals) + methods))
            if name == "pandas.DataFrame":
                made.append(args[0] if args else kw.get("data")); return Obj("frame")
            return NotImplemented
        I.hooks["lib"] = lib
        c = f"{key}[{label}]"
        try: I.call_key(key, [me], {}, St())
        except Unknown as ex:
            ctx.unknown(rule, c, str(ex), where); continue
        if len(made) != 1 or not isinstance(made[0], DictVal):
            ctx.unknown(rule, c, f"DataFrame construction not recognised: {made!r}"[:200], where); continue
        d = made[0].d
        if made[0].open:
            ctx.unknown(rule, c, "the dictionary handed to DataFrame is filled in a way the interpreter does not follow (its key set is open)", where); continue
        missing = [nm for nm in perbin if nm not in d or repr(d[nm]) == "<missing>"]
        cond = [nm for nm in perbin if nm in d and isinstance(d[nm], PV)]
        changed = [nm for nm in perbin if nm in d and not isinstance(d[nm], PV) and not (isinstance(d[nm], ArrParam) and d[nm].name == "col_" + nm)]
        extra = [k_ for k_ in d if k_ not in perbin]
        if missing:
            ctx.violated(rule, c, f"{len(missing)} per-bin arrays are not exported ({', '.join(missing[:6])}...): the frame of a {label} lacks columns the result has", where)
        elif changed and all(is_opaque(d[nm]) for nm in changed):
            ctx.unknown(rule, c, f"column {changed[0]} receives {d[changed[0]]!r}"[:200], where)
        elif changed:
            ctx.violated(rule, c, f"column {changed[0]} is exported as {d[changed[0]]!r}, not as the per-bin array itself"[:300], where)
        elif extra:
            ctx.violated(rule, c, f"columns {extra[:5]} are exported although they are not per-bin arrays", where)
        elif cond:
            ctx.unknown(rule, c, f"column {cond[0]} is exported only under an undecided condition: {d[cond[0]]!r}"[:300], where)
        else:
            ctx.holds(rule, c, f"'f' and all {len(perbin) - 1} per-bin arrays are exported unchanged; None, scalars and methods are skipped", where)


def _export_rank(ctx):
    rel = "speckit/analysis.py"
    init = ctx.repo.get(CLS + ".__init__"); ctx.analysed(CLS + ".__init__", CLS + ".to_dataframe")
    sites = []

    def visit(stmts, under_D):
        for st in stmts:
            if isinstance(st, ast.If):
                t = ast.unparse(st.test)
                is_d = ("== 'D'" in t or '== "D"' in t or "'D' in" in t or '"D" in' in t)
                visit(st.body, under_D or is_d); visit(st.orelse, under_D)
            elif isinstance(st, (ast.For, ast.While, ast.With, ast.Try)):
                visit(st.body, under_D)
                if hasattr(st, "orelse"): visit(st.orelse, under_D)
            elif isinstance(st, ast.Assign):
                for tg in st.targets:
                    if isinstance(tg, ast.Subscript) and ast.unparse(tg.value) == "self._data":
                        k = tg.slice
                        if (isinstance(k, ast.Constant) and k.value == "D") or (under_D and isinstance(k, ast.Name)):
                            sites.append(st)
    visit(init.body, False)
    ctx.need("constructors of the ragged field D in SpectrumResult.__init__", len(sites), 1)
    for st in sites:
        rk = _rank_of(ctx.repo, rel, st.value)
        c = f"{CLS}.__init__[{' '.join(ast.unparse(st).split())[:70]}]"
        where = f"{rel}:{st.lineno}"
        if rk == 1: ctx.holds("R4-export-rank", c, "per-bin start arrays stored as a 1-D object array", where)
        elif rk == "top":
            ctx.violated("R4-export-rank", c, "np.array(list_of_arrays, dtype=object) is 2-D whenever all bins have the same number of segments "
                         "(always for a single-bin result): to_dataframe() then raises 'Per-column arrays must each be 1-dimensional'", where)
        else: ctx.unknown("R4-export-rank", c, "constructor of D not recognised", where)
    # the export filter must keep requiring a first axis of length nf
    tdf = ctx.repo.get(CLS + ".to_dataframe")
    src = ast.unparse(tdf)
    if "isinstance(val, np.ndarray)" in " ".join(src.split()) or "ndarray" in src:
        ctx.holds("R4-export-rank", CLS + ".to_dataframe", "export admits ndarray values whose first axis has length nf", ctx.repo.where(CLS, tdf))
