"""C08 - segment detrending removes polynomial trends and nothing else."""
from ..kernels import KernelEval, check_kernel, FAMILIES, MODES, BACKENDS
from ..qbasis import check_build_Q
from ..dispatch import check_dispatch, check_cache_keys


def check(ctx):
    KE = KernelEval(ctx.repo)
    for backend in BACKENDS:
        for fam in FAMILIES:
            for mode in MODES:
                check_kernel(ctx, KE, fam, mode, backend, outputs=("MXX", "MYY", "mu_r", "mu_i"), rule="R1-trend-form")
    check_build_Q(ctx)
    # detrending acts on a copy: a kernel that de-means a view of the record in place changes what every later bin sees
    from ..kernels import check_inputs_untouched
    check_inputs_untouched(ctx, rule="R4-record-untouched")
    check_dispatch(ctx, rule_prefix="R2.", want_roles=True, kaisers=(True,), roles=("x1", "x2", "starts", "L", "Q"))
    check_cache_keys(ctx, rule="R3-cache-key", about=("basis",))
    ctx.trust("L7: x - Q Q^T x annihilates span Q; reduced QR keeps span Q = span V", "L1/L2", "E5 kernel summaries")
    ctx.assume("exact arithmetic")
    return ("Every kernel's streamed sample is compared (through the statistics it produces) with (x_c[s+n]-T_c(n))w[n], T_c in {0, segment mean, "
            "Q Q^T x_c} built from channel c's own samples over exactly L samples; _build_Q's Vandermonde columns are t^0..t^order of one "
            "linspace(-1,1,L) and Q is the reduced-QR factor; order -> family dispatch (-1 win_only, 0 detrend0, 1|2 poly with _build_Q(L, order)) "
            "for both dispatchers and all backends; memoised bases are keyed by (L, order). By L7 a degree<=p trend is annihilated and degree p+1 is not. "
            "Declined: 'up to rounding relative to the size of the trend'.")
