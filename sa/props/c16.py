"""C16 - fractional time shifting is exact Lagrange interpolation (narrow: structural clauses + small orders)."""
import ast
from fractions import Fraction as Fr
from ..symalg import X, KIND, ARRAY_KIND, mk_idx, mk_fn, mk_sum, compare, Unknown
from ..values import *
from ..absint import Interp, St
from ..effects import Effects
from ..dspchk import check_df_wrapper, DSP
from ..report import HOLDS, VIOLATED, UNKNOWN
from .. import libmodel as lm


def textbook_taps(halfp, d):
    """Lagrange weights of the nodes x_m = m-(halfp-1), m = 0..2*halfp-1, evaluated at x = d."""
    nodes = [m - (halfp - 1) for m in range(2 * halfp)]
    out = []
    for k, xk in enumerate(nodes):
        w = X.const(1)
        for m, xm in enumerate(nodes):
            if m != k: w = w * (d - xm) / X.const(xk - xm)
        out.append(w)
    return out


def check(ctx):
    repo = ctx.repo
    KIND.update({"d": "real", "fs": "pos", "seconds": "real"})
    # ---- R1 taps = textbook Lagrange weights (partial evaluation for small concrete orders), sum to one
    key = f"{DSP}::lagrange_taps"; fn = repo.get(key); where = repo.where(key, fn); ctx.analysed(key)
    d = X.var("d")
    for halfp in ((1, 2, 3, 4, 5, 6, 7, 8) if ctx.tier == 'thorough' else (1, 2, 3, 4)):
        I = Interp(repo)
        try:
            r = I.call_key(key, [Arr([("q", X.const(1))], d), X.const(halfp)], {}, St())
        except Unknown as ex:
            ctx.unknown("R1-lagrange-weights", f"{key}[order={2 * halfp - 1}]", str(ex), where); continue
        A = as_arr(r) if not is_opaque(r) else None
        c = f"{key}[order={2 * halfp - 1}]"
        if A is None or A.ndim != 2:
            ctx.unknown("R1-lagrange-weights", c, f"taps not recognised: {r!r}"[:160], where); continue
        (qv, qc), (kv, kc) = A.axes
        if kc.as_int() != 2 * halfp:
            ctx.violated("R1-lagrange-weights", c, f"{kc!r} taps for order {2 * halfp - 1}, expected {2 * halfp}", where); continue
        want = textbook_taps(halfp, d)
        tot = X.const(0); bad = None
        for k in range(2 * halfp):
            g = subst_val(A.body, {kv: X.const(k), qv: X.const(0)})
            gx = to_x(g) if not isinstance(g, PV) and not is_opaque(g) else None
            if gx is None: bad = (k, UNKNOWN, g, want[k]); break
            st_, why = compare(gx, want[k])
            if st_ != HOLDS: bad = (k, st_, gx, want[k]); break
            tot = tot + gx
        if bad:
            ctx.ob("R1-lagrange-weights", c, bad[1], f"tap {bad[0]} is not the Lagrange weight of node {bad[0] - (halfp - 1)} for a fractional shift d", where, lhs=bad[2], rhs=bad[3])
        else:
            ctx.holds("R1-lagrange-weights", c, f"all {2 * halfp} taps equal prod_(m!=k)(d-x_m)/(x_k-x_m)", where)
            ctx.compare("R1-lagrange-weights", c + "[sum]", tot, X.const(1), where, detail="taps sum to one")
    # ---- R2 stencil alignment of both code paths, on instances
    _stencils(ctx)
    # ---- R3 DataFrame wrapper
    check_df_wrapper(ctx, "df_timeshift", "timeshift", "R3-dataframe-wrapper", extra_args=(X.var("fs"), X.var("seconds")), shift=True)
    # ---- R4 the caller's arrays are not written; weights stay double precision
    E = Effects(repo)
    k2 = f"{DSP}::timeshift"; f2 = repo.get(k2); ctx.analysed(k2)
    sm = E.summary(k2)
    if sm["writes_param"]:
        p = sm["params"][sorted(sm["writes_param"])[0]]
        sk = sm["sinks"][sorted(sm["writes_param"])[0]][0]
        ctx.violated("R4-arguments-untouched", k2, f"timeshift modifies its argument '{p}' in place ({sk.kind}: {sk.detail}): np.asarray does not copy an ndarray, so the caller's array changes "
                     "and a second call with the same array gives a different result", f"{DSP}:{getattr(sk.node, 'lineno', 0)}")
    else:
        ctx.holds("R4-arguments-untouched", k2, "no in-place effect reaches data or shifts", repo.where(k2, f2))
    for c in ast.walk(f2):
        if isinstance(c, ast.Call) and isinstance(c.func, ast.Attribute) and c.func.attr == "astype" and c.args and ".dtype" in ast.unparse(c.args[0]):
            ctx.violated("R4-weights-double-precision", f"{k2}[{' '.join(ast.unparse(c).split())[:60]}]", "interpolation weights / data are cast to another array's dtype: for an integer "
                         "record the fractional taps truncate to 0", f"{DSP}:{c.lineno}")
    ctx.holds("R4-weights-double-precision", k2, "no data-dependent dtype cast", repo.where(k2, f2))
    # ---- R5 no module-level memo of argument-derived values (taps remembered by the identity of the shifts array)
    from ..effects import check_no_global_memo
    check_no_global_memo(ctx, rule="R5-no-global-memo", files=(DSP,), floor=15)
    ctx.trust("uniqueness of the interpolating polynomial (Lagrange form)", "np.correlate(a, v, 'valid')[n] = sum_k a[n+k] v[k]", "np.pad / sliding_window_view / einsum rows of Appendix B")
    ctx.assume("exact arithmetic", "closed-form taps are decided by partial evaluation for orders 1,3,5,7 only; orders 9..111 are not decided",
               "stencil origins are decided on concrete instances (n=24; shifts 2.25, -3.5, 0.75; orders 1,3,5; interior samples)")
    return ("lagrange_taps is partially evaluated for orders 1,3,5,7: every tap equals the textbook Lagrange weight as a polynomial in d and the taps sum to 1. Both code paths of "
            "timeshift are interpreted on instances: tap k meets data[n + floor(s) - (halfp-1) + k] for interior n in the constant-shift (pad + correlate) and the "
            "time-varying (pad + sliding window + einsum) path. df_timeshift shifts the selected numeric columns by seconds*fs on a copy. timeshift never writes its arguments.")


def _stencils(ctx):
    repo = ctx.repo
    key = f"{DSP}::timeshift"; fn = repo.get(key); where = repo.where(key, fn)
    thorough = ctx.tier == "thorough"
    n = 32 if thorough else 24
    ARRAY_KIND["dat"] = "complex"; ARRAY_KIND["tap"] = "real"        # records may be complex: the interpolant is linear, never conjugating
    # block sizes: a module-level integer constant used as the step of a range() in timeshift partitions the record; every instance is
    # also run with such a constant made small (7), so that several blocks occur within the instance length
    steps = []
    mod = repo.module(DSP)
    consts = {t.id for st_ in mod.body if isinstance(st_, ast.Assign) for t in st_.targets if isinstance(t, ast.Name)}
    for nd in ast.walk(fn):
        if isinstance(nd, ast.Call) and isinstance(nd.func, ast.Name) and nd.func.id == "range" and len(nd.args) == 3 and isinstance(nd.args[2], ast.Name) and nd.args[2].id in consts:
            if nd.args[2].id not in steps: steps.append(nd.args[2].id)
    blockings = [None] + [(nm, 7) for nm in steps]
    # record-length thresholds: an integer (literal or module-level constant) that timeshift compares something with selects a code path by
    # size; every such threshold adds an instance whose record is just longer than it, so that both sides of the comparison are interpreted
    modconst = {}
    for st_ in mod.body:
        if isinstance(st_, ast.Assign) and len(st_.targets) == 1 and isinstance(st_.targets[0], ast.Name):
            try: v_ = eval(compile(ast.Expression(st_.value), "<const>", "eval"), {"__builtins__": {}}, {})
            except Exception: continue
            if isinstance(v_, int) and not isinstance(v_, bool): modconst[st_.targets[0].id] = v_
    sizes = [n]
    for nd in ast.walk(fn):
        if not isinstance(nd, ast.Compare): continue
        for e_ in [nd.left] + list(nd.comparators):
            v_ = e_.value if isinstance(e_, ast.Constant) and isinstance(e_.value, int) and not isinstance(e_.value, bool) else modconst.get(e_.id) if isinstance(e_, ast.Name) else None
            if v_ is not None and v_ > n - 8 and v_ + 9 not in sizes and v_ not in [b_[1] for b_ in blockings if b_] and (e_.id if isinstance(e_, ast.Name) else None) not in steps:
                sizes.append(v_ + 9)
    ctx.note(f"record lengths of the stencil instances: {sizes} (thresholds taken from the comparisons in timeshift)") if hasattr(ctx, "note") else None
    combos = [(h_, b_, n) for h_ in ((1, 2, 3, 4) if thorough else (1, 2, 3)) for b_ in blockings] + [(h_, None, n_) for n_ in sizes[1:] for h_ in ((1, 2, 3) if thorough else (2,))]
    # a large shift with a small fractional part in a record long enough to hold it: relative tolerances (np.isclose / allclose defaults) grow with
    # the magnitude of the shift, so "is this shift a whole number of samples" must not be decided by them
    BIG = (Fr(2500) + Fr(1, 50), 2600)
    combos = combos + [(2, None, BIG[1])]
    for halfp, blocking, n in combos:
        shifts_ = ((Fr(9, 4), Fr(-7, 2), Fr(3, 4), Fr(-1, 8), Fr(5), Fr(16, 3), Fr(0), Fr(1), Fr(-2)) if thorough else (Fr(9, 4), Fr(-7, 2), Fr(3, 4)))
        # whole-sample shifts (pure displacement, zero = identity) with the cubic stencil
        if halfp == 2 and blocking is None and n == sizes[0] and not thorough: shifts_ = shifts_ + (Fr(0), Fr(1), Fr(-2))
        if n == BIG[1]: shifts_ = (BIG[0],)
        for shift in shifts_:
            for path in ("constant", "varying", "drifting"):
                I = Interp(repo)
                seen = []

                def call(I_, f, args, kwargs, st, node, seen=seen):
                    if f.key == f"{DSP}::lagrange_taps":
                        fr = args[0]; hp = to_x(args[1])
                        seen.append((fr, hp))
                        F = as_arr(fr) if isinstance(fr, (Arr, ArrParam, LocalArr)) else None
                        rv, kv = fresh("r"), fresh("k")
                        # row r holds the weights for the fraction of row r: tapw(fraction, k)
                        if F is not None and F.ndim == 1:
                            rows = F.axes[0][1]; fb = subst_val(F.body, {F.axes[0][0]: X.var(rv)})
                        else:
                            rows = X.const(1); fb = fr if F is None else F.body
                        def tap(d_):
                            if d_.iszero():
                                # a zero fractional delay: the Lagrange weights are the unit sample at the centre-left node (checked by R1 at d = 0)
                                c_ = lm._cond_eq(X.var(kv), hp - 1, f"{kv}=={hp - 1!r}")
                                return mk_pv(c_, X.const(1), X.const(0)) if not isinstance(c_, bool) else (X.const(1) if c_ else X.const(0))
                            return mk_fn("tapw", [d_, X.var(kv)])
                        return Arr([(rv, rows), (kv, X.const(2) * hp)], lift1(tap, fb))
                    return NotImplemented
                I.hooks["call"] = call
                # generic instance: unmodelled tests and "all/any elements equal ..." tests are false; tolerance tests (np.allclose) are left
                # undecided - both outcomes are interpreted, and a tolerance test establishes no equality
                I.hooks["decide"] = lambda cond: (False if cond.key[0] in ("src", "all", "any") else None)
                if path == "drifting":
                    base_lib = I.hooks.get("lib")

                    def lib(I_, name, args_, kw_, st_, n_, base_lib=base_lib):
                        if name in ("numpy.floor", "math.floor") and args_:
                            def fl(x):
                                for a_ in x.atoms():
                                    if a_.tag == "idx" and a_.name == "dfr":
                                        y = x - X.atom(a_)
                                        if y.as_int() is not None: return X.const(y.as_int())
                                raise Unknown("floor of a symbolic value")
                            return lift1(fl, args_[0])
                        return base_lib(I_, name, args_, kw_, st_, n_) if base_lib else NotImplemented
                    I.hooks["lib"] = lib
                if blocking: I.module_globals(DSP)[blocking[0]] = X.const(blocking[1])
                data = ArrParam("dat", kind="complex", shape=(X.const(n),))
                import math
                si = math.floor(shift)
                iv_ = fresh("i")
                # 'drifting': every sample has its own fractional part dfr[i] in [0, 1) on top of the integer part of the instance's shift
                sh = X.const(shift) if path == "constant" else Arr([(iv_, X.const(n))], X.const(shift) if path == "varying" else X.const(si) + mk_idx("dfr", [X.var(iv_)], "real"))
                c = f"{key}[{path} shift {shift}, order {2 * halfp - 1}" + (f", {blocking[0]}={blocking[1]}" if blocking else "") + (f", record of {n}" if n != sizes[0] else "") + "]"
                try:
                    r = I.call_key(key, [data, sh], {"order": X.const(2 * halfp - 1)}, St())
                except Unknown as ex:
                    ctx.unknown("R2-stencil-alignment", c, str(ex), where); continue
                # the fractional part handed to the tap builder
                if seen and path != "drifting":
                    fr = seen[0][0]
                    fx = to_x(fr) if to_x(fr) is not None else (to_x(as_arr(fr).body) if as_arr(fr) is not None else None)
                    if fx is None or not fx.eq(X.const(shift - si)):
                        ctx.violated("R2-integer-fraction-split", c, f"fractional part handed to the tap builder is {fr!r}, expected shift - floor(shift) = {shift - si}", where); continue
                verdict = HOLDS; detail = ""
                for rpath, r1 in pv_leaves(r):
                    if isinstance(r1, LocalArr):
                        from ..values import local_to_arr
                        r1 = local_to_arr(r1, None) or Opaque("output array only partially filled")
                    A = as_arr(r1) if not is_opaque(r1) and r1 is not None else None
                    on = f" (on the path [{path_text(rpath)}])" if rpath else ""
                    if A is None or A.ndim != 1:
                        verdict = VIOLATED if isinstance(r1, Mismatch) else (UNKNOWN if verdict == HOLDS else verdict)
                        detail = f"result not recognised: {r1!r}"[:200] + on; 
                        if verdict == VIOLATED: break
                        continue
                    interior = range(max(halfp + 4, halfp + 1 - si), min(n - halfp - 5, n - si - halfp - 2))
                    if len(interior) > 40: interior = sorted(set(list(interior[:8]) + list(interior[len(interior) // 2 - 4:len(interior) // 2 + 4]) + list(interior[-8:])))
                    for m in interior:
                        g = subst_val(A.body, {A.axes[0][0]: X.const(m)})
                        gx = to_x(g) if not isinstance(g, PV) and not is_opaque(g) else None
                        frac = mk_idx("dfr", [X.const(m)], "real") if path == "drifting" else X.const(shift - si)
                        want = X.const(0)
                        for k in range(2 * halfp):
                            wk = (X.const(1 if k == halfp - 1 else 0) if (path != "drifting" and shift == si) else mk_fn("tapw", [frac, X.const(k)]))
                            want = want + mk_idx("dat", [X.const(m + si - (halfp - 1) + k)], "complex") * wk
                        if gx is None or not gx.eq(want):
                            verdict = VIOLATED if gx is not None else UNKNOWN
                            detail = f"stencil misaligned: output sample {m}: {g!r} instead of {want!r}"[:300] + on; break
                    if verdict != HOLDS: break
                ctx.ob("R2-stencil-alignment", c, verdict, "tap k of the weights for this sample's own fraction meets data[n + floor(s) - (halfp-1) + k] for interior n" if verdict == HOLDS else detail, where)
