"""C01 - per-bin statistics equal the windowed-DFT definition on every backend."""
from ..kernels import KernelEval, check_kernel, check_launch_coverage, FAMILIES, MODES, BACKENDS, kernel_key
from ..qbasis import check_build_Q


def check(ctx):
    KE = KernelEval(ctx.repo)
    n = 0
    for backend in BACKENDS:
        for fam in FAMILIES:
            for mode in MODES:
                if ctx.repo.has(kernel_key(fam, mode, backend)): n += 1
    ctx.need("statistics kernels (_stats_{family}_{mode}[_np|_cuda])", n, 18)
    for backend in BACKENDS:
        for fam in FAMILIES:
            for mode in MODES:
                check_kernel(ctx, KE, fam, mode, backend)
    for fam in FAMILIES:
        for mode in MODES:
            check_launch_coverage(ctx, KE, fam, mode)
    check_build_Q(ctx)
    # a statistic is a function of the kernel's arguments only if no kernel modifies them (the record is shared between bins)
    from ..kernels import check_inputs_untouched
    check_inputs_untouched(ctx)
    # memoised kernel inputs (detrend basis on host or device) must be keyed by everything they depend on
    from ..dispatch import check_cache_keys
    check_cache_keys(ctx, rule="R9-cache-key", about=("basis", "other"))
    from ..dtypes import check_dtypes
    check_dtypes(ctx)
    ctx.call_sites = len(KE.I.call_log)
    ctx.trust("L1 Goertzel closed form", "L2 conj of a DFT of real samples", "L17 chunk partition", "library model rows (DESIGN.md Appendix B)")
    ctx.assume("exact arithmetic: floating-point rounding and fastmath re-association are not modelled",
               "np.nan_to_num is the identity on finite values")
    return ("Each of the 18 backend entry points (6 Numba kernels, 6 NumPy fallbacks, 6 CUDA host wrappers with their device "
            "kernels inlined) is abstractly interpreted with symbolic arguments (x1,x2,starts,L,w,omega,Q); loops are summarised by idiom "
            "(reduction, Goertzel recurrence via lemma L1, array comprehension, chunk partition). Each of the five returned statistics is "
            "compared as an algebraic normal form (sums with binders, unit phasors, conj) with the definition "
            "X=sum_n w[n](x[s+n]-trend[n])e^{-i w n}, for every branch regime of the segment count K. Decides the exact-arithmetic "
            "algorithm on all inputs at once, including the CUDA code no test here can run; does not decide rounding error.")
