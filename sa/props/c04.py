"""C04 - resolution is log-spaced and monotone; averaging honours the overlap."""
from ..sched import *
from ..dispatch import AN, Run, analyzer_obj, run_plan, scheduler_keys


def check(ctx):
    for name in NAMES:
        found = {}

        def per_path(A, R, tr, name=name, found=found):
            check_segmentation(A, R, rules=("R1", "R3", "R2"), prefix=tr)
            check_overlap(A, R, prefix=tr)
            check_constants(A, R)
            if name != "new_ltf_plan":
                # log spacing is observed through the stored f, r, L: the walk must step with the resolution of the stored length
                check_grid(A, R, rules=("R1", "R2"), prefix=tr)
            if name == "vectorized_ltf_plan":
                check_bmin_mask(A, R, prefix=tr)     # sibling agreement with the iterative scheduler: the same bmin clamp on the selected resolution
            if name != "vectorized_ltf_plan":
                collect_compromise(R, tr, found)
        for_paths(ctx, ctx.repo, name, per_path)
        if name != "vectorized_ltf_plan":
            report_compromise(ctx, ctx.repo, name, found)
    from ..dispatch import check_window_config
    check_window_config(ctx, rule="R5-requested-overlap-used")
    check_rounding_helper(ctx, ctx.repo)
    # a plan is a function of its configuration: memoised intermediate results must be keyed by every parameter they depend on
    from ..dispatch import check_cache_keys
    check_cache_keys(ctx, rule="R8-memo-key-complete", files=("speckit/schedulers.py", "speckit/utils.py"))
    check_lpsd_wrapper(ctx, ctx.repo)          # LPSD spacing = LTF spacing with bmin=1, Lmin=1 forced
    check_jdes_search(ctx, ctx.repo)
    _force_wiring(ctx)
    ctx.trust("L4 pigeonhole cap", "L5 mean step of evenly spread starts", "rounding classes of Appendix A.4")
    ctx.assume("exact arithmetic; every path through the loop bodies is checked")
    return ("Per scheduler and path: K = min(nearest(1+(N-L)/((1-olap)L)), N-L+1) of the stored L with a nearest-integer rounding (not int/floor/ceil); "
            "starts nearest(t(N-L)/(K-1)); reported overlap = 1 - meanstep/L (closed form or literal mean of successive differences), 0 for one segment; "
            "the log-spacing constants logfact=(N/2)^(1/Jdes)-1, fresmin=fs/N, freslim=fresmin(1+(1-olap)(Kdes-1)) are held by value and the three-way "
            "compromise (f*logfact | sqrt(freslim*f*logfact) | fresmin) is observed through the stored L and its tests; find_Jdes_binary_search returns a Jdes "
            "only under nf(Jdes)==target and None otherwise, plan() raises on None and builds the final plan with that Jdes. Declined: monotonicity of L and K, "
            "K >= Kdes where attainable, the 10% bin-count agreement (numeric).")


def _force_wiring(ctx):
    """plan(): force_target_nf -> search with the scheduler and the common kwargs; None -> RuntimeError; final call uses the solved Jdes."""
    import ast
    from ..symalg import X, KIND
    from ..values import DictVal, Lib, Opaque, to_x, PV, pv_leaves, is_opaque
    from ..absint import St
    from ..values import Func
    repo = ctx.repo
    fkey = AN + ".plan"; fn = repo.get(fkey); where = repo.where(fkey, fn)
    skeys = scheduler_keys(repo)
    allkeys = []
    for ks in skeys.values():
        for k in ks:
            if k not in allkeys: allkeys.append(k)
    KIND.update({"Jsolved": "nat"})
    from ..dispatch import _sched_out, window_lib
    R = Run(repo, "numba")
    seen = {"search": None, "final": []}
    nf = X.var("nf")

    def lib2(I_, name, args, kw, st, n):
        if name == "sched.generic":
            seen["final"].append(dict(kw)); return _sched_out(nf, allkeys)
        return window_lib(I_, name, args, kw, st, n)
    R.I.hooks["lib"] = lib2
    base = R._call

    def call2(I_, f, args, kwargs, st, node):
        if f.key == "speckit/utils.py::find_Jdes_binary_search":
            seen["search"] = (list(args), dict(kwargs)); return seen.get("ret", X.var("Jsolved"))
        return base(I_, f, args, kwargs, st, node)
    R.I.hooks["call"] = call2
    for ret, label in ((X.var("Jsolved"), "found"), (None, "not found")):
        seen["ret"] = ret; seen["search"] = None; seen["final"] = []
        me = analyzer_obj(0, True, True); me.attrs["_plan_cache"] = None
        me.attrs["config"].d.update({"scheduler_func": Lib("sched.generic"), "band": None, "force_target_nf": True, "bmin": X.var("bmin"), "Kdes": X.var("Kdes"),
                                     "Jdes": X.var("Jdes"), "num_patch_pts": None})
        st = St()
        r = R.I.exec_block(fn.body, _state(me))
        c = f"{fkey}[force_target_nf:{label}]"
        if seen["search"] is None:
            ctx.violated("R4-forced-count", c, "force_target_nf does not run the Jdes search", where); continue
        sargs, skw = seen["search"]
        ok_s = len(sargs) >= 2 and isinstance(sargs[0], Lib) and sargs[0].name == "sched.generic" and to_x(sargs[1]) is not None and to_x(sargs[1]).eq(X.var("Jdes"))
        if label == "found":
            fin = seen["final"][-1] if seen["final"] else None
            ok_f = fin is not None and to_x(fin.get("Jdes")) is not None and to_x(fin.get("Jdes")).eq(X.var("Jsolved")) and \
                all(to_x(fin.get(k)) is not None and to_x(skw.get(k)) is not None and to_x(fin[k]).eq(to_x(skw[k])) for k in skw)
            (ctx.holds if ok_s and ok_f else ctx.violated)("R4-forced-count", c, "search on the same scheduler/arguments with target = configured Jdes; final plan built with the solved Jdes" if ok_s and ok_f
                                                          else f"forced-count wiring differs: search args {sargs!r} {sorted(skw)}, final call {fin!r}"[:300], where)
        else:
            raised = r is not None and r[0] == "raise"
            (ctx.holds if raised and not seen["final"] else ctx.violated)("R4-forced-count", c, "no Jdes found -> exception, no plan" if raised and not seen["final"] else
                                                                          "when the search finds no Jdes a plan is still produced instead of an error", where)


def _state(me):
    from ..absint import St
    from ..dispatch import AN
    st = St(); st.mod = "speckit/analysis.py"; st.fn_key = AN + ".plan"
    st.env["self"] = me
    return st
