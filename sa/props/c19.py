"""C19 - time-domain detrending and RMS integration are exact and mutually consistent (narrow: structural clauses)."""
from ..dspchk import *
from ..symalg import X


def check(ctx):
    check_polynomial_detrend(ctx)
    check_powers_in_float(ctx)
    check_df_wrapper(ctx, "df_detrend", "polynomial_detrend", "R2-per-column-on-a-copy")
    check_integral_rms(ctx)
    check_get_rms(ctx)
    # none of the DSP helpers writes into an array it was handed (np.asarray does not copy an ndarray)
    from ..effects import Effects
    E = Effects(ctx.repo)
    for fname in ("polynomial_detrend", "integral_rms", "crop_data", "df_detrend"):
        key = f"{DSP}::{fname}"
        if not ctx.repo.has(key): continue
        sm = E.summary(key); ctx.analysed(key)
        where = ctx.repo.where(key, ctx.repo.get(key))
        bad = [sm["params"][i] for i in sorted(sm["writes_param"]) if not (fname == "df_detrend" and sm["params"][i] == "df")]
        if bad:
            sk = sm["sinks"][sm["params"].index(bad[0])][0]
            ctx.violated("R5-arguments-untouched", key, f"{fname} modifies its argument '{bad[0]}' in place ({sk.kind}: {sk.detail}): the caller's array changes, so a second call with the "
                         "same object (e.g. the same band on another spectrum) gives a different result", f"{DSP}:{getattr(sk.node, 'lineno', 0)}")
        else:
            ctx.holds("R5-arguments-untouched", key, "no in-place effect reaches an argument", where)
    ctx.trust("np.polyfit / np.polyval are least-squares fit and evaluation", "scipy cumulative_trapezoid(y, x, initial=0)[-1] is the trapezoid integral of y over x",
              "L7: the residual of a least-squares fit is orthogonal to the fitted basis")
    ctx.assume("exact arithmetic: orthogonality / idempotence to rounding and the Parseval link are not decided")
    return ("polynomial_detrend is interpreted for orders 0,1,2,3,5: it returns x - P(t), P the least-squares polynomial of exactly that degree fitted to x and evaluated over "
            "the same abscissa (order 0: x - mean); no power of an integer-typed sample axis is formed (int64 wrap-around for long records); df_detrend applies it to each selected numeric column of a copy and stores its output unconverted; integral_rms is "
            "sqrt of the trapezoid integral of asd^2 over f, both cropped by one inclusive mask; get_rms delegates to it with (self.f, self.asd, band).")
