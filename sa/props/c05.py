"""C05 - a computed spectrum is the reference estimator applied to its own plan."""
from ..dispatch import *
from ..report import HOLDS, VIOLATED, UNKNOWN


def check(ctx):
    check_dispatch(ctx)
    check_window_config(ctx)
    check_cache_keys(ctx)
    check_assembly(ctx)
    check_band_mask(ctx)
    check_single_fields(ctx)
    # the kernel every dispatch site reaches is the reference estimator (same rule as C01.R3, all 18 kernels, all five statistics)
    from ..kernels import KernelEval, check_kernel, FAMILIES, MODES, BACKENDS
    KE = KernelEval(ctx.repo)
    for backend in BACKENDS:
        for fam in FAMILIES:
            for mode in MODES:
                check_kernel(ctx, KE, fam, mode, backend, rule="R8-kernel-is-reference-estimator")
    # ... with the detrend basis every dispatch site hands it: orthonormal columns spanning degrees 0..order (the reference estimator's trend)
    from ..qbasis import check_build_Q
    check_build_Q(ctx)
    check_result_fields_aligned(ctx, rule="R10-result-fields-aligned")
    # the record is the same for every bin of the plan: no kernel (with the helpers it calls) writes the samples it is handed
    from ..kernels import check_inputs_untouched
    check_inputs_untouched(ctx, rule="R11-record-untouched")
    check_wrappers(ctx)
    from ..effects import check_no_shared_module_state
    check_no_shared_module_state(ctx, rule="R9-config-not-shared")
    ctx.trust("E3/E5 abstract interpreter and library model", "L1 Goertzel closed form", "L2", "L17 chunk partition")
    ctx.assume("exact arithmetic", "cache hits return what a recomputation would (R5)")
    return ("Both dispatchers are partially evaluated for 72 abstract configurations (order x mode x backend x window kind, plus fres requests): exactly one "
            "kernel call is reached and it is the kernel of Appendix A.2; its arguments are compared by role with the plan / request (same bin index for L, "
            "D, f; window = DFT-even Kaiser kaiser(L+1, alpha*pi)[:-1] or win(L); omega = 2*pi*f/fs; Q = _build_Q(L, order)). compute() is interpreted "
            "end-to-end: every result field of bin j is the statistic of bin j, S12 = (sum w)^2, S2 = sum w^2. plan() is interpreted with a band: every "
            "per-bin field any scheduler emits and the ragged D are restricted by one and the same mask. Memo dictionaries are keyed by everything their "
            "value depends on. Single-bin requests: segmentation = reference generator, K = navg = len(starts). Declined: numerical equality of the estimate.")
