"""C12 - the Kaiser window delivers the requested side-lobe suppression (narrow: structural clauses)."""
from fractions import Fraction as Fr
from ..symalg import X, KIND
from ..values import *
from ..absint import Interp, St
from ..kernels import KernelEval, check_kernel, FAMILIES, MODES, BACKENDS
from ..dispatch import check_dispatch, check_window_config, check_cache_keys
from ..report import HOLDS, VIOLATED, UNKNOWN

# Troebs & Heinzel, LPSD reference implementation: alpha(psll) = a0 + a1 x + a2 x^2 + a3 x^3, x = psll/100
COEFFS = ("-0.0821377", "4.71469", "-0.493285", "0.0889732")


def check(ctx):
    key = "speckit/utils.py::kaiser_alpha"
    fn = ctx.repo.get(key); ctx.analysed(key)
    KIND["psll"] = "pos"
    I = Interp(ctx.repo)
    r = I.call_key(key, [X.var("psll")], {}, St())
    x = X.var("psll") / 100
    want = X.const(Fr(COEFFS[0])) + X.const(Fr(COEFFS[1])) * x + X.const(Fr(COEFFS[2])) * x * x + X.const(Fr(COEFFS[3])) * x * x * x
    if isinstance(r, X): ctx.compare("R1-alpha-cubic", key, r, want, ctx.repo.where(key, fn), detail="alpha(psll) must be the published cubic")
    elif isinstance(r, PV) and all(isinstance(l, X) for _, l in pv_leaves(r)):
        # a case split on the requested level: every branch must be the published cubic
        from ..symalg import compare as _cmp
        worst = None
        for path, leaf in pv_leaves(r):
            st_, why = _cmp(leaf, want, seed=ctx.seed)
            if st_ != HOLDS and (worst is None or st_ == VIOLATED): worst = (st_, path, leaf, why)
        if worst is None: ctx.holds("R1-alpha-cubic", key, "every branch is the published cubic", ctx.repo.where(key, fn))
        else: ctx.ob("R1-alpha-cubic", key, worst[0], f"on the branch [{path_text(worst[1])}] alpha(psll) is not the published cubic {worst[3]}", ctx.repo.where(key, fn), lhs=worst[2], rhs=want)
    else: ctx.unknown("R1-alpha-cubic", key, f"kaiser_alpha not recognised: {r!r}"[:200], ctx.repo.where(key, fn))
    check_window_config(ctx, rule="R2-alpha-flows-from-psll", overlap=False)
    check_dispatch(ctx, rule_prefix="R3.", want_roles=True, kaisers=(True,), roles=("L", "w", "omega"))
    check_cache_keys(ctx, rule="R4-cache-key", about=("window",))
    # the requested side-lobe level reaches the analyzer through the one-call functions too (psll / win forwarded, not dropped or defaulted)
    from ..dispatch import check_wrappers
    check_wrappers(ctx, rule="R7-requested-window-forwarded", probes=("psll", "win"))
    from ..kernels import check_inputs_untouched
    check_inputs_untouched(ctx, rule="R6-record-untouched")        # a step left in the record by an earlier bin leaks at every later bin
    from ..dtypes import check_dtypes
    check_dtypes(ctx)
    KE = KernelEval(ctx.repo)
    for backend in BACKENDS:
        for fam in FAMILIES:
            for mode in MODES:
                check_kernel(ctx, KE, fam, mode, backend, outputs=("MXX", "MYY", "mu_r", "mu_i"), rule="R5-window-applied-after-detrend")
    from ..effects import check_no_shared_module_state
    check_no_shared_module_state(ctx, rule="R7-config-not-shared")
    ctx.trust("A.5 published cubic coefficients", "numpy.kaiser(M, beta) is the symmetric Kaiser window with beta = pi*alpha")
    ctx.assume("exact arithmetic; the dB claim itself (Bessel-function numerics, recurrence precision) is not decided")
    return ("Narrow claim: kaiser_alpha(psll) equals the published cubic (normal forms, Horner or expanded); on every Kaiser path config['alpha'] = "
            "kaiser_alpha(psll); the window handed to every kernel in every configuration is kaiser(L+1, alpha*pi)[:-1] (DFT-even) of the bin's own L; "
            "window memos are keyed by alpha as well; every kernel multiplies the window after removing the trend and evaluates the fractional-bin "
            "frequency 2*pi*f/fs. Declined: the suppression figure in dB.")
