"""C11 - empirical error estimates are the segment scatter in spectral units."""
from ..symalg import X
from ..values import *
from ..table import *
from ..kernels import KernelEval, check_kernel, FAMILIES, MODES, BACKENDS
from ..purity import table_purity


def check_never_negative(ctx, rule="R3-never-negative"):
    """R3: the scatter slot of every kernel is non-negative by construction in floating point (sign analysis E8)."""
    import ast
    from ..signs import Signs, NONNEG, CANCEL
    from ..effects import Effects
    from ..kernels import kernel_key
    E = Effects(ctx.repo)

    def resolve(key, call):
        r = E.resolver(key)
        f = call.func
        nm = f.id if isinstance(f, ast.Name) else None
        names = E.module_names(key.split("::")[0])
        return names.get(nm) if nm else None
    S = Signs(ctx.repo, resolve)
    n = 0
    for backend in BACKENDS:
        for fam in FAMILIES:
            for mode in MODES:
                key = kernel_key(fam, mode, backend); n += 1
                sg, wit, wkey = S.ret_slot(key, 4)
                where = ctx.repo.where(key, ctx.repo.get(key))
                if sg == NONNEG:
                    ctx.holds(rule, key, "M2 is a mean of sums of squares (or 0) on every return: non-negative whatever the rounding", where)
                elif sg == CANCEL:
                    ctx.violated(rule, key, f"M2 is computed in {wkey} as a difference of two non-negative aggregates ({' '.join(ast.unparse(wit).split())[:120]}): "
                                 "the single-pass form E|z|^2-|E z|^2 cancels catastrophically for quasi-deterministic data, rounding makes the variance negative and its root NaN",
                                 f"{wkey.split('::')[0]}:{getattr(wit, 'lineno', 0)}")
                else:
                    ctx.unknown(rule, key, f"sign of the scatter slot not decided at {' '.join(ast.unparse(wit).split())[:100] if wit is not None else '?'} in {wkey}", where)
    ctx.need("kernels with a sign-decided scatter slot", n, 18)


def check(ctx):
    T = Table(ctx.repo); ref = reference()
    ctx.analysed(GETATTR)
    for iscsd in (False, True):
        for nm in EMP:
            check_cell(ctx, T, nm, iscsd, ref, "R1-empirical-cells")
    KE = KernelEval(ctx.repo)
    for backend in BACKENDS:
        for fam in FAMILIES:
            for mode in MODES:
                check_kernel(ctx, KE, fam, mode, backend, outputs=("mu_r", "mu_i", "M2"), rule="R2-scatter-statistic")
    check_never_negative(ctx)
    # the stored scatter of bin j is the kernel's M2 of bin j, unaltered on the way into the result
    from ..dispatch import check_assembly
    check_assembly(ctx, rule="R4-scatter-reaches-result", only=("M2", "navg", "K"))
    from ..dispatch import check_single_fields
    check_single_fields(ctx, rule="R4-scatter-reaches-result", only=("M2", "navg", "K"))
    # ... and the result object stores it as given (no floor, clip or re-ordering applied to M2 alone inside the constructor)
    from ..dispatch import check_result_fields_aligned
    check_result_fields_aligned(ctx, rule="R6-result-stores-statistics-as-given")
    # "divided by the number of segments": the plan's navg is the number of starts actually averaged, on every scheduler path
    from .c10 import check_n_is_segment_count
    check_n_is_segment_count(ctx)
    table_purity(ctx, cells=EMP, T=T)
    ctx.trust("E4 partial evaluation of __getattr__", "E5 kernel summaries (L1, L2, L17)")
    ctx.assume("exact arithmetic; nan_to_num is the identity on finite values")
    return ("XY_emp_var = M2/navg, XY_emp_dev = sqrt(M2/navg), G{xx,xy}_emp_dev = 2/(fs*S2)*sqrt(M2/navg) and their applicability (None matrix) are "
            "compared as normal forms; M2 returned by all 18 backend kernels is compared with mean_j |xy_j - mean xy|^2 (divisor K, centred on the "
            "mean, 0 for K<2) for every K regime (NumPy kernels also with several chunks); the scatter slot is non-negative by construction in floating point "
            "(sum of squares, no difference of aggregates). Declined: agreement with the analytic deviations for Gaussian data (statistical).")
