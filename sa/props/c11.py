"""C11 - empirical error estimates are the segment scatter in spectral units."""
from ..symalg import X
from ..values import *
from ..table import *
from ..kernels import KernelEval, check_kernel, FAMILIES, MODES, BACKENDS
from ..purity import table_purity


def check(ctx):
    T = Table(ctx.repo); ref = reference()
    ctx.analysed(GETATTR)
    for iscsd in (False, True):
        for nm in EMP:
            check_cell(ctx, T, nm, iscsd, ref, "R1-empirical-cells")
    KE = KernelEval(ctx.repo)
    for backend in BACKENDS:
        for fam in FAMILIES:
            for mode in MODES:
                check_kernel(ctx, KE, fam, mode, backend, outputs=("mu_r", "mu_i", "M2"), rule="R2-scatter-statistic")
    table_purity(ctx)
    ctx.trust("E4 partial evaluation of __getattr__", "E5 kernel summaries (L1, L2, L17)")
    ctx.assume("exact arithmetic; nan_to_num is the identity on finite values")
    return ("XY_emp_var = M2/navg, XY_emp_dev = sqrt(M2/navg), G{xx,xy}_emp_dev = 2/(fs*S2)*sqrt(M2/navg) and their applicability (None matrix) are "
            "compared as normal forms; M2 returned by all 18 backend kernels is compared with mean_j |xy_j - mean xy|^2 (divisor K, centred on the "
            "mean, 0 for K<2) for every K regime. Declined: agreement with the analytic deviations for Gaussian data (statistical).")
