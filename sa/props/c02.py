"""C02 - every plan segments the record safely and completely."""
from ..sched import *
from ..bounds import check_bounds_dominate, check_plan_validation


def check(ctx):
    for name in NAMES:
        def both(A, R, tr):
            check_segmentation(A, R, prefix=tr)
            check_zero_divisor(A, R, prefix=tr)
        for_paths(ctx, ctx.repo, name, both)
    check_rounding_helper(ctx, ctx.repo)
    # a plan is a function of its configuration: memoised intermediate results must be keyed by every parameter they depend on
    from ..dispatch import check_cache_keys
    check_cache_keys(ctx, rule="R8-memo-key-complete", files=("speckit/schedulers.py", "speckit/utils.py", "speckit/analysis.py"))
    check_bounds_dominate(ctx)
    check_plan_validation(ctx)
    ctx.trust("L4 pigeonhole (K strictly increasing starts in [0,N-L] need K <= N-L+1)", "L15 fix-up then recompute", "E5/E6 loop summarisation")
    ctx.assume("exact arithmetic; every path through the loop bodies is checked, branch conditions are not interpreted",
               "trunc(y+1/2) = nearest(y) for the non-negative start positions")
    return ("For each scheduler, on every path: K, navg and the number of generated starts are one value; K = min(nearest(1+(N-L)/((1-olap)L)), N-L+1) of the "
            "stored L (pigeonhole cap); a stored L either equals N or lies on a path where the single-segment test on that very L failed (K=1 => L=N); starts "
            "are nearest(t*(N-L)/(K-1)) (first 0, last N-L) and [0] for one segment; no zero-initialised loop variable divides before it is assigned. In the "
            "analyzer a bounds check 0 <= starts <= N-L on the very (starts, L) handed to the kernel dominates every kernel call, and plan() rejects K != len(D), "
            "empty D and L < 1. Declined: max(1,Lmin) <= L <= N and 'never fails for every admissible configuration' in general (interval reasoning over floats).")
