"""C15 - optimal multi-input subtraction yields a physical, consistent residual."""
from ..symalg import X, Unknown, compare
from ..values import *
from ..misochk import *
from ..table import Table, generic, GETATTR
from ..report import HOLDS, VIOLATED, UNKNOWN

QS = (1, 2, 3)


def _strip(x):
    """remove wrappers that are the identity on a non-negative real (max(.,0), abs)."""
    while isinstance(x, X):
        ats = [a for a in x.atoms()] if hasattr(x, "atoms") else []
        if len(ats) == 1 and ats[0].tag == "fn" and x.eq(X.atom(ats[0])):
            a = ats[0]
            if a.name in ("max", "maximum") and len(a.args) == 2 and any(isinstance(z, X) and z.iszero() for z in a.args):
                x = next(z for z in a.args if not (isinstance(z, X) and z.iszero())); continue
            if a.name == "abs" and len(a.args) == 1 and a.args[0].isreal():
                x = a.args[0]; continue
        break
    return x


def _residual_ob(ctx, rule, c, R, ref, where, detail):
    """compare the argument of the final sqrt with the reference on every path."""
    if R.bad:
        why, node = R.bad[0]
        ctx.violated(rule, c + "[bins independent]", why.why, f"{SYS}:{getattr(node, 'lineno', 0)}"); return None
    if is_opaque(R.result) and getattr(R.result, "why", "") == "always raises":
        # the instance is an admissible call (q one-dimensional inputs and an output of one length, fs > 0): raising on every path is a failure
        ctx.violated(rule, c, "the function raises for this admissible call on every path (q equally long one-dimensional records)", where); return None
    if is_opaque(R.result) or not isinstance(R.result, tuple) or len(R.result) != 2:
        ctx.ob(rule, c, VIOLATED if isinstance(R.result, Mismatch) else UNKNOWN, f"return value not recognised: {R.result!r}"[:300], where); return None
    if not R.sqrt_args:
        mm = next((v for v in R.result if isinstance(v, Mismatch)), None)
        plain = all(isinstance(l, X) for _, l in pv_leaves(R.result[1]))
        if mm is not None: ctx.violated(rule, c, f"the computation fails on every input: {mm.why}"[:400], where)
        elif plain: ctx.violated(rule, c, f"the returned amplitude {R.result[1]!r} is not the square root of a residual spectrum (no root is taken)"[:400], where)
        else: ctx.unknown(rule, c, f"no square root of a recognised residual is returned: {R.result[1]!r}"[:400], where)
        return None
    arg = R.sqrt_args[-1]
    asd = R.result[1]
    worst = None
    for path, leaf in pv_leaves(arg):
        if isinstance(leaf, Mismatch):
            ctx.violated(rule, c, (f"on the path [{path_text(path)}]: " if path else "") + leaf.why, where); return None
        leaf = _strip(leaf)
        st_, why = compare(leaf, ref, seed=ctx.seed)
        if st_ != HOLDS:
            worst = (st_, path, leaf, why)
            if st_ == VIOLATED: break
    if worst:
        st_, path, leaf, why = worst
        ctx.ob(rule, c, st_, (f"on the path [{path_text(path)}]: " if path else "") + "the residual handed to sqrt is not " + detail + (f" ({why})" if why else ""), where, lhs=leaf, rhs=ref)
        return None
    # returned amplitude is the (absolute) square root of that residual
    ok = True
    for (p1, a), (p2, r) in zip(pv_leaves(arg), pv_leaves(asd)):
        if not isinstance(r, X) or not isinstance(a, X): ok = False; break
        try:
            if not (r.eq(a.sqrt().abs()) or r.eq(a.sqrt())): ok = False
        except Unknown:
            from ..symalg import mk_fn
            rt = mk_fn("sqrt", [a])
            if not (r.eq(rt.abs()) or r.eq(rt)): ok = False
    if not ok:
        ctx.violated(rule, c + "[returned]", f"returned amplitude {asd!r} is not |sqrt(residual)|"[:300], where); return None
    if not isinstance(R.result[0], FGrid):
        ctx.violated(rule, c + "[grid]", f"returned frequencies {R.result[0]!r} are not the grid of one of the ltf results", where); return None
    ctx.holds(rule, c, "residual = " + detail + "; returned (f, |sqrt(residual)|)", where)
    return arg


def _config_ob(ctx, c, R, where):
    cfgs = {}
    for chans, fs, rest, node in R.calls:
        k = (vkey(fs), tuple(sorted((a, vkey(b)) for a, b in rest.items())))
        cfgs.setdefault(k, []).append((chans, node))
    if len(cfgs) > 1:
        minority = min(cfgs.values(), key=len)
        chans, node = minority[0]
        ctx.violated("R4-one-configuration", c, f"the spectra of one matrix are estimated under different configurations: ltf({', '.join(chans)}) at line {getattr(node, 'lineno', 0)} "
                     "does not receive the same fs/**kwargs as the other calls, so segments/averages differ between the entries of [[T,S],[S^H,S00]]", where)
    else:
        fs_ok = all(isinstance(fs, X) and fs.eq(X.var("fs")) for _, fs, _, _ in R.calls)
        kw_ok = all(set(rest) == {"olap", "win"} for _, _, rest, _ in R.calls)
        (ctx.holds if fs_ok and kw_ok else ctx.violated)("R4-one-configuration", c, f"all {len(R.calls)} ltf calls receive the caller's fs and **kwargs unchanged" if fs_ok and kw_ok else
                                                     "ltf calls do not receive the caller's fs / **kwargs", where)


def check(ctx):
    repo = ctx.repo
    T = Table(repo)
    ctx.analysed(GETATTR, *FUNCS.values())
    # ---- R1 SISO: sqrt(GyySx) with GyySx = Gyy(1-coh) = Schur complement for q=1
    key = FUNCS["siso"]; where = repo.where(key, repo.get(key))
    try:
        R = run_function(repo, T, "siso", 1)
        ref, S00 = schur_reference(T, 1)
        _residual_ob(ctx, "R1-siso-residual", key, R, ref, where, "Gyy - |Gxy|^2/Gxx = Gyy(1-coh)")
        _config_ob(ctx, key, R, where)
        if len(R.calls) != 1 or R.calls[0][0] != ("in1", "out"):
            ctx.violated("R1-siso-residual", key + "[channels]", f"ltf is called on {[c[0] for c in R.calls]}, expected one call on [input, output]", where)
    except Unknown as ex:
        ctx.unknown("R1-siso-residual", key, str(ex), where)
    # ---- R2 MISO: residual = Schur complement of the spectral matrix, both solvers, q = 1..3
    args = {}
    for which in ("analytic", "numeric"):
        key = FUNCS[which]; where = repo.where(key, repo.get(key))
        for q in QS:
            c = f"{key}[q={q}]"
            try:
                R = run_function(repo, T, which, q)
                ref, S00 = schur_reference(T, q)
            except Unknown as ex:
                ctx.unknown("R2-miso-residual", c, str(ex), where); continue
            args[(which, q)] = _residual_ob(ctx, "R2-miso-residual", c, R, ref, where, "S00 - S^H T^-1 S (Schur complement of the spectral matrix [[T,S],[S^H,S00]])")
            _config_ob(ctx, c, R, where)
            for note in R.notes: ctx.notes.append(f"{c}: {note}") if hasattr(ctx, "notes") and isinstance(ctx.notes, list) else None
            for a in R.assumed: ctx.assume(a)
    # ---- R3 analytic == numeric, term by term in normal form
    for q in QS:
        a, n = args.get(("analytic", q)), args.get(("numeric", q))
        c = f"{FUNCS['analytic']}~{FUNCS['numeric']}[q={q}]"
        if a is None or n is None: continue       # already reported under R2 for this q
        bad = None
        for (p1, x), (p2, y) in zip(pv_leaves(a), pv_leaves(n)):
            st_, why = compare(_strip(x), _strip(y), seed=ctx.seed)
            if st_ != HOLDS: bad = (st_, why)
        if bad: ctx.ob("R3-solvers-agree", c, bad[0], "analytic and numeric residuals differ " + bad[1], "")
        else: ctx.holds("R3-solvers-agree", c, "both solvers return the same normal form", "")
    # ---- R5 the entries of the spectral matrix come from different ltf calls (a channel alone, a channel in several pairs): they are one
    #      consistent matrix only if a channel's auto statistic does not depend on its partner / position and the pair statistics are Hermitian
    from ..kernels import KernelEval, check_pair_identities
    check_pair_identities(ctx, KernelEval(repo), rule="R5-consistent-spectral-matrix")
    # ... and every ltf call must reach the kernel of its configuration (auto and pair spectra detrended alike), in double precision
    from ..dispatch import check_dispatch
    check_dispatch(ctx, rule_prefix="R6.", want_roles=False)
    from ..dtypes import check_dtypes
    check_dtypes(ctx, rule="R7-double-precision")
    from ..dtypes import check_borrowed_dtype
    check_borrowed_dtype(ctx, "R8-channel-buffers-keep-their-dtype", ("speckit/systems.py",), floor=3)
    ctx.need("ltf-call configurations", sum(1 for o in ctx.obs if o["rule"] == "R4-one-configuration"), 7)
    ctx.trust("E4 partial evaluation of __getattr__ (cells Gxx, Gyy, Gxy, GyySx)", "sympy.solve / numpy.linalg.solve return the exact solution of a square linear system (Cramer)",
              "numpy.linalg.pinv(T) = T^-1 for invertible T", "Schur complement of a positive semi-definite Hermitian matrix lies in [0, S00], vanishes when the last row is a combination of the others, "
              "and is invariant under invertible re-mixing / permutation of the first q rows and columns (L8 generalised)",
              "the averaged matrix of segment outer products is Hermitian PSD and has full rank only for more than q segments")
    ctx.assume("exact arithmetic; generic branch (T invertible, spectra non-zero)", "every ltf call with the same (N, fs, kwargs) yields the same plan (C07/C08)",
               "q = 1, 2, 3 are decided; the q = 4 normal forms exceed the normaliser's size bound")
    return ("All three optimal-analysis functions are interpreted with every ltf() replaced by an abstract SpectrumResult whose attributes are the code's own __getattr__ cells on Hermitian "
            "per-channel statistics; per-bin arrays are carried at a generic bin and the per-bin loop is admitted only as a map. The residual handed to the final sqrt is compared, as a "
            "rational normal form, with the Schur complement det[[T,S],[S^H,S00]]/det T for q=1,2,3 in the analytic (sympy.solve + lambdify) and the numeric (linalg.solve / pinv) solver; "
            "SISO returns sqrt(GyySx)=sqrt(Gyy(1-coh)); both solvers agree; every ltf call receives the caller's fs and **kwargs. Bounds, zero residual for exact combinations and "
            "re-mixing invariance then follow from the trusted Schur-complement lemma, they are not decided numerically.")
