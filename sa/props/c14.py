"""C14 - results do not depend on thread scheduling or on call history."""
import ast
from ..race import prange_loops, is_parallel_njit, is_cuda_kernel, BodyCheck
from ..effects import Effects
from ..alias import Alias, strip, roots, path_of
from ..model import norm_stmt, decorators
from ..purity import table_purity
from ..dispatch import AN
from ..report import HOLDS, VIOLATED, UNKNOWN


def check(ctx):
    repo = ctx.repo
    E = Effects(repo)
    nloops = 0; nk = 0
    for rel in ("speckit/core.py", "speckit/core_cuda.py", "speckit/noise.py", "speckit/schedulers.py", "speckit/analysis.py", "speckit/dsp.py", "speckit/utils.py"):
        if rel not in repo.mods: continue
        for key, fn in repo.functions_in(rel):
            loops = prange_loops(fn)
            if loops:
                ctx.analysed(key)
                if not is_parallel_njit(fn):
                    ctx.holds("R1-race-freedom", key, "prange outside a parallel=True function runs sequentially", repo.where(key, fn))
                for lp in loops:
                    nloops += 1
                    j = lp.target.id if isinstance(lp.target, ast.Name) else "?"
                    outside = set()
                    bc = BodyCheck(key, lp.body, j, outside, E, rel).run()
                    construct = f"{key}[prange over {j}]"
                    where = f"{rel}:{lp.lineno}"
                    if bc.problems:
                        for node, msg in bc.problems[:3]:
                            ctx.violated("R1-race-freedom", f"{construct}[{norm_stmt(node)[:50]}]", msg, f"{rel}:{getattr(node, 'lineno', lp.lineno)}")
                    else:
                        ctx.holds("R1-race-freedom", construct, f"{bc.stores} array stores, all into the iteration's own slot; no loop-carried scalar", where)
                    # the reduction after the parallel region is serial
                    after = [st for st in fn.body if getattr(st, "lineno", 0) > lp.end_lineno]
                    for st in after:
                        for c in ast.walk(st):
                            if isinstance(c, ast.Call):
                                sm = E.resolver(key)(c)
                                if sm and is_parallel_njit(repo.index[sm["key"]]):
                                    ctx.violated("R1-serial-reduction", construct, f"statistics are reduced by {sm['key']}, itself a parallel function", where)
                    ctx.holds("R1-serial-reduction", construct, "reduction over segments happens after the parallel loop, serially", where)
            if is_cuda_kernel(fn):
                nk += 1; ctx.analysed(key)
                # j = cuda.grid(1); body under `if j < bound:`
                jname = None
                for st in fn.body:
                    if isinstance(st, ast.Assign) and isinstance(st.value, ast.Call) and (ast.unparse(st.value.func).endswith("grid")) and isinstance(st.targets[0], ast.Name):
                        jname = st.targets[0].id
                construct = f"{key}[thread {jname}]"
                where = repo.where(key, fn)
                if jname is None:
                    ctx.unknown("R1-race-freedom", key, "thread index not found (cuda.grid)", where); continue
                body = [st for st in fn.body if not (isinstance(st, ast.Expr) and isinstance(st.value, ast.Constant))]
                bc = BodyCheck(key, body, jname, set(a.arg for a in fn.args.args), E, rel).run()
                probs = [p for p in bc.problems]
                if probs:
                    for node, msg in probs[:3]:
                        ctx.violated("R1-race-freedom", f"{construct}[{norm_stmt(node)[:50]}]", msg, f"{rel}:{getattr(node, 'lineno', 0)}")
                else:
                    ctx.holds("R1-race-freedom", construct, f"{bc.stores} array stores, all into the thread's own slot", where)
    ctx.need("prange loops", nloops, 6)
    ctx.need("CUDA kernels", nk, 6)
    # ---- R2 lazy attribute table is pure (memoises only)
    table_purity(ctx, rule="R2-pure-attribute-table")
    # a memo slot shared by values that differ in something not in its key makes a result depend on what was asked before
    from ..dispatch import check_cache_keys
    check_cache_keys(ctx, rule="R5-cache-key-complete")
    # ---- R8 no value of the attribute table comes from uninitialised memory (np.empty as out= of a guarded ufunc: the masked-out bins
    #      then hold whatever the heap held - earlier results - so the value depends on what was computed before)
    from ..inputs import check_guards
    check_guards(ctx, rule_g="R8-no-uninitialised-output", rule_u="R8-unguarded-divisors")
    # ---- R6 the NumPy kernels process the segments in chunks: the statistics must not depend on the chunk size (a processing parameter)
    _chunk_independence(ctx)
    # ---- R3 analyzer history
    _history(ctx, E)
    # ---- R4 environment defaults precede the first import of the compiled modules
    mod = repo.module("speckit/__init__.py")
    first_import = None; last_env = None; keys = []
    for st in mod.body:
        if isinstance(st, ast.ImportFrom) and (st.level > 0 or (st.module or "").startswith("speckit")) and first_import is None:
            first_import = st.lineno
        if isinstance(st, ast.Expr) and isinstance(st.value, ast.Call) and ast.unparse(st.value.func) == "os.environ.setdefault":
            last_env = st.lineno
            if st.value.args and isinstance(st.value.args[0], ast.Constant): keys.append(st.value.args[0].value)
    ok = first_import is not None and last_env is not None and last_env < first_import and "NUMBA_THREADING_LAYER" in keys
    (ctx.holds if ok else ctx.violated)("R4-env-defaults", "speckit/__init__.py", f"thread-layer defaults {keys} set before the first package import" if ok else
                                        "environment defaults are not all set before numba-using modules are imported (they are read at import time)", f"speckit/__init__.py:{last_env or 0}")
    from ..effects import check_no_shared_module_state
    check_no_shared_module_state(ctx, rule="R9-instance-state-not-shared")
    from ..table import check_cells_history_independent
    check_cells_history_independent(ctx, rule="R12-attribute-independent-of-access-order")
    from ..race import check_thread_count_independent
    check_thread_count_independent(ctx)
    from ..effects import check_no_global_memo
    check_no_global_memo(ctx, rule="R10-no-global-memo")
    ctx.trust("numba prange semantics (iterations may run concurrently; scalar '+=' is a reduction with unspecified order)", "E7 aliasing rows")
    ctx.assume("BLAS-internal threading of the NumPy fallback is not analysed")
    return ("Every prange loop (6) and CUDA kernel (6) is checked: array stores only into the iteration's own slot, no loop-carried scalar or reduction "
            "inside the parallel region, helpers write only thread-private arrays, reduction after the loop is serial. The lazy attribute table performs "
            "no in-place effect on cached or raw arrays (alias analysis), so values do not depend on access order. Attribute write-sets of "
            "plan/compute/compute_single_bin are {_plan_cache (once, under its None test), config['Jdes'] (plan only)} and no kernel writes the "
            "stored record, so repeated / interleaved analyses see the same state.")


def _attr_writes(fn):
    """paths self.X / self.X[key] assigned in fn."""
    out = []
    for n in ast.walk(fn):
        tg = []
        if isinstance(n, ast.Assign): tg = n.targets
        elif isinstance(n, (ast.AugAssign, ast.AnnAssign)): tg = [n.target]
        for t in tg:
            p = path_of(t)
            if p and p.startswith("self."): out.append((p, n))
            elif isinstance(t, ast.Subscript):
                p2 = path_of(t.value)
                if p2 and p2.startswith("self."): out.append((p2 + "[*]", n))
    return out


def _attr_reads(fn):
    out = set()
    for n in ast.walk(fn):
        if isinstance(n, (ast.Attribute, ast.Subscript)) and isinstance(getattr(n, "ctx", None), ast.Load):
            p = path_of(n)
            if p and p.startswith("self."): out.add(p)
    return out


def _history(ctx, E):
    repo = ctx.repo
    meths = ("plan", "compute", "compute_single_bin", "_lpsd_core")
    reads = {m: _attr_reads(repo.get(f"{AN}.{m}")) for m in meths}
    # the memoised plan may only be consulted through plan() (which returns the same plan whether it was cached or not): a method that
    # looks at the cache directly behaves differently depending on whether plan()/compute() ran before
    for m in meths:
        if m == "plan" or m.startswith("_"): continue      # private workers run after compute() obtained the plan through plan()
        key = f"{AN}.{m}"
        hits = [r for r in reads[m] if r == "self._plan_cache" or r.startswith("self._plan_cache[")]
        if hits:
            fnm = repo.get(key)
            node = next((n_ for n_ in ast.walk(fnm) if isinstance(n_, ast.Attribute) and n_.attr == "_plan_cache"), fnm)
            ctx.violated("R3-call-history", f"{key}[reads self._plan_cache]", f"{m}() consults the memoised plan directly: its result depends on whether plan() or compute() was called on this "
                         "analyzer before (cache empty vs filled)", f"speckit/analysis.py:{getattr(node, 'lineno', 0)}")
        else:
            ctx.holds("R3-call-history", f"{key}[reads self._plan_cache]", "does not look at the plan cache (uses plan() if it needs the plan)", repo.where(key, repo.get(key)))
    for m in meths:
        key = f"{AN}.{m}"; fn = repo.get(key); ctx.analysed(key)
        for p, node in _attr_writes(fn):
            c = f"{key}[{norm_stmt(node)[:60]}]"
            where = f"speckit/analysis.py:{node.lineno}"
            if p == "self._plan_cache" and m == "plan":
                # written once: the method returns the cached plan first when it exists
                first = next((s for s in fn.body if not (isinstance(s, ast.Expr) and isinstance(s.value, ast.Constant))), None)
                ok = isinstance(first, ast.If) and "self._plan_cache is not None" in ast.unparse(first.test) and any(isinstance(b, ast.Return) for b in first.body)
                (ctx.holds if ok else ctx.violated)("R3-call-history", c, "plan cache written once, returned unchanged afterwards" if ok else
                                                   "plan cache may be rebuilt or replaced on later calls", where)
                continue
            if p == "self.config[Jdes]" and m == "plan":
                others = [o for o in meths if o != "plan" and any(r.startswith("self.config[Jdes]") for r in reads[o])]
                (ctx.holds if not others else ctx.violated)("R3-call-history", c, "only plan() reads config['Jdes'] and it runs once" if not others else
                                                           f"config['Jdes'] is rewritten by plan() and read by {others}", where)
                continue
            readers = [o for o in meths if any(r == p or r.startswith(p.replace('[*]', '')) for r in reads[o])]
            ctx.violated("R3-call-history", c, f"{m}() modifies analyzer state {p}, which {readers or 'later calls'} read: the result of an analysis depends on which calls preceded it", where)
        # in-place effects on analyzer state (through views / callees)
        if m == meths[0]: _record_rebound_later(ctx, repo, meths)
        A = Alias(fn, resolve=E.resolver(key), shared_paths=("self.data", "self.x1", "self.x2", "self._plan_cache", "self.config")).run()
        bad = 0
        for sk in A.sinks:
            definite, _ = strip(sk.sources)
            hits = sorted(l for l in definite if roots(l)[0] in ("self.data", "self.x1", "self.x2", "self._plan_cache") and "shallow" not in roots(l)[1])
            if not hits: continue
            if sk.kind == "store" and sk.target == "self._plan_cache": continue
            bad += 1
            ctx.violated("R3-call-history", f"{key}[{norm_stmt(sk.node)[:60]}]", f"in-place {sk.kind} on {sk.target} ({sk.detail}) modifies {', '.join(hits)}, which later analyses on the same analyzer read",
                         f"speckit/analysis.py:{getattr(sk.node, 'lineno', 0)}")
        ctx.holds("R3-call-history", key, f"{len(A.sinks)} in-place sites examined, {bad} touch analyzer state", repo.where(key, fn))


def _record_rebound_later(ctx, repo, meths):
    """the analysed record (self.data / x1 / x2 / fs / nx / iscsd) is bound by the constructor only: a helper method reached from plan() / compute() /
    compute_single_bin() that re-binds it (run-once sanitising, lazy conversion) makes an entry point that does not pass through that helper see
    another record than one that does - the result depends on which calls preceded it."""
    RECORD = ("self.data", "self.x1", "self.x2", "self.fs", "self.nx", "self.iscsd")
    seen = set(meths); work = list(meths); via = {}
    while work:
        m = work.pop()
        if not repo.has(f"{AN}.{m}"): continue
        for c in ast.walk(repo.get(f"{AN}.{m}")):
            if isinstance(c, ast.Call) and isinstance(c.func, ast.Attribute) and isinstance(c.func.value, ast.Name) and c.func.value.id == "self" and repo.has(f"{AN}.{c.func.attr}"):
                if c.func.attr not in seen and c.func.attr != "__init__":
                    seen.add(c.func.attr); work.append(c.func.attr); via[c.func.attr] = m
    n = 0
    for m in sorted(seen):
        key = f"{AN}.{m}"
        if not repo.has(key): continue
        fn = repo.get(key)
        for p, node in _attr_writes(fn):
            if p in RECORD:
                n += 1
                ctx.violated("R3-call-history", f"{key}[{norm_stmt(node)[:60]}]", f"{m}() (reached from {via.get(m, m)}()) re-binds the analysed record {p} after construction: entry points that do not "
                             "pass through it (e.g. compute_single_bin before the first plan()) analyse a different record than later calls", f"speckit/analysis.py:{node.lineno}")
    if not n:
        ctx.holds("R3-call-history", f"{AN}[record bound once]", f"{len(seen)} methods reachable from the entry points: none re-binds self.data / x1 / x2 / fs / nx / iscsd", repo.where(AN + ".plan", repo.get(AN + ".plan")))


def _chunk_independence(ctx):
    from ..kernels import KernelEval, kernel_key, FAMILIES, MODES, OUT, leaf_for_K, has_chunk_param, prepare_env_chunks
    from ..symalg import compare
    from ..values import to_x, is_opaque, Mismatch
    from ..report import HOLDS, VIOLATED, UNKNOWN
    KE = KernelEval(ctx.repo); n = 0
    for fam in FAMILIES:
        for mode in MODES:
            key = kernel_key(fam, mode, "numpy")
            if not ctx.repo.has(key) or not has_chunk_param(ctx.repo.get(key)): continue
            n += 1
            where = ctx.repo.where(key, ctx.repo.get(key))
            a, _ = KE.evaluate(fam, mode, "numpy"); b, _ = KE.evaluate(fam, mode, "numpy", chunk=2)
            la, ua = leaf_for_K(a, 3); lb, ub = leaf_for_K(b, 3)
            if ua or ub or not isinstance(la, tuple) or not isinstance(lb, tuple) or len(la) != 5 or len(lb) != 5:
                bad = next((z for z in (la, lb) if isinstance(z, Mismatch)), None)
                ctx.ob("R6-chunk-size-independent", key, VIOLATED if bad is not None else UNKNOWN, (bad.why if bad is not None else "kernel result not recognised"), where); continue
            status, detail = HOLDS, "all five statistics have the same normal form for the default chunk size and for chunks of 2"
            for nm, x, y in zip(OUT, la, lb):
                if is_opaque(x) or is_opaque(y) or to_x(x) is None or to_x(y) is None:
                    m_ = next((z for z in (x, y) if isinstance(z, Mismatch)), None)
                    status, detail = (VIOLATED, m_.why) if m_ is not None else (UNKNOWN, f"{nm} not recognised"); break
                st_, why = compare(to_x(x), to_x(y), prepare=prepare_env_chunks, seed=ctx.seed)
                if st_ != HOLDS:
                    status, detail = st_, f"{nm} changes with the chunk size (default chunk vs chunks of 2, K=5 segments) {why}"; break
            ctx.ob("R6-chunk-size-independent", key, status, detail, where)
    ctx.need("chunked NumPy kernels", n, 6)
