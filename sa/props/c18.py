"""C18 - synthesised noise has the prescribed spectrum (narrow: structural clauses)."""
from ..noisechk import *


def check(ctx):
    check_filter_design(ctx)
    check_handover_white_only(ctx)
    check_fftnoise(ctx)
    check_band_mask(ctx)
    from ..dispatch import check_cache_keys
    check_cache_keys(ctx, rule="R6-memo-key-complete", files=("speckit/noise.py",))
    # a memoised design table is shared by every generator with the same parameters: nobody may rescale it in place
    from ..effects import check_memoised_results_not_mutated
    check_memoised_results_not_mutated(ctx, "R7-memoised-design-not-updated-in-place", ("speckit/noise.py",))
    ctx.trust("L9 bilinear map of (s+w1)/(s+w0)", "L11 Hermitian spectrum => real inverse FFT; unit phasors keep |F|", "Plaszczynski corner placement")
    ctx.assume("exact arithmetic; the 1 dB accuracy of the cascade is not decided", "mirror-slice algebra is decided on the instances N = 2..9")
    return ("alpha_noise's constructor is interpreted symbolically: section count ceil(4.5*(log10 w_max-log10 w_min)), pole/zero corners 10^(log w_min + dp(i+1/2-alpha/4) [+dp*alpha/2])/2pi, "
            "bilinear coefficients a0,a1,b1 and their packing [a0,a1],[1,-b1], scaling fmax^(-alpha/2), unit-density white source; white rms = sqrt(psd*fs). fftnoise is interpreted for "
            "N=2..9: rotated bins, conjugate mirror (k <-> N-k), real DC/Nyquist. band_limited_noise builds its mask on |fftfreq| over the full grid.")


def check_handover_white_only(ctx):
    from ..noisechk import make_interp, instantiate, rng_of
    from ..values import pv_leaves
    repo = ctx.repo
    I = make_interp(repo)
    o = instantiate(I, "white_noise", seed=X.var("seed"))
    key = f"{NOISE}::white_noise"; where = repo.where(key, repo.get(key))
    rms = to_x(o.attrs.get("_rms")) if isinstance(o, Obj) else None
    want = (X.var("psd") * X.var("fs")).sqrt()
    if rms is None: ctx.unknown("R3-scaling", key + "[rms]", "rms not recognised", where)
    else: ctx.compare("R3-scaling", key + "[rms]", rms, want, where, detail="white noise variance = psd*fs")
    st = St(); st.mod = NOISE
    k2 = f"{NOISE}::white_noise.get_series"
    r = I.call_func(Func(k2, repo.get(k2)), [o, X.var("npts")], {}, st, None)
    d = next((l for _, l in pv_leaves(r) if isinstance(l, Draw)), None)
    ok = d is not None and to_x(d.scale) is not None and to_x(d.scale).eq(want)
    (ctx.holds if ok else ctx.violated)("R3-scaling", k2 + "[scale]", "every draw uses scale = rms" if ok else f"draws use scale {getattr(d, 'scale', None)!r}", repo.where(k2, repo.get(k2)))
    # the single-sample interface draws from the same distribution: every variate generated while serving get_sample has scale rms
    k3 = f"{NOISE}::white_noise.get_sample"
    if repo.has(k3):
        rng = rng_of(o)
        n0 = len(rng.attrs["draws"].items) if rng is not None else 0
        st3 = St(); st3.mod = NOISE
        I.hooks["decide"] = lambda cond: None
        try:
            I.call_func(Func(k3, repo.get(k3)), [o], {}, st3, None)
            new = rng.attrs["draws"].items[n0:] if rng is not None else []
        except Exception as ex:
            new = None
        w3 = repo.where(k3, repo.get(k3))
        if not new: ctx.unknown("R3-scaling", k3 + "[scale]", "no draw from the owned generator observed while serving get_sample on an empty buffer", w3)
        else:
            bad = [d_ for d_ in new if to_x(d_.scale) is None or not to_x(d_.scale).eq(want)]
            (ctx.violated if bad else ctx.holds)("R3-scaling", k3 + "[scale]", (f"the buffer refill draws variates with scale {bad[0].scale!r} instead of sqrt(psd*fs): samples served one at a time "
                                                 "have the wrong variance") if bad else "the buffer refill draws with scale = rms", w3)
