"""C17 - noise generators are seed-reproducible continuous streams."""
from ..noisechk import *


def check(ctx):
    check_seed_ownership(ctx)
    check_handover(ctx)
    check_cascade(ctx)
    check_fifo(ctx)
    check_draw_order(ctx)
    from ..effects import check_no_process_wide_alias
    check_no_process_wide_alias(ctx, "R8-no-shared-live-state", ("speckit/noise.py",))
    ctx.trust("L10 first-order direct form II transposed", "L16 scipy.signal.lfilter needs a non-empty input for a defined final state",
              "numpy.random.default_rng(seed) is a deterministic function of seed")
    ctx.assume("bit-for-bit equality of NumPy's Generator across block sizes is library behaviour (not analysed)",
               "get_sample FIFO order is decided by bounded unrolling (prefetch block of 3, 7 calls)")
    return ("Every generator class is instantiated abstractly: the numpy Generator it owns is default_rng(<the constructor's seed>) for a symbolic seed and for seed=0, no legacy "
            "global RNG is used, every draw of white noise is npts variates from that Generator with scale sqrt(psd*fs). red_noise/alpha_noise.get_series pass the carried "
            "state into the filter and store the filter's returned final state back (state in = state left by the previous call); an empty request leaves the state "
            "untouched (scipy precondition). The cascade's section body is y=a0*x+z, z'=a1*x-b1*y with the state slot read before / written after the sample loop. "
            "get_sample returns the prefetched blocks in order (bounded unrolling).")
