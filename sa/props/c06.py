"""C06 - spectral densities are calibrated: power, bandwidth and scaling laws."""
from fractions import Fraction as Fr
from ..symalg import X, V, Unknown
from ..values import *
from ..table import *
from ..report import HOLDS, VIOLATED, UNKNOWN
from ..purity import table_purity

# expected homogeneity degrees (x-scale, y-scale, fs-scale) of the generic value of each cell, cross mode
DEG_X = {"Gxx": (2, 0, -1), "Gyy": (0, 2, -1), "Gxy": (1, 1, -1), "csd": (1, 1, -1), "Gyx": (1, 1, -1), "cs": (1, 1, 0),
         "ENBW": (0, 0, 1), "coh": (0, 0, 0), "ccoh": (0, 0, 0), "Hxy": (-1, 1, 0), "tf": (-1, 1, 0), "Hyx": (-1, 1, 0),
         "cf": (-1, 1, 0), "GyyCx": (0, 2, -1), "GyyRx": (0, 2, -1), "GyySx": (0, 2, -1),
         "Gxx_dev": (2, 0, -1), "Gyy_dev": (0, 2, -1), "Gxy_dev": (1, 1, -1), "Hxy_dev": (-1, 1, 0), "coh_dev": (0, 0, 0),
         "Gxx_error": (0, 0, 0), "Gyy_error": (0, 0, 0), "Gxy_error": (0, 0, 0), "Hxy_mag_error": (0, 0, 0),
         "Hxy_rad_error": (0, 0, 0), "Hxy_deg_error": (0, 0, 0), "coh_error": (0, 0, 0),
         "XY_emp_dev": (1, 1, 0), "XY_emp_var": (2, 2, 0), "Gxy_emp_dev": (1, 1, -1)}
DEG_A = {"Gxx": (2, -1), "Gyy": (2, -1), "Gxy": (2, -1), "psd": (2, -1), "G": (2, -1), "asd": (1, Fr(-1, 2)), "ps": (2, 0),
         "ENBW": (0, 1), "Gxx_dev": (2, -1), "Gyy_dev": (2, -1), "Gxx_error": (0, 0), "Gyy_error": (0, 0),
         "XY_emp_dev": (2, 0), "XY_emp_var": (4, 0), "Gxx_emp_dev": (2, -1)}


def _scale_dependent_guard(v, scales):
    """first branch condition of the cell whose truth is not invariant under the scalings (d not homogeneous), or None."""
    from ..values import _all_conds
    for c in _all_conds(v):
        ds = []
        if getattr(c, "lt", None) is not None: ds.append(c.lt)
        if getattr(c, "eq", None) is not None: ds.append(c.eq[1] - c.eq[2])
        for d in ds:
            if not any(at in sc for sc in scales for at in d.all_atoms()): continue
            for sc in scales:
                try: d.degree_in(sc)
                except Unknown: return c
    return None


def check(ctx):
    T = Table(ctx.repo); ref = reference()
    ctx.analysed(GETATTR)
    names = set(dir_names(ctx.repo)) | set(tested_names(ctx.repo))
    ctx.need("attribute names handled by SpectrumResult.__getattr__", len(names), 44)
    for iscsd in (False, True):
        for nm in CALIB:
            check_cell(ctx, T, nm, iscsd, ref, "R1-calibration")
    # scaling laws, derived from the code's own normal forms
    a = lambda n: V(n)
    for iscsd, table in ((True, DEG_X), (False, DEG_A)):
        for nm, want in table.items():
            construct = f"{GETATTR}[{nm}|{'cross' if iscsd else 'auto'}]"
            if iscsd:
                scales = [{a("XX"): 2, a("XY"): 1, a("M2"): 2}, {a("YY"): 2, a("XY"): 1, a("M2"): 2}, {a("fs"): 1}]
            else:
                scales = [{a("XX"): 2, a("M2"): 4}, {a("fs"): 1}]
            for sc in scales:
                for k in list(sc):
                    if k.kind == "complex":
                        from ..symalg import conj_atom
                        sc[conj_atom(k)[0]] = sc[k]
            raw = T.cell(nm, iscsd)
            bad_guard = _scale_dependent_guard(raw, scales)
            if bad_guard is not None:
                ctx.violated("R2-scaling", construct, f"the guard [{bad_guard.text}] compares a quantity that scales with the data (or fs) against an absolute constant: rescaling the record "
                             "switches the branch, so the value is not scale-covariant (tiny-amplitude records are forced onto the degenerate branch)"); continue
            v = generic(raw)
            x = to_x(v) if not isinstance(v, PV) and not is_opaque(v) and v is not None and v is not ATTR_ERROR_V else None
            if x is None:
                ctx.unknown("R2-scaling", construct, f"no scalar normal form ({v!r})"[:200]); continue
            try:
                got = tuple(x.degree_in(sc) for sc in scales)
            except Unknown as ex:
                ctx.violated("R2-scaling", construct, f"not homogeneous under channel / sampling-rate scaling: {ex}", lhs=x); continue
            if tuple(Fr(w) for w in want) == got:
                ctx.holds("R2-scaling", construct, f"degrees {tuple(str(g) for g in got)}")
            else:
                ctx.violated("R2-scaling", construct, f"scaling degrees (x,y,fs) are {tuple(str(g) for g in got)}, the property requires {want}", lhs=x)
    # the calibrated quantity is the mean of |X|^2 over all K segments: kernel level, all backends (NumPy kernels also with several chunks)
    from ..kernels import KernelEval, check_kernel, FAMILIES, MODES, BACKENDS
    KE = KernelEval(ctx.repo)
    for backend in BACKENDS:
        for fam in FAMILIES:
            for mode in MODES:
                check_kernel(ctx, KE, fam, mode, backend, outputs=("MXX", "MYY"), rule="R4-mean-segment-power")
    # each channel's statistic is computed from that channel's own samples: no gather buffer is refilled while an earlier result in it is live
    from ..effects import check_scratch_reuse
    check_scratch_reuse(ctx, rule="R6-channel-buffers-not-clobbered")
    # the window sums stored with the result are (sum w)^2 and sum w^2 of the window of that very length, on both analysis paths
    from ..dispatch import check_assembly, check_single_fields
    check_assembly(ctx, rule="R5-stored-window-sums", only=("S12", "S2"))
    # the statistic that is calibrated for bin j is the kernel's output at that bin's own frequency and length
    check_assembly(ctx, rule="R7-statistic-of-the-bin", only=("XX", "YY", "XY"))
    check_single_fields(ctx, rule="R5-stored-window-sums", only=("S12", "S2"))
    # the kernels are handed the bin's own analysis frequency 2*pi*f/fs, segment length and window on every dispatcher path (a sinusoid analysed
    # at its own frequency carries ps = A^2/2 only if the Goertzel step is that frequency, also when the length comes from a rounded fres request)
    from ..dispatch import check_dispatch
    check_dispatch(ctx, rule_prefix="R8.", want_roles=True, kaisers=(True,), roles=("L", "w", "omega"))
    # the sums S1, S2 that calibrate a density must be those of the window requested now (memoised windows keyed completely)
    from ..dispatch import check_cache_keys
    check_cache_keys(ctx, rule="R3-window-sums-current", about=("window",))
    table_purity(ctx, cells=tuple(DEG_X) + tuple(DEG_A) + tuple(CALIB), T=T)
    ctx.trust("E4 partial evaluation of __getattr__", "library model rows for np.divide/np.sqrt/np.abs")
    ctx.assume("exact arithmetic; generic branch = every guarded divisor non-zero (the degenerate branches are C13's)")
    return ("The lazy attribute table SpectrumResult.__getattr__ is partially evaluated for each name and both modes; Gxx, Gyy, Gxy, "
            "ENBW, psd, asd, ps, csd, cs are compared as normal forms with 2*XX/(fs*S2) etc. and ENBW=fs*S2/S12; the scaling laws "
            "(x->c*x, y->c'*y, fs->a*fs) are decided as homogeneity degrees of every cell's own normal form. "
            "Declined: the sinusoid identity ps=A^2/2 (window leakage is numeric).")
