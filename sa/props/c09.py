"""C09 - cross-spectral quantities satisfy their defining identities and bounds."""
from fractions import Fraction as Fr
from ..symalg import X, V, mk_fn, Unknown, compare
from ..values import *
from ..table import *
from ..kernels import KernelEval, FAMILIES, BACKENDS, kernel_key, prepare_env as kprep
from ..report import HOLDS, VIOLATED, UNKNOWN
from ..purity import table_purity


def _gx(T, nm, iscsd=True):
    v = generic(T.cell(nm, iscsd))
    if v is None or v is ATTR_ERROR_V or is_opaque(v) or isinstance(v, PV): return None
    return to_x(v)


def swap(x):
    XX, YY, XY = X.var("XX"), X.var("YY"), X.var("XY")
    return x.subst({"XX": YY, "YY": XX, "XY": XY.conj()})


def check(ctx):
    T = Table(ctx.repo); ref = reference()
    ctx.analysed(GETATTR)
    where = ctx.repo.where(GETATTR, ctx.repo.get(GETATTR))
    for iscsd in (False, True):
        for nm in CROSS:
            check_cell(ctx, T, nm, iscsd, ref, "R1-definitions")
    # the guards of the quotients must not depend on the scale of the records: coherence, the swap law and the single-segment identity are
    # stated for every record, also one of amplitude 1e-9 (a guard  XX*YY > eps  forces such a record onto the degenerate branch)
    from .c06 import _scale_dependent_guard
    from ..symalg import conj_atom
    scales = [{V("XX"): 2, V("XY"): 1, V("M2"): 2}, {V("YY"): 2, V("XY"): 1, V("M2"): 2}]
    for sc in scales:
        for k in list(sc):
            if k.kind == "complex": sc[conj_atom(k)[0]] = sc[k]
    for nm in CROSS:
        c = f"{GETATTR}[{nm}|cross]"
        try: bad = _scale_dependent_guard(T.cell(nm, True), scales)
        except Unknown: bad = None
        if bad is not None:
            ctx.violated("R10-guards-scale-free", c, f"the guard [{bad.text}] compares a quantity that scales with the records against an absolute constant: for small-amplitude records the "
                         "degenerate branch is taken, so dependent channels / single-segment bins do not give coherence 1 and GyySx != Gyy*(1-coh)", where)
        else:
            ctx.holds("R10-guards-scale-free", c, "every branch condition of the cell is invariant under x -> c*x, y -> c'*y", where)
    g = {nm: _gx(T, nm) for nm in ("coh", "Gxy", "Gyx", "Gxx", "Gyy", "GyyCx", "GyyRx", "GyySx", "ccoh")}

    def law(rule, name, lhs, rhs, detail=""):
        c = f"{GETATTR}[{name}|cross]"
        if lhs is None or rhs is None: ctx.unknown(rule, c, "cell without normal form", where); return
        try: ctx.compare(rule, c, lhs, rhs, where, detail=detail, prepare=prepare_env)
        except Unknown as ex: ctx.unknown(rule, c, str(ex), where)
    if all(v is not None for v in g.values()):
        law("R2-channel-swap", "coh", swap(g["coh"]), g["coh"], "coherence unchanged when the channels are swapped")
        law("R2-channel-swap", "Gxy", swap(g["Gxy"]), g["Gxy"].conj(), "Gxy becomes its conjugate")
        law("R2-channel-swap", "Gyx", g["Gyx"], g["Gxy"].conj(), "Gyx is the conjugate of Gxy")
        law("R2-channel-swap", "Gxx", swap(g["Gxx"]), g["Gyy"], "Gxx and Gyy exchange")
        law("R2-channel-swap", "Gyy", swap(g["Gyy"]), g["Gxx"], "Gxx and Gyy exchange")
        law("R3-conditioned-spectra", "GyyCx", g["GyyCx"] + g["GyyRx"], g["Gyy"], "coherent + residual = output spectrum")
        law("R3-conditioned-spectra", "GyySx", g["GyySx"], g["Gyy"] * (X.const(1) - g["coh"]), "optimal-subtraction residual = Gyy*(1-coh)")
        law("R3-conditioned-spectra", "coh", g["coh"], g["ccoh"] * g["ccoh"].conj(), "coh = |ccoh|^2")
        law("R3-conditioned-spectra", "Gxy", g["Gxy"] * g["Gxy"].conj(), g["coh"] * g["Gxx"] * g["Gyy"], "|Gxy|^2 = coh*Gxx*Gyy (with L8: <= Gxx*Gyy)")
        for nm in ("coh", "Gxx", "Gyy", "GyyCx", "GyyRx", "GyySx"):
            c = f"{GETATTR}[{nm}|cross]"
            (ctx.holds if g[nm].isreal() else ctx.violated)("R4-real-observables", c, "value is invariant under conjugation" if g[nm].isreal() else
                                                           "a real observable has a non-real normal form (a term carries a net phase)", where)
    else:
        ctx.unknown("R2-channel-swap", GETATTR, "cells without normal form: " + ", ".join(k for k, v in g.items() if v is None), where)
    # ---- kernel level: density alone == density in a pair; swap; coherence 1 for a single segment
    from ..kernels import check_pair_identities
    KE = KernelEval(ctx.repo)
    check_pair_identities(ctx, KE)
    # a pair's channel c is the record analysed alone: layout routing of the two-channel input (2xN, Nx2, 2x2, list)
    from ..inputs import check_record
    check_record(ctx, rule_s=None, rule_r="R6-channel-routing", rule_c="R6-channels-treated-alike")
    # every two-channel configuration reaches the two-channel kernel of its family with (x1, x2) in the channel positions, on every path of the
    # dispatchers (a shortcut that analyses a pair as one channel under a data-dependent test breaks 'alone = in a pair' and the swap law)
    from ..dispatch import check_dispatch
    check_dispatch(ctx, rule_prefix="R8.", want_roles=True, kaisers=(True,), roles=("x1", "x2"))
    from ..dispatch import check_result_fields_aligned
    check_result_fields_aligned(ctx, rule="R9-result-fields-aligned")
    from ..effects import check_scratch_reuse
    check_scratch_reuse(ctx, rule="R7-channel-buffers-not-clobbered")
    table_purity(ctx, cells=CROSS, T=T)
    ctx.trust("E4 partial evaluation of __getattr__", "E5 kernel summaries (L1, L2)", "L3, L8")
    ctx.assume("exact arithmetic; generic branch (XX, YY non-zero)")
    return ("Cross-spectral cells are compared with their definitions; the swap law (XX<->YY, XY->conj XY), GyyCx+GyyRx=Gyy, GyySx=Gyy(1-coh), "
            "|Gxy|^2=coh*Gxx*Gyy and realness of real observables are decided on the code's own normal forms; at kernel level (all 3 backends x 3 "
            "families) the auto statistic of a channel alone equals that in a pair, the swap symmetry holds and |XY|^2=XX*YY for one segment. "
            "Declined: the inequalities 0<=coh<=1 themselves (they follow from L8 given the decided structure).")
