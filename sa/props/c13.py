"""C13 - inputs are handled robustly: sanitised, never modified, layout-independent."""
from ..inputs import check_no_write, check_record, check_guards
from ..dtypes import check_dtypes


def check(ctx):
    check_no_write(ctx)
    check_record(ctx)
    check_guards(ctx)
    check_dtypes(ctx, rule="R6-float64-contiguous")
    # finite error bars for constant / strictly periodic records: the scatter must not go negative by cancellation (sqrt -> NaN)
    from .c11 import check_never_negative
    check_never_negative(ctx, rule="R7-scatter-never-negative")
    # the assembled statistics are made finite on every path of compute() (overflowing segment powers of huge finite samples)
    from ..dispatch import check_statistics_finite
    check_statistics_finite(ctx)
    # the detrend basis is finite for the shortest segments as well
    from ..qbasis import check_basis_finite
    check_basis_finite(ctx)
    from ..effects import check_no_global_memo
    check_no_global_memo(ctx, rule="R10-no-global-memo")
    ctx.trust("E7 aliasing rows (asarray/ascontiguousarray/.T/basic slices alias; arithmetic, fancy indexing, nan_to_num(copy=True) are fresh)",
              "np.nan_to_num keyword defaults (posinf/neginf default to +-1.8e308, not 0)")
    ctx.assume("exact arithmetic: dtype/stride independence of the numbers and float underflow are not decided")
    return ("No in-place effect reaches the caller's array: may-alias analysis of SpectrumAnalyzer.__init__, of every method that hands the stored "
            "record to a kernel, and effect summaries (writes-param / returns-alias) of all kernels and helpers over the call graph. __init__ is "
            "abstractly interpreted for the layouts 2xN, Nx2, 2x2 and 1-D: channel c is row/column c of the input, and on the path where the record "
            "holds NaN/Inf the channel views are views of the array sanitised with nan=posinf=neginf=0. Each guarded quotient of the attribute table "
            "is guarded by the non-vanishing of exactly its divisor, with a zero fallback. Data-path dtype conversions are float64/int64. "
            "In compute() every data statistic of the result (XX, YY, XY, M2) passes through nan_to_num with zero fills, or a finiteness test of that very "
            "array, on every path (effects of helpers with conditional early returns included).")
