"""C10 - analytic error bars are the Bendat-Piersol expressions."""
from fractions import Fraction as Fr
from ..symalg import X, V, mk_fn, Unknown
from ..values import *
from ..table import *
from ..report import HOLDS, VIOLATED, UNKNOWN
from ..purity import table_purity


def _gx(T, nm, iscsd=True):
    v = generic(T.cell(nm, iscsd))
    if v is None or v is ATTR_ERROR_V or is_opaque(v) or isinstance(v, PV): return None
    return to_x(v)


def check_n_is_segment_count(ctx):
    """the n of every error formula is the plan's navg: on every scheduler path navg = K = number of generated starts."""
    from ..sched import NAMES, for_paths, check_segmentation
    for name in NAMES:
        for_paths(ctx, ctx.repo, name, lambda A, R, tr: check_segmentation(A, R, rules=("R1",), prefix=tr))


def check(ctx):
    check_n_is_segment_count(ctx)
    # ... and on the single-bin path navg is the number of segments actually averaged (K = navg = number of starts)
    from ..dispatch import check_single_fields, setup as _dsetup
    _dsetup()
    check_single_fields(ctx, rule="R5-single-bin-navg", only=("K", "navg"))
    T = Table(ctx.repo); ref = reference()
    ctx.analysed(GETATTR)
    where = ctx.repo.where(GETATTR, ctx.repo.get(GETATTR))
    for iscsd in (False, True):
        for nm in ERRS:
            check_cell(ctx, T, nm, iscsd, ref, "R1-textbook-form")
    # dev == estimate * normalised error, from the code's own cells
    pairs = (("Gxx", "Gxx_dev", "Gxx_error", False), ("Gyy", "Gyy_dev", "Gyy_error", False), ("Gxy", "Gxy_dev", "Gxy_error", True),
             ("Hxy", "Hxy_dev", "Hxy_mag_error", True), ("coh", "coh_dev", "coh_error", False))
    for est, dev, err, mag in pairs:
        for iscsd in (True, False):
            if not iscsd and est in ("Gxy", "Hxy", "coh"): continue
            e, d, r = _gx(T, est, iscsd), _gx(T, dev, iscsd), _gx(T, err, iscsd)
            c = f"{GETATTR}[{dev}|{'cross' if iscsd else 'auto'}]"
            if None in (e, d, r): ctx.unknown("R2-dev=estimate*error", c, "cell without normal form", where); continue
            try:
                ctx.compare("R2-dev=estimate*error", c, d, (e.abs() if mag else e) * r, where, prepare=prepare_env)
            except Unknown as ex:
                ctx.unknown("R2-dev=estimate*error", c, str(ex), where)
    # degree form of the phase error, and its relation to the magnitude error
    rad, deg, mage, coh = _gx(T, "Hxy_rad_error"), _gx(T, "Hxy_deg_error"), _gx(T, "Hxy_mag_error"), _gx(T, "coh")
    c = f"{GETATTR}[Hxy_deg_error|cross]"
    if None in (rad, deg, mage, coh): ctx.unknown("R3-phase-error", c, "cell without normal form", where)
    else:
        ctx.compare("R3-phase-error", c, deg, rad * X.const(180) / X.var("pi"), where, prepare=prepare_env)
        u = (X.const(1) - coh).sqrt()
        ctx.compare("R3-phase-error", f"{GETATTR}[Hxy_rad_error|cross]", rad * u, mage * mk_fn("arcsin", [u]), where, prepare=prepare_env,
                    detail="rad_error = mag_error * arcsin(u)/u with u = sqrt(1-coh); L6 then bounds it by [1, pi/2] * mag_error")
    # 1/sqrt(n) law and provenance of n
    for nm in ERRS:
        for iscsd in (True, False):
            x = _gx(T, nm, iscsd)
            c = f"{GETATTR}[{nm}|{'cross' if iscsd else 'auto'}]"
            if x is None:
                if ref[iscsd].get(nm) is None: continue
                ctx.unknown("R4-shrinks-as-1/sqrt(n)", c, "cell without normal form", where); continue
            try:
                dg = x.degree_in({V("navg"): 1})
                (ctx.holds if dg == Fr(-1, 2) else ctx.violated)("R4-shrinks-as-1/sqrt(n)", c, f"degree in the number of averages is {dg}", where)
            except Unknown as ex:
                ctx.violated("R4-shrinks-as-1/sqrt(n)", c, f"not a power law in the number of averages: {ex}", where)
            rd = T.reads.get((nm, iscsd), set())
            closure = set(); stack = [(nm, iscsd)]
            while stack:
                k = stack.pop()
                for r_ in T.reads.get(k, ()):
                    if r_.startswith("_data."): closure.add(r_[6:])
                    elif (r_, iscsd) not in closure and (r_, iscsd) in T.reads: stack.append((r_, iscsd)); closure.add((r_, iscsd))
            if "K" in closure or "navg" not in closure:
                ctx.violated("R5-n-from-plan", c, "the number of averages must be read from the plan field 'navg' (reads: %s)" % sorted(str(z) for z in closure), where)
            else:
                ctx.holds("R5-n-from-plan", c, "", where)
    table_purity(ctx, cells=tuple(ERRS) + ("Gxx", "Gyy", "Gxy", "Hxy", "coh"), T=T)
    ctx.trust("E4 partial evaluation of __getattr__", "L6 u <= arcsin u <= (pi/2) u on [0,1]", "L8 Cauchy-Schwarz (XX*YY-|XY|^2 >= 0)")
    ctx.assume("exact arithmetic; generic branch (coherence in (0,1), n >= 1)")
    return ("All 12 *_dev/*_error cells x 2 modes are partially evaluated and compared as normal forms with the textbook expressions; "
            "dev = estimate*error, deg = 180/pi*rad, rad_error = mag_error*arcsin(u)/u and the -1/2 power in n are decided from the code's own "
            "normal forms; the read-set shows n is the plan's navg. Declined: the Monte-Carlo agreement with observed scatter.")
