"""C03 - the frequency grid obeys the DFT and stepping constraints."""
from ..sched import *


def check(ctx):
    for name in NAMES:
        def per(A, R, tr, name=name):
            check_grid(A, R, prefix=tr)
            if name == "vectorized_ltf_plan": check_bmin_mask(A, R, prefix=tr)
            elif name != "new_ltf_plan": check_bmin_guard(A, R, prefix=tr)
            else: check_bmin_tested(A, R, prefix=tr)
        for_paths(ctx, ctx.repo, name, per)
    check_lpsd_wrapper(ctx, ctx.repo)
    check_rounding_helper(ctx, ctx.repo)
    # a plan is a function of its configuration: memoised intermediate results must be keyed by every parameter they depend on
    from ..dispatch import check_cache_keys
    check_cache_keys(ctx, rule="R8-memo-key-complete", files=("speckit/schedulers.py", "speckit/utils.py"))
    ctx.trust("E5/E6 loop summarisation (entry symbols for loop-carried values)", "library model rows (np.round, np.clip, np.select, np.searchsorted, masked stores)")
    ctx.assume("exact arithmetic; opaque branch conditions are not interpreted: every path through the scheduler is enumerated and checked")
    return ("Each scheduler is abstractly interpreted with symbolic parameters along every path of its decision tree (branch conditions stay opaque; the "
            "frequency-walk loop body is summarised once per path): stored r times stored L equals fs, next f = stored f + stored r, stored b = f/r (m = b), "
            "first f = bmin*fs/N, the loop runs while f < fs/2 and stores the tested f; lpsd_plan forwards everything unchanged except bmin:=1, Lmin:=1 and "
            "returns ltf_plan's result. Declined: strict monotonicity and the 'not below bmin by more than the rounding of L' bound (numeric).")
