"""C07 - transfer-function estimates recover gain and phase with the right sign."""
from ..symalg import X
from ..values import *
from ..table import *
from ..kernels import KernelEval, check_kernel, FAMILIES, BACKENDS
from ..dispatch import check_dispatch
from ..purity import table_purity


def check(ctx):
    T = Table(ctx.repo); ref = reference()
    ctx.analysed(GETATTR)
    for nm in ("Hxy", "tf", "Hyx", "cf", "cf_rad", "cf_deg", "coh", "Gxy"):
        check_cell(ctx, T, nm, True, ref, "R1-transfer-function-cells")
    KE = KernelEval(ctx.repo)
    for backend in BACKENDS:
        for fam in FAMILIES:
            check_kernel(ctx, KE, fam, "csd", backend, outputs=("MXX", "mu_r", "mu_i"), rule="R2-cross-term-convention")
    check_dispatch(ctx, rule_prefix="R3.", want_roles=True, kaisers=(True,), roles=("x1", "x2", "starts", "L", "omega"))
    # in a band-restricted plan every per-bin quantity the dispatcher reads (f, L, starts, anything plan() derives from them) is restricted by the
    # same mask: otherwise bin i is evaluated at the frequency of bin i of the unrestricted plan (wrong phase slope for a delayed channel)
    from ..dispatch import check_band_mask
    check_band_mask(ctx, rule="R6-band-mask")
    # the input x is the first channel and the output y the second for every accepted layout of the two-channel record (2xN, Nx2, 2x2, list)
    from ..inputs import check_record
    check_record(ctx, rule_s=None, rule_r="R4-channel-routing", rule_c=None)
    # the two channels are transformed from their own samples: no gather buffer is refilled with one channel while the other channel's block in it is in use
    from ..effects import check_scratch_reuse
    check_scratch_reuse(ctx, rule="R5-channel-buffers-not-clobbered")
    table_purity(ctx, cells=("Hxy", "tf", "Hyx", "cf", "cf_rad", "cf_deg", "cf_db", "coh", "Gxy"), T=T)
    ctx.trust("L1/L2 (DFT convention of the Goertzel / direct forms)", "E4 table", "E5 kernels")
    ctx.assume("exact arithmetic", "for y[n]=x[n-d]: V_y = e^{-i w d} V_x up to the d/L edge effect, hence conj(X)Y/|X|^2 has phase -w d")
    return ("The cross statistic returned by all 9 two-channel kernels (Numba, NumPy, CUDA x 3 families) is compared with V_x*conj(V_y) in the e^{-iwn} "
            "convention (sign of the imaginary part included); Hxy = conj(XY)/XX, cf_rad = angle(Hxy), coh are compared as normal forms; every "
            "dispatch configuration routes (x1,x2) to the kernel's (x1,x2) positions. Together: Hxy = <conj(X)Y>/<|X|^2>, negative phase for a lagging "
            "output, on every backend. Declined: |H|=1 up to the d/L edge effect (numeric).")
