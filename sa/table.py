"""E4 - partial evaluation of SpectrumResult.__getattr__: for every attribute name and
both analysis modes the if/elif table is specialised by the abstract interpreter
(name and iscsd concrete, per-bin data symbolic) into an algebraic normal form."""
import ast
from fractions import Fraction as Fr

from .symalg import X, KIND, mk_fn, declare_nonneg, compare, Unknown, C
from .values import *
from .absint import Interp, St
from . import libmodel as lm
from .report import AnalysisError, HOLDS, VIOLATED, UNKNOWN

CLS = "speckit/analysis.py::SpectrumResult"
GETATTR = CLS + ".__getattr__"
DATA_KEYS = ("f", "r", "b", "m", "L", "K", "navg", "D", "O", "nf", "i", "XX", "YY", "XY", "S12", "S2", "M2", "compute_t")
STAT_KEYS = ("XX", "YY", "XY", "S12", "S2", "M2", "navg")

ATTR_ERROR = "<AttributeError>"


def setup_kinds():
    KIND.update({"XX": "pos", "YY": "pos", "S2": "pos", "S12": "pos", "M2": "pos", "navg": "pos", "fs": "pos", "pi": "pos",
                 "XY": "complex", "f": "pos", "r": "pos", "b": "pos", "m": "pos", "L": "pos", "K": "pos", "O": "real",
                 "compute_t": "pos", "nf": "pos", "i": "pos", "D": "real"})
    XX, YY, XY = X.var("XX"), X.var("YY"), X.var("XY")
    declare_nonneg(XX * YY - XY * XY.conj())


def dir_names(repo):
    """literal list of dynamic attribute names advertised by __dir__."""
    fn = repo.get(CLS + ".__dir__")
    best = []
    for n in ast.walk(fn):
        if isinstance(n, ast.List) and n.elts and all(isinstance(e, ast.Constant) and isinstance(e.value, str) for e in n.elts):
            if len(n.elts) > len(best): best = [e.value for e in n.elts]
    return best


def tested_names(repo):
    """names compared against `name` in __getattr__ (==, in [...])."""
    fn = repo.get(GETATTR)
    out = []
    for n in ast.walk(fn):
        if isinstance(n, ast.Compare) and isinstance(n.left, ast.Name) and n.left.id == "name":
            for op, c in zip(n.ops, n.comparators):
                if isinstance(op, ast.Eq) and isinstance(c, ast.Constant) and isinstance(c.value, str): out.append(c.value)
                if isinstance(op, ast.In) and isinstance(c, (ast.List, ast.Tuple)):
                    out += [e.value for e in c.elts if isinstance(e, ast.Constant) and isinstance(e.value, str)]
                if isinstance(op, ast.In) and isinstance(c, ast.Name):
                    # membership in a module-level literal table of names
                    for st_ in repo.module("speckit/analysis.py").body:
                        tg = st_.targets[0] if isinstance(st_, ast.Assign) and len(st_.targets) == 1 else st_.target if isinstance(st_, ast.AnnAssign) else None
                        v_ = getattr(st_, "value", None)
                        if isinstance(tg, ast.Name) and tg.id == c.id:
                            if isinstance(v_, ast.Dict): out += [k.value for k in v_.keys if isinstance(k, ast.Constant) and isinstance(k.value, str)]
                            elif isinstance(v_, (ast.Tuple, ast.List, ast.Set)): out += [e.value for e in v_.elts if isinstance(e, ast.Constant) and isinstance(e.value, str)]
    # names translated through a module-level literal table before the tests:  name = TABLE.get(name, name)  /  TABLE[name]
    for n in ast.walk(fn):
        tb = None
        if isinstance(n, ast.Call) and isinstance(n.func, ast.Attribute) and n.func.attr == "get" and isinstance(n.func.value, ast.Name) and n.args and isinstance(n.args[0], ast.Name) and n.args[0].id == "name":
            tb = n.func.value.id
        elif isinstance(n, ast.Subscript) and isinstance(n.value, ast.Name) and isinstance(n.slice, ast.Name) and n.slice.id == "name" and isinstance(n.ctx, ast.Load):
            tb = n.value.id
        if tb is None: continue
        for st_ in repo.module("speckit/analysis.py").body:
            tg = st_.targets[0] if isinstance(st_, ast.Assign) and len(st_.targets) == 1 else st_.target if isinstance(st_, ast.AnnAssign) else None
            v_ = getattr(st_, "value", None)
            if isinstance(tg, ast.Name) and tg.id == tb and isinstance(v_, ast.Dict):
                out += [k.value for k in v_.keys if isinstance(k, ast.Constant) and isinstance(k.value, str)]
    seen = []
    for x in out:
        if x not in seen: seen.append(x)
    return seen


class Table:
    def __init__(s, repo):
        setup_kinds()
        s.repo = repo
        s.I = Interp(repo)
        s.I.hooks["lib"] = s._lib
        s.memo = {}
        s.events = {}
        s.reads = {}      # (name, iscsd) -> set of data keys / cells read
        s._stack = []

    @staticmethod
    def _lib(I, name, args, kw, st, n):
        """per-bin arrays are carried at a generic bin: an array allocated over the bins (length nf) is its fill value."""
        if name in ("numpy.ones", "numpy.zeros", "numpy.empty", "numpy.full") and args:
            a0 = args[0]
            a0 = a0[0] if isinstance(a0, tuple) and len(a0) == 1 else a0
            if isinstance(a0, X) and a0.eq(X.var("nf")):
                if name == "numpy.ones": return True if _is_bool(kw.get("dtype")) else X.const(1)
                if name == "numpy.zeros": return False if _is_bool(kw.get("dtype")) else X.const(0)
                if name == "numpy.full" and len(args) > 1: return args[1]
                return LocalArr("uninitialised", (X.var("nf"),), None)       # np.empty: whatever the heap held
        return NotImplemented

    def _self_obj(s, iscsd):
        data = Obj("data")
        tbl = s

        def data_hook(kind, o, key, v, st):
            if kind == "getitem":
                if isinstance(key, str):
                    if key in DATA_KEYS:
                        if tbl._stack: tbl.reads.setdefault(tbl._stack[-1], set()).add("_data." + key)
                        return X.var(key)
                    return Opaque(f"unknown data key {key!r}")
                return Opaque("dynamic data key")
            if kind == "contains":
                if isinstance(key, str): return key in DATA_KEYS
                return Opaque("dynamic membership")
            if kind == "setitem":
                st.events.append(("data-write", key))
                return None
            return NotImplemented
        data.hook = data_hook
        # the memo of lazily computed attributes: cold for the attribute being computed; whether ANOTHER attribute happens to be cached depends on
        # the order in which the caller touched the attributes, so such a test is an undetermined (history) condition, and what is found there is
        # that attribute's own value
        cache = Obj("memo")

        def cache_hook(kind, o, key, v, st):
            cur = tbl._stack[-1][0] if tbl._stack else None
            if kind == "contains":
                if not isinstance(key, str): return Opaque("dynamic memo key")
                if key == cur: return False
                c_ = Cond.get(("cached", key), f"'{key}' is already cached (it was read before)")
                return PV(c_, True, False)
            if kind == "getitem":
                if not isinstance(key, str): return Opaque("dynamic memo key")
                if key == cur: return Opaque("memo read of the attribute being computed")
                val_ = tbl.cell(key, iscsd)
                return Opaque(f"AttributeError({key})") if val_ is ATTR_ERROR_V else val_
            if kind == "setitem":
                st.events.append(("memo-write", key)); return None
            if kind == "call":
                name_, (args_, kw_) = key, v
                if name_ == "get" and args_ and isinstance(args_[0], str):
                    if args_[0] == cur: return args_[1] if len(args_) > 1 else None
                    c_ = Cond.get(("cached", args_[0]), f"'{args_[0]}' is already cached (it was read before)")
                    val_ = tbl.cell(args_[0], iscsd)
                    return mk_pv(c_, Opaque(f"AttributeError({args_[0]})") if val_ is ATTR_ERROR_V else val_, args_[1] if len(args_) > 1 else None)
                return Opaque(f"memo.{name_}")
            return NotImplemented
        cache.hook = cache_hook
        me = Obj(CLS, {"iscsd": iscsd, "fs": X.var("fs"), "_cache": cache, "_data": data, "_config": DictVal(open_=True)})

        def self_hook(kind, o, attr, v, st):
            if kind == "getattr":
                if attr.startswith("__"): return NotImplemented
                if isinstance(tbl.repo.index.get(CLS + "." + attr), ast.FunctionDef) and not any(ast.unparse(d_) == "property" for d_ in tbl.repo.index[CLS + "." + attr].decorator_list):
                    return NotImplemented          # an ordinary helper method of the class: interpreted, not a table cell
                if tbl._stack: tbl.reads.setdefault(tbl._stack[-1], set()).add(attr)
                val = tbl.cell(attr, iscsd)
                if val is ATTR_ERROR_V: return Opaque(f"AttributeError({attr})")
                return val
            if kind == "setattr":
                st.events.append(("self-write", attr))
                return None
            return NotImplemented
        me.hook = self_hook
        return me

    def cell(s, name, iscsd):
        k = (name, iscsd)
        if k in s.memo:
            if s.memo[k] is BUSY: raise Unknown(f"cyclic attribute definition through {name}")
            return s.memo[k]
        s.memo[k] = BUSY
        s._stack.append(k)
        st = St()
        try:
            fn = Func(GETATTR, s.repo.get(GETATTR))
            me = s._self_obj(iscsd)
            old = s.I.hooks.get("call")
            fst = St(); fst.mod = "speckit/analysis.py"; fst.fn_key = GETATTR
            fst.env.update({"self": me, "name": name})
            r = s.I.exec_block(fn.node.body, fst)
            if r and r[0] == "raise": val = ATTR_ERROR_V
            elif r and r[0] == "return": val = r[1]
            else: val = Opaque("no return")
            for path, v in reversed(fst.early):
                for cond, pol in reversed(path):
                    val = mk_pv(cond, v, val) if pol else mk_pv(cond, val, v)
            s.events[k] = fst.events
        except Unknown as ex:
            val = Opaque(str(ex)); s.events[k] = []
        finally:
            s._stack.pop()
        s.memo[k] = val
        return val


def _is_bool(d):
    return (isinstance(d, Lib) and d.name in ("builtins.bool", "numpy.bool_", "numpy.bool")) or d is bool


class _Busy:
    pass


BUSY = _Busy()


class _AE:
    def __repr__(s): return ATTR_ERROR


ATTR_ERROR_V = _AE()


# ---------------------------------------------------------------------------- generic branch
STRICT_POS = {"fs", "pi"}


def sign_of(x):
    """+1 / -1 when the sign is certain from atom kinds (data atoms assumed nonzero = generic point)."""
    n, d = x.rational()
    if not (n.single() and d.single()): return None
    s = 1
    for p in (n, d):
        (m, c), = p.t.items()
        if c.im != 0: return None
        if c.re < 0: s = -s
        for a, e in m:
            if a.kind == "pos": continue
            if Fr(e).denominator == 1 and e % 2 == 0: continue
            return None
    return s


def generic(v):
    """value on the generic branch: every tested quantity non-zero / positive."""
    while isinstance(v, PV):
        c = v.cond
        d = getattr(c, "lt", None)
        if d is not None:
            sg = sign_of(d)
            if sg is None: return v
            v = v.hi if sg < 0 else v.lo; continue
        e = getattr(c, "eq", None)
        if e is not None:
            sg = sign_of(e[1] - e[2])
            if sg is None: return v
            v = v.lo; continue
        return v
    return v


def degenerate_leaves(v, path=()):
    """leaves reached when some tested quantity vanishes (all non-generic leaves)."""
    if isinstance(v, PV):
        yield from degenerate_leaves(v.hi, path + ((v.cond, True),))
        yield from degenerate_leaves(v.lo, path + ((v.cond, False),))
    else:
        yield path, v


# ---------------------------------------------------------------------------- reference table (Appendix A.1)
def reference():
    setup_kinds()
    XX, YY, XY, S2, S12, M2, n, fs = [X.var(a) for a in ("XX", "YY", "XY", "S2", "S12", "M2", "navg", "fs")]
    pi = X.var("pi")
    one = X.const(1); two = X.const(2)
    c = two / (fs * S2)
    g = (XY * XY.conj()) / (XX * YY)
    sq = lambda x: x.pow(Fr(1, 2))
    Hxy = XY.conj() / XX
    ENBW = fs * S2 / S12
    deg = X.const(180) / pi
    A = {}    # auto
    Cx = {}   # cross
    for T in (A, Cx):
        T["Gxx"] = c * XX
        T["ENBW"] = ENBW
        T["XX_mean"] = XX
        T["XY_M2"] = M2
        T["XY_emp_var"] = M2 / n
        T["XY_emp_dev"] = sq(M2 / n)
        T["Gxx_dev"] = c * XX / sq(n)
        T["Gxx_error"] = one / sq(n)
    A["Gyy"] = A["Gxx"]; A["Gxy"] = A["Gxx"]; A["YY_mean"] = XX
    A["psd"] = A["G"] = A["Gxx"]; A["asd"] = sq(c * XX); A["ps"] = c * XX * ENBW
    A["Gxx_emp_dev"] = c * sq(M2 / n)
    A["Gyy_dev"] = A["Gxx_dev"]; A["Gyy_error"] = A["Gxx_error"]
    for nm in ("csd", "Gyx", "Hxy", "Hyx", "coh", "ccoh", "cs", "tf", "cf", "cf_db", "cf_rad", "cf_deg", "cf_rad_unwrapped",
               "cf_deg_unwrapped", "GyyCx", "GyyRx", "GyySx", "Gxy_emp_dev", "Hxy_dev", "Gxy_dev", "coh_dev", "Gxy_error",
               "Hxy_mag_error", "Hxy_rad_error", "Hxy_deg_error", "coh_error"):
        A[nm] = None
    Cx["Gyy"] = c * YY; Cx["Gxy"] = c * XY; Cx["YY_mean"] = YY
    for nm in ("psd", "G", "asd", "ps", "Gxx_emp_dev"): Cx[nm] = None
    Cx["csd"] = c * XY; Cx["Gyx"] = (c * XY).conj()
    Cx["Hxy"] = Cx["tf"] = Hxy; Cx["Hyx"] = Hxy.conj()
    Cx["coh"] = g; Cx["ccoh"] = XY / sq(XX * YY)
    Cx["cs"] = c * XY * ENBW
    Cx["cf"] = Hxy.abs()
    Cx["cf_db"] = X.const(20) * mk_fn("log10", [Hxy.abs()])
    ang = mk_fn("angle", [Hxy], "real")
    Cx["cf_rad"] = ang; Cx["cf_deg"] = ang * deg
    from .libcalls import unwrap_form
    unw = unwrap_form(ang)
    Cx["cf_rad_unwrapped"] = unw; Cx["cf_deg_unwrapped"] = unw * deg
    Cx["GyyCx"] = g * c * YY; Cx["GyyRx"] = (one - g) * c * YY; Cx["GyySx"] = (one - g) * c * YY
    Cx["Gxy_emp_dev"] = c * sq(M2 / n)
    Cx["Gyy_dev"] = c * YY / sq(n); Cx["Gyy_error"] = one / sq(n)
    Cx["Gxy_dev"] = (c * XY).abs() / sq(g * n); Cx["Gxy_error"] = one / sq(g * n)
    Cx["Hxy_mag_error"] = sq(one - g) / sq(two * g * n)
    Cx["Hxy_dev"] = Hxy.abs() * Cx["Hxy_mag_error"]
    Cx["Hxy_rad_error"] = mk_fn("arcsin", [sq(one - g)]) / sq(two * g * n)
    Cx["Hxy_deg_error"] = Cx["Hxy_rad_error"] * deg
    Cx["coh_dev"] = sq(two * g) * (one - g) / sq(n)
    Cx["coh_error"] = sq(two) * (one - g) / (sq(g) * sq(n))
    return {False: A, True: Cx}


# groups of names used by the properties
CALIB = ("Gxx", "Gyy", "Gxy", "ENBW", "psd", "G", "asd", "ps", "csd", "cs")
CROSS = ("coh", "ccoh", "Gyx", "Hxy", "Hyx", "tf", "GyyCx", "GyyRx", "GyySx", "Gxy", "Gxx", "Gyy")
ERRS = ("Gxx_dev", "Gyy_dev", "Gxy_dev", "Hxy_dev", "coh_dev", "Gxx_error", "Gyy_error", "Gxy_error", "Hxy_mag_error",
        "Hxy_rad_error", "Hxy_deg_error", "coh_error")
EMP = ("XX_mean", "YY_mean", "XY_M2", "XY_emp_var", "XY_emp_dev", "Gxx_emp_dev", "Gxy_emp_dev")
VIEWS = ("psd", "G", "asd", "ps", "csd", "cs", "tf", "cf", "cf_db", "cf_rad", "cf_deg", "cf_rad_unwrapped", "cf_deg_unwrapped",
         "Gyx", "Hyx", "Hxy")


def prepare_env(env):
    """numeric cross-check: respect Cauchy-Schwarz so that roots stay real."""
    import cmath
    xx = 0.5 + env._u("XX"); yy = 0.5 + env._u("YY")
    if getattr(env, "heavy", False):           # channel powers many decades apart (records in very different units)
        xx = 10.0 ** (60 * env._u("hXX") - 30); yy = 10.0 ** (60 * env._u("hYY") - 30)
    rho = 0.3 + 0.5 * env._u("rho"); ph = 6.28 * env._u("ph")
    env.fixed.update({"XX": xx, "YY": yy, "XY": (xx * yy) ** 0.5 * rho * cmath.exp(1j * ph)})


def count_guard_alternatives(v):
    """v = (navg <op> c ? a : b) with c an integer constant: [(substitution, leaf, description)] for the feasible cases given navg >= 1:
    the one-sided branch stays symbolic, the bounded branch is instantiated at its admissible counts (at most three)."""
    if not isinstance(v, PV): return None
    d = getattr(v.cond, "lt", None)
    if d is None: return None
    n = X.var("navg")
    for sg in (1, -1):
        try: c = (d - n * sg).constval()
        except Unknown: c = None
        if c is None or c.im != 0 or Fr(c.re).denominator != 1: continue
        c = int(c.re)
        # sg=+1: d = navg + c < 0  <=>  navg < -c ; sg=-1: d = -navg + c < 0  <=>  navg > c
        if sg == 1: lo_true, hi_true = 1, -c - 1          # navg in [1, -c-1] on the true branch
        else: lo_true, hi_true = c + 1, None               # navg >= c+1 on the true branch
        out = []
        def bounded(lo, hi, leaf, text):
            if hi is not None and hi < lo: return True      # infeasible for navg >= 1
            if hi is None: out.append(({}, leaf, text)); return True
            if hi - lo > 2: return False
            for k in range(lo, hi + 1): out.append(({"navg": X.const(k)}, leaf, f"{text}, navg = {k}"))
            return True
        t_ok = bounded(max(1, lo_true), hi_true, v.hi, v.cond.text)
        if sg == 1: f_ok = bounded(max(1, -c), None, v.lo, f"not({v.cond.text})")
        else: f_ok = bounded(1, c, v.lo, f"not({v.cond.text})")
        if t_ok and f_ok: return out
        return None
    return None


def feasible_branches(v, seed=0):
    """v = (d < 0 ? a : b) with d a data-dependent quantity: the branches that occur for admissible statistics (sampled over coherences
    from ~0 to ~1 and powers over many decades; Cauchy-Schwarz respected).  The documented function has no case split, so the cell must
    equal it on every branch that can occur."""
    if not isinstance(v, PV): return None
    d = getattr(v.cond, "lt", None)
    if d is None: return None
    from .symalg import NumEnv, evalx
    seen = set()
    for k in range(80):
        env = NumEnv(seed + 100 + k, heavy=(k % 2 == 1))
        prepare_env(env)
        if k % 4 >= 2:
            # coherence very close to 1 or to 0
            import cmath
            xx, yy = env.fixed["XX"], env.fixed["YY"]
            u = env._u("edge")
            rho = (1 - 10.0 ** (-14 * u)) if k % 4 == 2 else 10.0 ** (-14 * u)
            env.fixed["XY"] = (xx * yy) ** 0.5 * rho * cmath.exp(6.28j * env._u("ph2"))
        try:
            val = evalx(d, env)
        except Exception:
            continue
        if val != val: continue
        seen.add(val.real < 0)
    if not seen: return None
    out = []
    if True in seen: out.append(({}, v.hi, v.cond.text))
    if False in seen: out.append(({}, v.lo, f"not({v.cond.text})"))
    return out


def check_cell(ctx, T, name, iscsd, ref, rule):
    """one table cell against the reference entry."""
    construct = f"{GETATTR}[{name}|{'cross' if iscsd else 'auto'}]"
    where = ctx.repo.where(GETATTR, ctx.repo.get(GETATTR))
    try:
        v = T.cell(name, iscsd)
    except Unknown as ex:
        return ctx.unknown(rule, construct, str(ex), where)
    want = ref[iscsd].get(name, "<none>")
    if want == "<none>":
        return ctx.unknown(rule, construct, "no reference entry", where)
    if v is ATTR_ERROR_V:
        return ctx.violated(rule, construct, "attribute lookup raises AttributeError", where)
    if want is None:
        if v is None: return ctx.holds(rule, construct, "not applicable -> None", where)
        if is_opaque(v): return ctx.unknown(rule, construct, v.why, where)
        return ctx.violated(rule, construct, f"quantity does not apply to {'cross' if iscsd else 'auto'} analyses but is not None", where, lhs=v)
    if v is None:
        return ctx.violated(rule, construct, "documented quantity is None for this analysis type", where, rhs=want)
    g = generic(v)
    if is_opaque(g):
        return ctx.ob(rule, construct, VIOLATED if isinstance(g, Mismatch) else UNKNOWN, g.why, where)
    if isinstance(g, PV) and g.cond.key and g.cond.key[0] == "cached":
        # the value is selected by what happens to be in the memo, i.e. by the order in which the caller read the attributes: every alternative
        # must be the documented function
        def walk(v, path):
            v = generic(v)
            if isinstance(v, PV) and v.cond.key and v.cond.key[0] == "cached":
                for pol, leaf in ((True, v.hi), (False, v.lo)):
                    r = walk(leaf, path + [v.cond.text if pol else f"not({v.cond.text})"])
                    if r is not None: return r
                return None
            text = " & ".join(path)
            if is_opaque(v) or isinstance(v, PV) or to_x(v) is None:
                return (UNKNOWN, f"value on the branch [{text}] not recognised", None)
            st, why = compare(to_x(v), want, prepare=prepare_env, seed=ctx.seed)
            if st != HOLDS:
                return (st, f"when {text} the value differs from the documented function (the result depends on the order in which attributes were read) {why}", to_x(v))
            return None
        r = walk(g, [])
        if r is not None: return ctx.ob(rule, construct, r[0], r[1], where, lhs=r[2], rhs=want)
        return ctx.holds(rule, construct, "equal to the documented function whatever is cached already", where)
    if isinstance(g, PV):
        alts = count_guard_alternatives(g)
        if alts is None: alts = feasible_branches(g, ctx.seed)
        if alts is None:
            return ctx.unknown(rule, construct, f"value depends on an unrecognised condition {g.cond}", where)
        # a guard on the segment count (navg >= 1, an integer): the cell must be the reference on the generic branch and at the boundary count
        for sub, leaf, text in alts:
            lg = generic(leaf)
            if is_opaque(lg) or isinstance(lg, PV) or to_x(lg) is None:
                return ctx.unknown(rule, construct, f"value on the branch [{text}] not recognised", where)
            lx, wx = to_x(lg), want
            if sub: lx, wx = lx.subst(sub), want.subst(sub)
            st, why = compare(lx, wx, prepare=prepare_env, seed=ctx.seed)
            if st != HOLDS:
                return ctx.ob(rule, construct, st, f"on the branch [{text}] the value differs from the documented function {why}", where, lhs=lx, rhs=wx)
        return ctx.holds(rule, construct, "equal to the documented function on the generic branch and at the boundary segment count", where)
    gx = to_x(g)
    if gx is None:
        return ctx.unknown(rule, construct, f"non-scalar cell value {g!r}"[:200], where)
    return ctx.compare(rule, construct, gx, want, where, prepare=prepare_env)


def check_cells_history_independent(ctx, T=None, rule="R-attribute-independent-of-access-order"):
    """a lazily computed attribute has ONE value: where its computation looks into the memo for other attributes (whether they were read before),
    every alternative must give the same normal form."""
    T = T or Table(ctx.repo)
    where = ctx.repo.where(GETATTR, ctx.repo.get(GETATTR))
    names = []
    for nm in dir_names(ctx.repo) + tested_names(ctx.repo):
        if nm not in names: names.append(nm)
    probes = 0; bad = 0
    for iscsd in (True, False):
        for nm in names:
            try: v = T.cell(nm, iscsd)
            except Unknown: continue
            if not isinstance(v, PV): continue

            def leaves(v, path):
                v = generic(v) if not (isinstance(v, PV) and v.cond.key and v.cond.key[0] == "cached") else v
                if isinstance(v, PV) and v.cond.key and v.cond.key[0] == "cached":
                    yield from leaves(v.hi, path + [v.cond.text]); yield from leaves(v.lo, path + [f"not({v.cond.text})"])
                else:
                    yield path, v
            ls = list(leaves(v, []))
            if len(ls) < 2: continue
            probes += 1
            c = f"{GETATTR}[{nm}|{'cross' if iscsd else 'auto'}]"
            base_path, base = ls[-1]          # the cold branch (nothing cached)
            verdict = HOLDS; detail = ""
            for path, leaf in ls[:-1]:
                if is_opaque(leaf) or isinstance(leaf, PV) or to_x(leaf) is None or to_x(base) is None:
                    verdict, detail = UNKNOWN, f"value when {' & '.join(path)} not recognised"; continue
                st_, why = compare(to_x(leaf), to_x(base), prepare=prepare_env, seed=ctx.seed)
                if st_ == VIOLATED:
                    verdict, detail = VIOLATED, f"when {' & '.join(path)} the attribute has a different value than when nothing is cached: it depends on the order in which attributes were read {why}"; break
                if st_ != HOLDS and verdict == HOLDS: verdict, detail = UNKNOWN, f"value when {' & '.join(path)}: {why}"
            if verdict == VIOLATED: bad += 1
            ctx.ob(rule, c, verdict, detail or "same value whatever is cached already", where)
    if not probes:
        ctx.holds(rule, GETATTR, f"{len(names)} attributes x 2 modes: no computation consults the memo for another attribute", where)
