"""C13 rules: caller's buffer is never written (E7), record is sanitised or proven finite and the channel views are views of
that record, shape normalisation routes the two channels, guarded divisions."""
import ast

from .symalg import X, KIND, ARRAY_KIND, mk_fn, mk_idx, compare, Unknown
from .values import *
from .absint import Interp, St
from . import libmodel as lm
from .alias import Alias, FRESH, strip, roots
from .effects import Effects
from .model import norm_stmt
from .report import HOLDS, VIOLATED, UNKNOWN
from .dispatch import AN, numeric_chooser, select

INIT = AN + ".__init__"
CALLER_VIEWS = ("self.data", "self.x1", "self.x2")


def check_no_write(ctx, rule="R1-caller-buffer-untouched"):
    repo = ctx.repo
    E = Effects(repo)
    fn = repo.get(INIT); ctx.analysed(INIT)
    A = Alias(fn, resolve=E.resolver(INIT)).run()
    # which attributes alias the caller's array after __init__ ?
    n = 0
    for sk in A.sinks:
        definite, maybe = strip(sk.sources)
        hits = sorted(l for l in definite if roots(l)[0] == "param:data" and "shallow" not in roots(l)[1])
        where = f"speckit/analysis.py:{getattr(sk.node, 'lineno', 0)}"
        construct = f"{INIT}[{norm_stmt(sk.node)[:70]}]"
        if sk.kind == "store" and sk.target.startswith("self.config"):
            continue
        n += 1
        if hits:
            ctx.violated(rule, construct, f"in-place {sk.kind} on {sk.target}, which may be the caller's own array "
                         "(np.asarray / np.ascontiguousarray return their argument unchanged for a C-contiguous float64 ndarray; .T and basic slices are views)", where)
        else:
            ctx.holds(rule, construct, f"{sk.kind} on a value that does not share memory with the argument", where)
    ctx.holds(rule, INIT, f"{n} in-place sites examined", repo.where(INIT, fn))
    # methods that hand the stored record to kernels: no sink on self.data / x1 / x2 or on anything derived from them
    for meth in ("_lpsd_core", "compute_single_bin", "compute", "plan", "_process_window_config", "_process_scheduler_config"):
        key = f"{AN}.{meth}"
        if not repo.has(key): continue
        f2 = repo.get(key); ctx.analysed(key)
        A2 = Alias(f2, resolve=E.resolver(key), shared_paths=CALLER_VIEWS).run()
        m = 0
        for sk in A2.sinks:
            definite, maybe = strip(sk.sources)
            hits = sorted(l for l in definite if roots(l)[0] in CALLER_VIEWS and "shallow" not in roots(l)[1])
            if not hits: continue
            m += 1
            where = f"speckit/analysis.py:{getattr(sk.node, 'lineno', 0)}"
            ctx.violated(rule, f"{key}[{norm_stmt(sk.node)[:70]}]",
                         f"in-place {sk.kind} on {sk.target} ({sk.detail}) reaches {', '.join(hits)}, a view of the record that may be the caller's own array", where)
        ctx.holds(rule, key, f"{len(A2.sinks)} in-place sites examined, {m} reach the stored record", repo.where(key, f2))
    # kernels: which positions receive the stored record is read off the dispatchers (partial evaluation of both dispatch methods over orders x
    # modes x backends); a kernel (with everything it calls: the effect summaries are transitive) must not write what it receives there.
    # CUDA device kernels are launched on whatever the host wrapper hands them (numba copies host arrays back after the launch): they may
    # only write their result slots.
    from .dispatch import run_core, run_single, BACKENDS, setup as _dsetup
    _dsetup()
    recpos = {}
    for order in (-1, 0, 1, 2):
        for iscsd in (False, True):
            for backend in BACKENDS:
                for runner in (lambda: run_core(repo, order, iscsd, backend, True), lambda: run_single(repo, order, iscsd, backend, True, True)):
                    try: R, _ = runner()
                    except Unknown: continue
                    for kkey, kargs, kkw, knode in R.kcalls:
                        for i_, a_ in enumerate(kargs):
                            if isinstance(a_, ArrParam) and a_.name in ("x1", "x2"): recpos.setdefault(kkey, set()).add(i_)
    ctx.need("kernels reached by the dispatchers with the record in a known position", len(recpos), 12)
    k = 0
    for rel in ("speckit/core.py", "speckit/core_cuda.py"):
        for key, f3 in repo.functions_in(rel, lambda q, n_: q.startswith(("_stats_", "_gather", "_reduce", "_apply", "_goertzel", "_check"))):
            sm = E.summary(key); k += 1
            params = sm["params"]
            ctx.analysed(key)
            if key in recpos:
                bad = [params[i] for i in sorted(sm["writes_param"]) if i in recpos[key]]
                why = "the dispatcher passes a view of the stored record (and thereby possibly the caller's array) in that position"
            elif key.endswith("_cuda_kernel"):
                bad = [params[i] for i in sorted(sm["writes_param"]) if params[i] not in ("xx", "yy", "xyr", "xyi")]
                why = "a device kernel may only write its result slots: numba copies host arguments back after the launch"
            else:
                bad = []          # helpers: covered through the transitive summaries of the kernels that call them
            if bad:
                sk = sm["sinks"][params.index(bad[0])][0]
                ctx.violated(rule, key, f"kernel writes its input parameter {bad[0]} in place ({sk.kind}: {sk.detail}); {why}", f"{rel}:{getattr(sk.node, 'lineno', 0)}")
            else:
                ctx.holds(rule, key, "does not write the record it is handed" if key in recpos else "writes only its own buffers" if key.endswith("_cuda_kernel") else
                          "helper (its writes are accounted for in the summaries of the kernels that call it)", repo.where(key, f3))
    ctx.need("kernel / helper functions summarised for effects", k, 28)
    return E


# ---------------------------------------------------------------------------- sanitise + routing by abstract interpretation
class _Fin:
    pass


def run_init(repo, shape, label):
    """interpret SpectrumAnalyzer.__init__ with a symbolic input of the given shape."""
    I = Interp(repo)
    ARRAY_KIND["data"] = "real"
    tests = []

    def lib(I_, name, args, kw, st, n):
        if name == "numpy.isfinite":
            a = args[0]
            r = Obj("isfinite"); r.attrs["of"] = a
            return r
        if name == "numpy.all" and args and isinstance(args[0], Obj) and args[0].cls == "isfinite":
            a = args[0].attrs["of"]
            k = vkey(a) if not isinstance(a, X) else ("X", a.keystr())
            c = Cond.get(("allfinite", repr(k)), "all-finite(record)")
            c.finite_of = a
            tests.append(c)
            return PV(c, True, False)
        if name in ("numpy.isnan", "numpy.isinf") and args:
            a = args[0]
            r = Obj("nonfinite-probe"); r.attrs["of"] = a; r.attrs["what"] = name.split(".")[-1]
            return r
        if name in ("numpy.any", "builtins.bool", "builtins.any") and args and isinstance(args[0], Obj) and args[0].cls == "nonfinite-probe":
            c = Cond.get(("weakprobe", repr(id(args[0]))), f"{args[0].attrs['what']}-probe(record)")
            c.weak_probe = args[0].attrs["what"]
            return PV(c, True, False)
        if name == "numpy.nan_to_num":
            a = args[0]
            zero = all((to_x(kw.get(z)) is not None and to_x(kw.get(z)).iszero()) for z in ("nan", "posinf", "neginf"))
            st.events.append(("nan_to_num", a, dict(kw), n))
            tag = "san" if zero else "san_partial"

            def one(a_):
                if is_opaque(a_): return a_
                A = as_arr(a_) if not isinstance(a_, LocalArr) else None
                if A is None: return Opaque("nan_to_num of " + type(a_).__name__)
                return Arr(A.axes, lift1(lambda b: mk_fn(tag, [b]), A.body))
            return pv_apply(one, a)
        if name.startswith("logging."): return None
        return NotImplemented
    I.hooks["lib"] = lib

    def call(I_, fn, args, kwargs, st, node):
        nm = fn.key.split("::")[-1]
        if nm.endswith("._process_window_config") or nm.endswith("._process_scheduler_config"): return None
        return NotImplemented
    I.hooks["call"] = call
    me = Obj(AN)
    data = ArrParam("data", len(shape), shape=tuple(shape))
    KIND.update({"fs": "pos", "n": "nat"})
    kwargs = {}
    st = St()
    r = I.call_func(Func(INIT, repo.get(INIT)), [me, data, X.var("fs")], kwargs, st, None)
    return me, st, tests


def check_record(ctx, rule_s="R2-sanitised-or-finite", rule_r="R3-channel-routing", rule_c=None):
    repo = ctx.repo
    fn = repo.get(INIT); where = repo.where(INIT, fn)
    n = X.var("n")
    choose = numeric_chooser({"n": 1000.0, "fs": 1.0})
    classes = [("2xN", (X.const(2), n), lambda c, j: mk_idx("data", [X.const(c), j])),
               ("Nx2", (n, X.const(2)), lambda c, j: mk_idx("data", [j, X.const(c)])),
               ("2x2", (X.const(2), X.const(2)), lambda c, j: mk_idx("data", [X.const(c), j])),
               ("1-D", (n,), lambda c, j: mk_idx("data", [j]))]
    for label, shape, elem in classes:
        try:
            me, st, tests = run_init(repo, shape, label)
        except Unknown as ex:
            ctx.unknown(rule_r, f"{INIT}[{label}]", str(ex), where); continue
        two = len(shape) == 2
        iscsd = me.attrs.get("iscsd")
        iscsd = select(iscsd, choose) if iscsd is not None else None
        if iscsd is not (True if two else False):
            ctx.ob(rule_r, f"{INIT}[{label}:mode]", VIOLATED if isinstance(iscsd, bool) else UNKNOWN,
                   f"{label} input is analysed as {'two-channel' if iscsd else 'single-channel'} ({iscsd!r})", where)
            continue
        treat = {}       # channel -> set of (finiteness case, sanitised?) seen on its leaves
        for ci, attr in enumerate(("x1", "x2") if two else ("x1",)):
            v = me.attrs.get(attr)
            c = f"{INIT}[{label}:{attr}]"
            if v is None:
                ctx.violated(rule_r, c, f"self.{attr} is not set for a {label} input", where); continue
            # leaves: (path, value); shape conditions resolved at the generic point, finiteness conditions kept
            leaves = _leaves_fin(v, choose)
            if not leaves:
                ctx.unknown(rule_r, c, f"self.{attr} not recognised: {v!r}"[:200], where); continue
            for fin, leaf in leaves:
                A = as_arr(leaf) if not is_opaque(leaf) else None
                tagc = f"{c}[{'record passing/failing a weak non-finite probe' if fin == 'weak' else 'finite record' if fin else 'record with NaN/Inf' if fin is False else 'any record'}]"
                if A is None or A.ndim != 1:
                    ctx.ob(rule_r, tagc, UNKNOWN if (is_opaque(leaf) or A is None) else VIOLATED, f"self.{attr} is {leaf!r}"[:200], where); continue
                jv, cnt = A.axes[0]
                body = select(A.body, choose)
                raw = elem(ci, X.var(jv))
                want_len = X.const(2) if label == "2x2" else n
                okl, _ = compare(cnt, want_len)
                if is_opaque(body) or isinstance(body, PV) or to_x(body) is None:
                    ctx.unknown(rule_r, tagc, f"element {body!r}"[:200], where); continue
                b = to_x(body)
                san = mk_fn("san", [raw])
                if b.eq(raw) or b.eq(san):
                    if okl == HOLDS: ctx.holds(rule_r, tagc, f"channel {ci + 1} = " + ("row" if label != "Nx2" else "column") + f" {ci} of the input", where)
                    else: ctx.violated(rule_r, tagc, f"channel has length {cnt!r}, expected {want_len!r}", where)
                else:
                    ctx.violated(rule_r, tagc, f"self.{attr}[j] is {b!r}; for a {label} input channel {ci + 1} must be {raw!r}", where, lhs=b, rhs=raw)
                    continue
                treat.setdefault(attr, set()).add((fin, bool(b.eq(san))))
                # sanitising
                if rule_s is None: continue
                if fin == "weak":
                    if b.eq(san): ctx.holds(rule_s, tagc, "sanitised on this branch", where)
                    else: ctx.violated(rule_s, tagc, "the record is used unsanitised on a branch guarded only by an aggregate probe (isnan/isinf of a sum or similar): a record whose "
                                       "non-finite samples are all +inf (or all -inf) passes isnan(sum), so inf reaches the kernels", where)
                elif fin is False:
                    if b.eq(san): ctx.holds(rule_s, tagc, "non-finite samples replaced by zeros before the channel view is taken", where)
                    else:
                        part = mk_fn("san_partial", [raw])
                        ctx.violated(rule_s, tagc, ("the record is sanitised without nan=0, posinf=0, neginf=0 (np.nan_to_num maps +-inf to +-1.8e308 by default)" if b.eq(part) else
                                     f"on the path where the record contains NaN/Inf the kernels are handed self.{attr} = {b!r}: the raw, unsanitised samples "
                                     "(the channel view was taken from a different array than the sanitised one)"), where)
                elif fin is True:
                    ctx.holds(rule_s, tagc, "record tested finite", where)
                else:
                    (ctx.holds if b.eq(san) else ctx.violated)(rule_s, tagc, "sanitised unconditionally" if b.eq(san) else
                                                              "record is neither tested finite nor sanitised on this path", where)
        if rule_c is not None and two and "x1" in treat and "x2" in treat:
            c_ = f"{INIT}[{label}:x1~x2]"
            if treat["x1"] == treat["x2"]: ctx.holds(rule_c, c_, "both channels are views of the same (sanitised or finite) record", where)
            else:
                ctx.violated(rule_c, c_, f"the two channels are not treated alike: x1 {sorted(map(str, treat['x1']))} vs x2 {sorted(map(str, treat['x2']))} (finiteness case, sanitised): one channel is a view of "
                             "the sanitised copy while the other still views the raw record, so a channel behaves differently in a pair than alone / in the other position", where)
        # the finiteness test must be on the stored record itself
        for t in (tests[:1] if rule_s is not None else []):
            a = getattr(t, "finite_of", None)
            ctx.holds(rule_s, f"{INIT}[{label}:test]", "finiteness tested on the stored record", where) if a is not None else None


def _leaves_fin(v, choose):
    """[(finite flag or None, leaf)] with non-finiteness conditions kept and all others chosen generically."""
    out = []

    def walk(x, fin):
        if isinstance(x, PV):
            if x.cond.key[0] == "allfinite":
                walk(x.hi, True); walk(x.lo, False); return
            if x.cond.key[0] == "weakprobe":
                # isnan(...)/isinf(...) of an aggregate: passing it does not establish that every sample is finite
                walk(x.hi, "weak"); walk(x.lo, "weak"); return
            t = choose(x.cond)
            if t is None:
                out.append((fin, Opaque(f"undecided condition {x.cond}"))); return
            walk(x.hi if t else x.lo, fin); return
        if isinstance(x, Arr) and isinstance(x.body, PV):
            # the case split sits inside the element expression: hoist it (same conditions, elementwise)
            c = x.body.cond
            walk(PV(c, Arr(x.axes, x.body.hi), Arr(x.axes, x.body.lo)), fin); return
        out.append((fin, x))
    walk(v, None)
    return out


# ---------------------------------------------------------------------------- guarded divisions in the attribute table
def check_guards(ctx, rule_g="R4-guard-is-divisor", rule_u="R5-unguarded-divisors"):
    from .table import Table, GETATTR, dir_names, tested_names, generic, STRICT_POS
    T = Table(ctx.repo)
    names = []
    for nm in dir_names(ctx.repo) + tested_names(ctx.repo):
        if nm not in names: names.append(nm)
    where = ctx.repo.where(GETATTR, ctx.repo.get(GETATTR))
    seen = set(); ng = 0; cells_div = set()
    for iscsd in (True, False):
        for nm in names:
            try: T.cell(nm, iscsd)
            except Unknown: continue
            for ev in T.events.get((nm, iscsd), []):
                if ev[0] != "divide": continue
                cells_div.add(nm)
                _, a, b, wherev, out, node = ev
                # one quotient = one (site, divisor, guard): a shared helper's np.divide serves several cells
                k_ = (id(node), repr(generic(b))[:300], repr(wherev)[:300])
                if k_ in seen: continue
                shared = any(k2[0] == id(node) for k2 in seen)
                seen.add(k_); ng += 1
                c = f"{GETATTR}[np.divide at '{' '.join(ast.unparse(node).split())[:50]}'{' for ' + nm if shared else ''}]"
                w2 = f"speckit/analysis.py:{node.lineno}"
                bx = to_x(generic(b)) if not is_opaque(b) else None
                if bx is None:
                    ctx.unknown(rule_g, c, f"divisor {b!r}"[:200], w2); continue
                if wherev is None:
                    ctx.violated(rule_g, c, "np.divide without where=: a zero divisor yields inf/nan", w2); continue
                need = {a_.name for a_ in bx.all_atoms() if a_.tag == "v" and a_.name not in STRICT_POS}
                tested = set(); ok_shape = True
                # where must be a conjunction of (atom != 0) / (atom > 0)
                path_true = [p for p, leaf in pv_leaves(wherev) if leaf is True]
                if len(path_true) != 1: ok_shape = False
                else:
                    for cond, pol in path_true[0]:
                        e = getattr(cond, "eq", None); d = getattr(cond, "lt", None)
                        if e is not None and pol is False: tested |= {a_.name for a_ in (e[1] - e[2]).all_atoms() if a_.tag == "v"}
                        elif d is not None and pol is True: tested |= {a_.name for a_ in d.all_atoms() if a_.tag == "v"}
                        else: ok_shape = False
                outv = generic(out) if out is not None else None
                out_ok = out is not None and to_x(outv) is not None and to_x(outv).iszero()
                if isinstance(outv, LocalArr) and not outv.stores and to_x(outv.fill) is not None and to_x(outv.fill).iszero(): out_ok = True     # np.zeros(shape)
                if isinstance(outv, Arr) and to_x(outv.body) is not None and to_x(outv.body).iszero(): out_ok = True
                # a defined array as out= keeps finite values in the guarded-away bins (what those values mean is C10/C11/C20's business)
                if not out_ok and out is not None and not (isinstance(outv, LocalArr) and outv.fill is None and not outv.stores) and not is_opaque(outv): out_ok = True
                if not ok_shape:
                    ctx.unknown(rule_g, c, f"where= is not a conjunction of non-vanishing tests: {wherev!r}"[:200], w2)
                elif need - tested:
                    ctx.violated(rule_g, c, f"the divisor vanishes with {sorted(need - tested)} but the guard only tests {sorted(tested)}: division by zero gives inf/nan for "
                                 "all-zero or constant records", w2)
                elif tested - need:
                    ctx.violated(rule_g, c, f"the guard also tests {sorted(tested - need)}, which the divisor does not contain: values are zeroed where the quotient is well defined", w2)
                elif not out_ok:
                    ctx.violated(rule_g, c, "out= is not a zero array: guarded-away bins keep uninitialised or non-zero values", w2)
                else:
                    ctx.holds(rule_g, c, f"guard tests exactly {sorted(need)}", w2)
    # floor on the number of attributes whose value is a guarded quotient (helpers may share one np.divide site between several of them)
    ctx.need("attributes computed as guarded quotients", len(cells_div), 9)
    ctx.extra["guarded_quotient_sites"] = ng
    # rounding-robust roots: a square root of a difference that can cancel must be protected (abs / maximum / clip)
    seen = set(); nr = 0
    for iscsd in (True, False):
        for nm in names:
            for ev in T.events.get((nm, iscsd), []):
                if ev[0] != "sqrt": continue
                _, arg, node = ev
                if id(node) in seen: continue
                seen.add(id(node)); nr += 1
                c = f"{GETATTR}[{' '.join(ast.unparse(node).split())[:60]}]"
                w2 = f"speckit/analysis.py:{node.lineno}"
                g = generic(arg)
                x = to_x(g) if not is_opaque(g) and not isinstance(g, PV) else None
                if x is None:
                    ctx.unknown(rule_u, c, f"root argument {arg!r}"[:200], w2); continue
                a0 = node.args[0] if node.args else None
                protected = isinstance(a0, ast.Call) and (ast.unparse(a0.func).split(".")[-1] in ("abs", "absolute", "fabs", "maximum", "clip", "fmax", "nan_to_num"))
                cancels = any(_mixed_signs(pl) and (e % 2 != 0 if float(e).is_integer() else True) for k_, (pl, e) in x.p.items())
                if cancels and not protected:
                    ctx.violated(rule_u, c, "square root of a difference that is zero in exact arithmetic for fully coherent bins (every single-segment bin) and can round "
                                 "to -1e-16: the result is NaN although the coherence is positive; the sibling formulas protect it with np.abs", w2, lhs=x)
                else:
                    ctx.holds(rule_u, c, "argument cannot cancel to a negative value" if not cancels else "protected by abs/maximum/clip", w2)
    ctx.need("square roots in the attribute table", nr, 8)
    return T


def _mixed_signs(pl):
    pos = any(c.re > 0 for c in pl.t.values()); neg = any(c.re < 0 for c in pl.t.values())
    return pos and neg
