"""Abstract value domain of the interpreter (E3/E5): algebraic normal forms, decision
trees over opaque branch conditions, array expressions with named axes."""
from fractions import Fraction as Fr

from .symalg import X, Unknown, mk_fn, mk_idx, mk_sum, V, Atom, C, KIND


class Opaque:
    """a value outside the modelled fragment; propagates (taint)."""
    __slots__ = ("why",)

    def __init__(s, why=""): s.why = why
    def __repr__(s): return f"<?{s.why}>"


class OpaqueNum(Opaque):
    """an unmodelled *numeric* value (failed arithmetic): certainly not None / not a container."""


class Mismatch(Opaque):
    """definitely not the expected idiom (all parts recognised, but different)."""


class AlwaysRaises(Opaque):
    """value of a call that raises on every path reachable under the current path assumptions."""


def is_opaque(v): return isinstance(v, Opaque)


class Cond:
    """opaque branch condition 'lhs op rhs', canonicalised as (d = lhs-rhs) op 0."""
    _reg = {}
    _order = []

    def __init__(s, key, text):
        s.key = key; s.text = text; s.idx = len(Cond._order)
        Cond._order.append(s)

    @staticmethod
    def get(key, text):
        c = Cond._reg.get(key)
        if c is None:
            c = Cond(key, text); Cond._reg[key] = c
        return c

    def __repr__(s): return s.text


class PV:
    """decision tree: if cond then hi else lo (conds ordered by creation index)."""
    __slots__ = ("cond", "hi", "lo")

    def __init__(s, cond, hi, lo): s.cond = cond; s.hi = hi; s.lo = lo

    def __repr__(s): return f"({s.cond} ? {s.hi!r} : {s.lo!r})"


def vkey(v):
    """structural key for value equality (used for merging)."""
    if isinstance(v, X): return ("X", v.keystr())
    if isinstance(v, PV): return ("PV", v.cond.key, vkey(v.hi), vkey(v.lo))
    if isinstance(v, Opaque): return ("?", id(v))
    if isinstance(v, (tuple, list)): return (type(v).__name__,) + tuple(vkey(e) for e in v)
    if isinstance(v, Arr): return ("Arr", tuple((a, c.keystr() if isinstance(c, X) else repr(c)) for a, c in v.axes), vkey(v.body))
    if isinstance(v, (str, bool, int, float, type(None))): return ("c", repr(v))
    return ("id", id(v))


def _tests(v, cond, depth=0):
    if isinstance(v, PV) and depth < 12:
        return v.cond is cond or _tests(v.hi, cond, depth + 1) or _tests(v.lo, cond, depth + 1)
    return False


def mk_pv(cond, hi, lo):
    # below a test of `cond` the same test is already decided: leaves that would contradict it are unreachable and must not survive
    if isinstance(hi, PV) and _tests(hi, cond): hi = pv_restrict(hi, cond, True)
    if isinstance(lo, PV) and _tests(lo, cond): lo = pv_restrict(lo, cond, False)
    if vkey(hi) == vkey(lo): return hi
    return PV(cond, hi, lo)


def pv_apply(f, *vals):
    """apply f pointwise over decision trees."""
    top = None
    for v in vals:
        if isinstance(v, PV) and (top is None or v.cond.idx < top.idx): top = v.cond
    if top is None:
        return f(*vals)
    his = [v.hi if (isinstance(v, PV) and v.cond is top) else v for v in vals]
    los = [v.lo if (isinstance(v, PV) and v.cond is top) else v for v in vals]
    return mk_pv(top, pv_apply(f, *his), pv_apply(f, *los))


def pv_restrict(v, cond, polarity):
    """value of v under the assumption cond == polarity."""
    if isinstance(v, PV):
        if v.cond is cond:
            return pv_restrict(v.hi if polarity else v.lo, cond, polarity)
        return mk_pv(v.cond, pv_restrict(v.hi, cond, polarity), pv_restrict(v.lo, cond, polarity))
    if isinstance(v, Arr):
        return Arr(v.axes, pv_restrict(v.body, cond, polarity))
    if isinstance(v, tuple): return tuple(pv_restrict(e, cond, polarity) for e in v)
    return v


def pv_leaves(v, path=()):
    """yield (path, leaf) with path = tuple of (cond, polarity)."""
    if isinstance(v, PV):
        yield from pv_leaves(v.hi, path + ((v.cond, True),))
        yield from pv_leaves(v.lo, path + ((v.cond, False),))
    else:
        yield path, v


def path_text(path):
    return " & ".join((c.text if pol else f"not({c.text})") for c, pol in path) or "always"


# ---------------------------------------------------------------------------- arrays
class Arr:
    """array expression: axes = ((var, count X), ...), body in terms of the axis variables."""
    __slots__ = ("axes", "body")

    def __init__(s, axes, body):
        s.axes = tuple(axes); s.body = body

    @property
    def ndim(s): return len(s.axes)

    def __repr__(s):
        return "Arr[" + ",".join(f"{a}<{c!r}" for a, c in s.axes) + f"]({s.body!r})"


_fresh = [0]


def fresh(prefix="t"):
    _fresh[0] += 1
    return f"{prefix}${_fresh[0]}"


class ArrParam:
    """opaque named input array (kernel parameter, window, data record)."""
    __slots__ = ("name", "ndim", "kind", "known", "bin", "built")

    def __init__(s, name, ndim=1, kind="real", shape=None):
        s.name = name; s.ndim = ndim; s.kind = kind; s.known = shape; s.bin = None; s.built = None

    def __repr__(s): return f"@{s.name}"

    def shape(s, k):
        if s.known is not None and s.known[k] is not None: return s.known[k]
        KIND.setdefault(f"{s.name}.shape{k}", "nat")
        return X.var(f"{s.name}.shape{k}")

    def as_arr(s):
        axes = []; idx = []
        for k in range(s.ndim):
            v = fresh("i"); axes.append((v, s.shape(k))); idx.append(X.var(v))
        return Arr(axes, mk_idx(s.name, idx, s.kind))


class LocalArr:
    """locally allocated array filled by element stores (np.empty / np.zeros / cuda.local.array)."""
    __slots__ = ("name", "shape", "fill", "stores", "ident")

    def __init__(s, name, shape, fill=None):
        s.name = name; s.shape = tuple(shape); s.fill = fill; s.stores = []
        s.ident = fresh("loc")

    def __repr__(s): return f"Local({s.name},{len(s.stores)} stores)"


class ListVal:

    def __init__(s, items=None):
        s.items = list(items or []); s.per_iter = []

    def __repr__(s): return f"List({len(s.items)} items, {len(s.per_iter)} per-iteration)"


class DictVal:
    __slots__ = ("d", "open")

    def __init__(s, d=None, open_=False):
        s.d = dict(d or {}); s.open = open_

    def __repr__(s): return "Dict{" + ",".join(map(str, s.d)) + "}"


class Obj:
    """abstract object (self)."""

    def __init__(s, cls=None, attrs=None):
        s.cls = cls; s.attrs = dict(attrs or {})

    def __repr__(s): return f"Obj<{s.cls}>"


class Func:
    """package function reference."""
    __slots__ = ("key", "node", "closure")

    def __init__(s, key, node, closure=None):
        s.key = key; s.node = node; s.closure = closure

    def __repr__(s): return f"Func<{s.key}>"


class Lib:
    """library callable / module by canonical dotted name."""
    __slots__ = ("name",)

    def __init__(s, name): s.name = name
    def __repr__(s): return f"Lib<{s.name}>"


class BoundMethod:
    __slots__ = ("obj", "name")

    def __init__(s, obj, name): s.obj = obj; s.name = name
    def __repr__(s): return f"Method<{s.name}>"


# ---------------------------------------------------------------------------- scalar helpers
def to_x(v):
    if isinstance(v, X): return v
    if isinstance(v, bool): return X.const(1 if v else 0)
    if isinstance(v, int): return X.const(v)
    if isinstance(v, float): return X.const(Fr(str(v)))
    if isinstance(v, complex): return X(C(Fr(str(v.real)), Fr(str(v.imag))))
    return None


def _pos_x(x):
    n, d = x.rational()
    if not (n.single() and d.single()): return False
    for p in (n, d):
        (m, c), = p.t.items()
        if c.im != 0 or c.re <= 0: return False
        for a, e in m:
            if a.kind != "pos": return False
    return True


def scal_op(op, a, b):
    """binary op on scalars (X or python numbers); returns X or Opaque."""
    xa, xb = to_x(a), to_x(b)
    if xa is None or xb is None:
        return Opaque(f"non-numeric operand for {op}")
    try:
        if op == "+": return xa + xb
        if op == "-": return xa - xb
        if op == "*": return xa * xb
        if op == "/":
            if xb.iszero(): return OpaqueNum("division by literal zero")
            return xa / xb
        if op == "**":
            c = xb.constval()
            if c is not None and c.im == 0:
                return xa.pow(c.re)
            return mk_fn("pow", [xa, xb], "pos" if _pos_x(xa) else "real")
        if op == "//":
            cb = xb.as_int()
            if cb is not None and cb > 1:
                # ceiling division idiom: (a + c - 1) // c == ceil(a / c) for integer a and a positive integer constant c
                from .libmodel import is_integer
                a_ = xa - (cb - 1)
                try:
                    if is_integer(a_): return mk_fn("ceil", [a_ / xb])
                except Exception: pass
            return mk_fn("floor", [xa / xb])
        if op == "%":
            return mk_fn("mod", [xa, xb])
    except Unknown as ex:
        return OpaqueNum(str(ex))
    return Opaque(f"operator {op}")


def lift2(op, a, b):
    """binary op over scalars / PV / Arr / Opaque with numpy broadcasting."""
    if is_opaque(a): return a
    if is_opaque(b): return b
    if type(a).__name__ == "Masked" or type(b).__name__ == "Masked":
        ma = type(a).__name__ == "Masked"; mb = type(b).__name__ == "Masked"
        if ma and mb:
            if a.mask is not b.mask: return Opaque("arithmetic on arrays compacted with different masks")
            return type(a)(lift2(op, a.arr, b.arr), a.mask)
        if ma: return type(a)(lift2(op, a.arr, b), a.mask)
        return type(b)(lift2(op, a, b.arr), b.mask)
    if isinstance(a, (Arr, ArrParam, LocalArr)) or isinstance(b, (Arr, ArrParam, LocalArr)):
        return arr_op2(op, a, b)
    def leaf(x, y):
        if is_opaque(x): return x
        if is_opaque(y): return y
        if isinstance(x, (Arr, ArrParam, LocalArr)) or isinstance(y, (Arr, ArrParam, LocalArr)): return arr_op2(op, x, y)
        return scal_op(op, x, y)
    return pv_apply(leaf, a, b)


def lift1(f, a):
    if is_opaque(a): return a
    if type(a).__name__ == "Masked": return type(a)(lift1(f, a.arr), a.mask)      # elementwise functions commute with compaction
    if isinstance(a, ArrParam): a = a.as_arr()
    if isinstance(a, Arr):
        return Arr(a.axes, lift1(f, a.body))

    def g(x):
        if is_opaque(x): return x
        if isinstance(x, (Arr, ArrParam)): return lift1(f, x)
        xx = to_x(x)
        if xx is None: return Opaque("non-numeric operand")
        try: return f(xx)
        except Unknown as ex: return OpaqueNum(str(ex))
    return pv_apply(g, a)


def as_arr(v):
    if isinstance(v, Arr): return v
    if isinstance(v, ArrParam): return v.as_arr()
    return None


DEFN = {}     # definitional atoms: name -> decision tree it stands for


def name_pv(pv, prefix="cnt"):
    """give a decision-tree valued scalar a name (an atom) so that it can be used as a loop bound / array length."""
    k = vkey(pv)
    for nm, (kk, v) in DEFN.items():
        if kk == k: return X.var(nm)
    nm = fresh(prefix); KIND[nm] = "nat"
    DEFN[nm] = (k, pv)
    return X.var(nm)


def expand_defn(v, depth=0):
    """substitute definitional atoms back (leaf-wise)."""
    if depth > 6: return v
    names = [n for n in _fv_val(v) if n in DEFN]
    if not names: return v
    nm = names[0]
    pv = DEFN[nm][1]
    r = pv_apply(lambda leaf: subst_val(v, {nm: to_x(leaf)}) if to_x(leaf) is not None else Opaque("definition leaf"), pv)
    return expand_defn(r, depth + 1)


def _fv_val(v):
    if isinstance(v, X): return v.fv()
    if isinstance(v, PV): return _fv_val(v.hi) | _fv_val(v.lo) | _cond_fvs(v.cond)
    if isinstance(v, Arr):
        out = _fv_val(v.body)
        for a, c in v.axes:
            if isinstance(c, X): out = out | c.fv()
        return out
    if isinstance(v, tuple):
        out = set()
        for e in v: out |= _fv_val(e)
        return out
    return set()


def _cond_fvs(c):
    d = getattr(c, "lt", None)
    if d is not None: return d.fv()
    e = getattr(c, "eq", None)
    if e is not None: return e[1].fv() | e[2].fv()
    t = getattr(c, "tree", None)
    if t is not None: return _fv_val(t)
    fo = getattr(c, "finite_elem", None)
    if fo is not None: return fo.fv()
    return set()


def subst_cond(cond, mapping):
    """re-decide a condition after substitution: True / False / Cond."""
    d = getattr(cond, "lt", None)
    if d is not None:
        if not (d.fv() & set(mapping)): return cond
        nd = d.subst(mapping)
        c = nd.constval()
        if c is not None and c.im == 0: return c.re < 0
        nc = Cond.get(("lt", nd.keystr()), f"{nd!r} < 0"); nc.lt = nd
        return nc
    tree = getattr(cond, "tree", None)
    if tree is not None:
        nt = subst_val(tree, mapping)
        if isinstance(nt, bool): return nt
        if vkey(nt) == vkey(tree): return cond
        if isinstance(nt, PV) and nt.hi is True and nt.lo is False: return nt.cond
        nc = Cond.get(("tree", vkey(nt)), repr(nt)); nc.tree = nt
        return nc
    e = getattr(cond, "eq", None)
    if e is not None:
        if not ((e[1].fv() | e[2].fv()) & set(mapping)): return cond
        a, b = e[1].subst(mapping), e[2].subst(mapping)
        dd = a - b
        c = dd.constval()
        if c is not None: return c.iszero()
        from .symalg import _looks_negative
        if _looks_negative(dd): dd = -dd; a, b = b, a
        nc = Cond.get(("eq", dd.keystr()), f"{a!r} == {b!r}"); nc.eq = (True, a, b)
        return nc
    fo = getattr(cond, "finite_elem", None)
    if fo is not None:
        # elementwise finiteness test isfinite(E): stays a test about the substituted element
        if not (fo.fv() & set(mapping)): return cond
        nf_ = fo.subst(mapping)
        if nf_.constval() is not None: return True
        nc = Cond.get(("finite", nf_.keystr()), f"isfinite({nf_!r})"[:100]); nc.finite_elem = nf_
        return nc
    return cond


def subst_val(v, mapping):
    if isinstance(v, X): return v.subst(mapping)
    if isinstance(v, PV):
        c = subst_cond(v.cond, mapping)
        if c is True: return subst_val(v.hi, mapping)
        if c is False: return subst_val(v.lo, mapping)
        return mk_pv(c, subst_val(v.hi, mapping), subst_val(v.lo, mapping))
    if isinstance(v, Arr):
        return Arr([(a, c.subst(mapping) if isinstance(c, X) else c) for a, c in v.axes], subst_val(v.body, mapping))
    if isinstance(v, tuple): return tuple(subst_val(e, mapping) for e in v)
    if isinstance(v, list): return [subst_val(e, mapping) for e in v]
    if isinstance(v, ListVal):
        r = ListVal([subst_val(e, mapping) for e in v.items])
        r.per_iter = [((p[0], subst_val(p[1], {k: x for k, x in mapping.items() if k != p[0]}), subst_val(p[2], {k: x for k, x in mapping.items() if k != p[0]})) + tuple(p[3:]))
                      if isinstance(p, tuple) and len(p) >= 3 else p for p in v.per_iter]
        return r
    if isinstance(v, ArrParam) and v.bin is not None and isinstance(v.bin, X):
        n = ArrParam(v.name, v.ndim, v.kind, v.known); n.bin = v.bin.subst(mapping); n.built = v.built
        return n
    return v


def local_to_arr(L, st=None):
    """a local array completely defined by one comprehension store -> Arr."""
    if isinstance(L, Arr): return L
    if isinstance(L, ArrParam): return L.as_arr()
    if not isinstance(L, LocalArr): return None
    if not L.stores:
        if L.fill is not None:
            return Arr([(fresh("i"), c) for c in L.shape], L.fill)
        return None
    if len(L.shape) == 2 and L.shape[0].as_int() is not None and all(r[0] != "opaque" and not r[0] and len(r[1]) == 1 and r[1][0].as_int() is not None and len(r) == 3 for r in L.stores):
        R = L.shape[0].as_int(); Cn = L.shape[1]
        rv, cv = fresh("r"), fresh("c")
        rows = {}
        for r in L.stores: rows[r[1][0].as_int() % R] = r[2]
        body = None
        from .libmodel import _cond_eq
        for k in range(R - 1, -1, -1):
            val = rows.get(k, L.fill if L.fill is not None else Opaque(f"row {k} of {L.name} never set"))
            A = as_arr(val) if isinstance(val, (Arr, ArrParam)) else None
            if A is not None:
                if A.ndim != 1 or not (A.axes[0][1].eq(Cn) or A.axes[0][1].as_int() == 1): return None
                b = subst_val(A.body, {A.axes[0][0]: X.var(cv) if A.axes[0][1].eq(Cn) else X.const(0)})
            else: b = val
            body = b if body is None else mk_pv(_cond_eq(X.var(rv), X.const(k), f"{rv}=={k}"), b, body)
        return Arr([(rv, L.shape[0]), (cv, Cn)], body)
    if len(L.shape) == 2 and L.shape[1].as_int() is not None and all(r[0] != "opaque" and len(r) == 3 and len(r[0]) == 1 and len(r[1]) == 2 and r[1][1].as_int() is not None
                                                                      and r[1][0].eq(X.var(r[0][0][0])) for r in L.stores):
        # column-wise comprehension stores  a[r, c_k] = v_k(r)  for r over all rows (one loop filling a small number of columns)
        Cn = L.shape[1].as_int()
        cols = {}
        for binders, sidx, val in L.stores:
            (rv_, cnt), = binders
            if not cnt.eq(L.shape[0]): return Opaque(f"store covers {cnt!r} of {L.shape[0]!r} rows of {L.name}")
            cols[sidx[1].as_int() % Cn] = (rv_, val)
        rv, cv = fresh("r"), fresh("c")
        from .libmodel import _cond_eq
        body = None
        for k in range(Cn - 1, -1, -1):
            if k in cols: b = subst_val(cols[k][1], {cols[k][0]: X.var(rv)})
            else: b = L.fill if L.fill is not None else Opaque(f"column {k} of {L.name} never set")
            body = b if body is None else mk_pv(_cond_eq(X.var(cv), X.const(k), f"{cv}=={k}"), b, body)
        return Arr([(rv, L.shape[0]), (cv, L.shape[1])], body)
    if len(L.shape) == 1 and len(L.stores) > 1 and all(r[0] != "opaque" and len(r) == 3 and len(r[0]) == 1 and len(r[1]) == 1 for r in L.stores):
        # several block stores  a[lo_k : lo_k + n_k] = v_k(t)  with concrete offsets: element i takes the value of the last block containing it
        ok = True; blocks = []
        for binders, sidx, val in L.stores:
            (tv, cnt), = binders
            lo = sidx[0] - X.var(tv)
            if lo.as_int() is None or (cnt.as_int() is None): ok = False; break
            blocks.append((lo.as_int(), cnt.as_int(), tv, val))
        if ok:
            from .libmodel import scal_compare
            import ast as _ast
            iv = fresh("i")
            body = L.fill if L.fill is not None else Opaque(f"element of {L.name} never stored")
            for lo, cnt, tv, val in blocks:
                inside = subst_val(val, {tv: X.var(iv) - lo})
                c_lo = scal_compare(_ast.Lt(), X.var(iv), X.const(lo), f"{iv}<{lo}")
                c_hi = scal_compare(_ast.Lt(), X.var(iv), X.const(lo + cnt), f"{iv}<{lo + cnt}")
                prev = body
                body = pv_apply(lambda a_, b_, prev=prev, inside=inside: prev if a_ is True else (inside if b_ is True else prev), c_lo, c_hi)
            return Arr([(iv, L.shape[0])], body)
    rec = L.stores[-1]
    if rec[0] == "opaque": return None
    binders, sidx, val = rec[0], rec[1], rec[2]
    if len(rec) > 3: return None
    if len(binders) != len(L.shape) or len(sidx) != len(L.shape): return None
    axes = []
    for (b, cnt), si, sh in zip(binders, sidx, L.shape):
        if not si.eq(X.var(b)): return None
        if not cnt.eq(sh):
            return Mismatch(f"store covers {cnt!r} of {sh!r} elements of {L.name}")
        axes.append((b, cnt))
    return Arr(axes, val)



def arr_op2(op, a, b):
    """elementwise op with trailing-axis broadcasting; axis lengths must agree structurally."""
    if isinstance(a, LocalArr):
        a = local_to_arr(a)
        if a is None or is_opaque(a): return a or Opaque("arithmetic on a partially filled local array")
    if isinstance(b, LocalArr):
        b = local_to_arr(b)
        if b is None or is_opaque(b): return b or Opaque("arithmetic on a partially filled local array")
    A, B = as_arr(a), as_arr(b)
    if A is None:
        return Arr(B.axes, lift2(op, a, B.body))
    if B is None:
        return Arr(A.axes, lift2(op, A.body, b))
    na, nb = A.ndim, B.ndim
    n = max(na, nb)
    axes = []; ma = {}; mb = {}
    for k in range(1, n + 1):
        xa = A.axes[na - k] if k <= na else None
        xb = B.axes[nb - k] if k <= nb else None
        if xa is None: axes.append(xb); continue
        if xb is None: axes.append(xa); continue
        (va, ca), (vb, cb) = xa, xb
        one_a = isinstance(ca, X) and ca.as_int() == 1
        one_b = isinstance(cb, X) and cb.as_int() == 1
        if one_a and not one_b:
            ma[va] = X.const(0); axes.append(xb)
        elif one_b and not one_a:
            mb[vb] = X.const(0); axes.append(xa)
        else:
            if not (isinstance(ca, X) and isinstance(cb, X) and ca.eq(cb)):
                return Opaque(f"broadcast of unequal lengths {ca!r} vs {cb!r}")
            mb[vb] = X.var(va); axes.append(xa)
    axes.reverse()
    ba = subst_val(A.body, ma) if ma else A.body
    bb = subst_val(B.body, mb) if mb else B.body
    return Arr(axes, lift2(op, ba, bb))


def arr_index(A, j):
    """A[j] for Arr A and scalar index j -> Arr of lower rank or scalar."""
    (v, c), rest = A.axes[0], A.axes[1:]
    body = subst_val(A.body, {v: j})
    if rest: return Arr(rest, body)
    return body


UNIFORM_CONDS = [False]      # path-enumeration mode: a branch condition inside a summarised loop takes one truth value for all iterations


def sum_over(var, count, body):
    """sum_{var<count} body for a body that may be a decision tree; conditions depending on the bound variable
    are resolved by explicit expansion when the count is a small constant; for a symbolic count the result is opaque,
    except in path-enumeration mode, where each enumerated path fixes the condition for all iterations (uniform paths)."""
    if isinstance(body, PV):
        dep = any(var in _cond_fvs(c) for c in _all_conds(body))
        if dep:
            k = count.as_int() if isinstance(count, X) else None
            if (k is None or k > 32) and UNIFORM_CONDS[0]: return lift1(lambda b: mk_sum(var, count, b), body)
            if k is None or k > 32: return Opaque("sum of a piecewise body whose conditions depend on the summation index")
            tot = X.const(0)
            for i in range(k):
                tot = lift2("+", tot, subst_val(body, {var: X.const(i)}))
            return tot
    return lift1(lambda b: mk_sum(var, count, b), body)


def _all_conds(v, acc=None):
    acc = acc if acc is not None else []
    if isinstance(v, PV):
        acc.append(v.cond); _all_conds(v.hi, acc); _all_conds(v.lo, acc)
    return acc


def arr_sum(A, axis, mean=False, keepdims=False):
    if axis is None:
        body = A.body
        tot = X.const(1)
        for v, c in reversed(A.axes):
            body = sum_over(v, c, body); tot = tot * c
        return lift2("/", body, tot) if mean else body
    if axis < 0: axis += A.ndim
    v, c = A.axes[axis]
    body = sum_over(v, c, A.body)
    if mean: body = lift2("/", body, c)
    rest = list(A.axes[:axis]) + ([(fresh("k"), X.const(1))] if keepdims else []) + list(A.axes[axis + 1:])
    if rest: return Arr(rest, body)
    return body


def arr_matmul(A, B):
    A, B = as_arr(A), as_arr(B)
    if A is None or B is None: return Opaque("matmul of non-arrays")
    (va, ca) = A.axes[-1]
    (vb, cb) = B.axes[0]
    if not ca.eq(cb):
        return Opaque(f"matmul contraction lengths differ: {ca!r} vs {cb!r}")
    bb = subst_val(B.body, {vb: X.var(va)})
    prod = lift2("*", A.body, bb)
    body = sum_over(va, ca, prod)
    axes = list(A.axes[:-1]) + list(B.axes[1:])
    if axes: return Arr(axes, body)
    return body


def arr_transpose(A):
    A = as_arr(A)
    return Arr(tuple(reversed(A.axes)), A.body)
