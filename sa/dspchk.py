"""C19 (and parts of C16) - time-domain detrending, RMS integration, DataFrame wrappers."""
import ast
from fractions import Fraction as Fr

from .symalg import X, KIND, ARRAY_KIND, mk_fn, mk_idx, mk_sum, compare, Unknown
from .values import *
from .absint import Interp, St
from . import libmodel as lm
from .libcalls import QROf
from .report import HOLDS, VIOLATED, UNKNOWN

DSP = "speckit/dsp.py"


class Marker(Obj):
    def __init__(s, kind, **kw):
        Obj.__init__(s, "marker:" + kind); s.kind = kind; s.info = kw

    def __repr__(s): return f"<{s.kind} {s.info}>"


def _arr_same(a, b):
    A, B = as_arr(a), as_arr(b)
    if A is None or B is None or A.ndim != B.ndim: return False
    mp = {}
    for (va, ca), (vb, cb) in zip(A.axes, B.axes):
        if not (isinstance(ca, X) and isinstance(cb, X) and ca.eq(cb)): return False
        mp[va] = X.var(vb)
    ba = subst_val(A.body, mp)
    return vkey(ba) == vkey(B.body)


def check_polynomial_detrend(ctx, rule="R1-least-squares-polynomial-removed"):
    repo = ctx.repo
    key = f"{DSP}::polynomial_detrend"; fn = repo.get(key); where = repo.where(key, fn); ctx.analysed(key)
    KIND["n"] = "nat"; ARRAY_KIND["x"] = "real"
    for order in ((0, 1, 2, 3, 4, 5, 6, 7, 8) if getattr(ctx, 'tier', 'quick') == 'thorough' else (0, 1, 2, 3, 5)):
        I = Interp(repo)
        fits = []

        def lib(I_, name, args, kw, st, n, fits=fits):
            if name == "numpy.polyfit":
                m = Marker("fit", t=args[0], y=args[1], deg=kw.get("deg", args[2] if len(args) > 2 else None)); fits.append(m); return m
            if name == "numpy.polyval":
                c, t = args[0], args[1]
                if isinstance(c, Marker) and c.kind == "fit":
                    T = as_arr(t)
                    if T is None: return Opaque("polyval abscissa")
                    c.info["t_eval"] = t
                    v = T.axes[0][0]
                    return Arr(T.axes, mk_fn(f"lsq_poly#{len(fits)}", [X.var(v)], "real"))
                return Opaque("polyval of unknown coefficients")
            if name == "numpy.vander":
                return Marker("vander", t=args[0], M=kw.get("N", args[1] if len(args) > 1 else None), increasing=kw.get("increasing", False))
            if name == "numpy.linalg.lstsq":
                V = args[0]
                m = Marker("fit", t=V.info.get("t") if isinstance(V, Marker) else None, y=args[1], deg=(to_x(V.info.get("M")) - 1) if isinstance(V, Marker) and to_x(V.info.get("M")) is not None else None, via="lstsq", basis=V)
                fits.append(m); return (m, Opaque("residuals"), Opaque("rank"), Opaque("sv"))
            if name == "numpy.linalg.norm" and args and isinstance(args[0], Marker) and args[0].kind == "vander":
                ax = to_x(kw.get("axis")) if kw.get("axis") is not None else None
                if ax is not None and ax.as_int() == 0: return Marker("colnorm", of=args[0])
                return Opaque("norm of the basis matrix")
            return NotImplemented
        I.hooks["lib"] = lib

        def expr(I_, n, st):
            # A / np.linalg.norm(A, axis=0): rescaling the columns of the basis matrix leaves its column space unchanged
            if isinstance(n, ast.BinOp) and isinstance(n.op, (ast.Div, ast.Mult)):
                a = I_.eval(n.left, st); b = I_.eval(n.right, st)
                if isinstance(a, Marker) and a.kind == "vander" and isinstance(b, Marker) and b.kind == "colnorm" and b.info["of"] is a and isinstance(n.op, ast.Div):
                    return Marker("vander", t=a.info["t"], M=a.info["M"], increasing=a.info.get("increasing", False), scaled=True)
                return I_.binop(n.op, a, b)
            return NotImplemented
        I.hooks["expr"] = expr

        def matmul(I_, a, b, fits=fits):
            # A @ lstsq(A, y): the least-squares fit evaluated on the very matrix it was fitted with = projection on its column space
            if isinstance(a, Marker) and a.kind == "vander" and isinstance(b, Marker) and b.kind == "fit" and b.info.get("via") == "lstsq":
                if b.info.get("basis") is not a: return Mismatch("the least-squares coefficients are evaluated on a different matrix than they were fitted with")
                Y = as_arr(b.info["y"])
                if Y is None: return Opaque("fitted data")
                b.info["t_eval"] = a.info.get("t")
                return Arr(Y.axes, mk_fn(f"lsq_poly#{fits.index(b) + 1}", [X.var(Y.axes[0][0])], "real"))
            # x - Q (Q^T x): orthogonal projection on the column space of the QR-factorised basis matrix
            if isinstance(a, tuple) and len(a) == 2 and a[0] == "QT" and isinstance(b, (ArrParam, Arr)):
                return Marker("coef", Q=a[1], y=b)
            if isinstance(a, QROf) and isinstance(b, Marker) and b.kind == "coef" and b.info["Q"] is a:
                V = a.V
                if isinstance(V, Marker) and V.kind == "vander":
                    M = to_x(V.info.get("M"))
                    m = Marker("fit", t=V.info.get("t"), y=b.info["y"], deg=(M - 1) if M is not None else None, via="qr-projection", t_eval=V.info.get("t"), affine=True)
                    fits.append(m)
                    Y = as_arr(b.info["y"])
                    v = Y.axes[0][0]
                    return Arr(Y.axes, mk_fn(f"lsq_poly#{len(fits)}", [X.var(v)], "real"))
                return Opaque("projection on an unrecognised basis")
            return NotImplemented
        I.hooks["matmul"] = matmul
        from .dispatch import numeric_chooser
        I.hooks["decide"] = numeric_chooser({"n": 1000.0})        # generic record: longer than order+1 samples
        xin = ArrParam("x", shape=(X.var("n"),))
        try:
            r = I.call_key(key, [xin], {"order": X.const(order)}, St())
        except Unknown as ex:
            ctx.unknown(rule, f"{key}[order={order}]", str(ex), where); continue
        c = f"{key}[order={order}]"
        # generic length: the 'signal shorter than order+1' branch is a degenerate case
        leaves = list(pv_leaves(r))
        main = None
        for path, leaf in leaves:
            if all((getattr(cd, "lt", None) is None) or (pol is False) for cd, pol in path): main = leaf
        if main is None and leaves: main = leaves[-1][1]
        A = as_arr(main) if not is_opaque(main) and main is not None else None
        if A is None:
            # a projection form  x - Q (Q^T x)  built from a Vandermonde matrix?
            ctx.ob(rule, c, VIOLATED if isinstance(main, Mismatch) else UNKNOWN, f"detrended signal not recognised: {main!r}"[:200], where); continue
        v = A.axes[0][0]
        xi = mk_idx("x", [X.var(v)])
        if order == 0:
            want = xi - mk_sum("m", X.var("n"), mk_idx("x", [X.var("m")])) / X.var("n")
            ctx.compare(rule, c, to_x(A.body) if to_x(A.body) is not None else X.const(0), want, where, detail="order 0 removes the mean")
            continue
        if len(fits) != 1:
            ctx.ob(rule, c, UNKNOWN if not fits else VIOLATED, f"{len(fits)} polynomial fits on the path for order {order}", where); continue
        f = fits[0]
        tr = mk_fn("lsq_poly#1", [X.var(v)], "real")
        body = to_x(A.body)
        ok_form = body is not None and body.eq(xi - tr)
        if not ok_form and body is not None:
            ctx.notes.append(f"polynomial_detrend[{order}]: body {body!r} vs {xi - tr!r}; fit info t={f.info.get('t')!r} te={f.info.get('t_eval')!r} y={f.info.get('y')!r} deg={f.info.get('deg')!r}")
        t0 = Arr([(v, X.var("n"))], X.var(v))
        ok_t = _arr_same(f.info.get("t"), t0) and _arr_same(f.info.get("t_eval"), t0)
        if not ok_t and f.info.get("affine"):
            T = as_arr(f.info.get("t"))
            if T is not None and T.ndim == 1 and T.axes[0][1].eq(X.var("n")) and to_x(T.body) is not None:
                tb = to_x(T.body); tv = T.axes[0][0]
                a_ = tb.subst({tv: X.const(1)}) - tb.subst({tv: X.const(0)})
                ok_t = (tb.subst({tv: X.const(0)}) + a_ * X.var(tv)).eq(tb) and tv not in a_.fv() and not a_.iszero()
        ok_y = isinstance(f.info.get("y"), ArrParam) and f.info["y"].name == "x"
        if any(is_opaque(f.info.get(k_)) for k_ in ("t", "y", "t_eval")):
            ctx.unknown(rule, c, f"fit arguments not recognised: t={f.info.get('t')!r}, y={f.info.get('y')!r}"[:200], where); continue
        dgv = f.info.get("deg")
        while isinstance(dgv, PV): dgv = dgv.lo      # generic case: the signal is longer than order+1
        dg = to_x(dgv)
        ok_d = dg is not None and dg.eq(X.const(order))
        if ok_form and ok_t and ok_y and ok_d:
            ctx.holds(rule, c, "x - P(t) with P the least-squares polynomial of degree `order` fitted to x over the same abscissa t = 0..n-1", where)
        elif not ok_d and dg is not None:
            ctx.violated(rule, c, f"for order {order} the fitted polynomial has degree {dg!r}: polynomials of degree {order} are not removed (basis one column short / long)", where)
        elif not ok_t:
            ctx.violated(rule, c, "the polynomial is fitted and evaluated over different abscissae (or not over the sample index)", where)
        elif not ok_y:
            ctx.violated(rule, c, f"the polynomial is fitted to {f.info.get('y')!r}, not to the input signal", where)
        else:
            ctx.ob(rule, c, UNKNOWN if body is None else VIOLATED, f"returned signal is {A.body!r}, expected x - fitted trend"[:200], where)


class DF(Obj):
    """abstract DataFrame with a boolean (flag) column, two float columns and one non-numeric column, in that order."""
    COLS = ("flag", "a", "b", "label")
    KINDS = {"flag": "b", "a": "f", "b": "f", "label": "O"}

    def __init__(s, name, log):
        Obj.__init__(s, "DataFrame"); s.name = name; s.log = log
        s.hook = s._hook
        s.sets = []

    def _hook(s, kind, o, key, v, st):
        if kind == "getattr":
            if key == "empty": return False
            if key == "columns":
                c = Obj("Index"); c.hook = lambda k, o_, a, v_, st_: NotImplemented
                c.attrs["tolist"] = None
                return ColIndex()
            if key == "index": return Marker("index", of=s.name)
            if key == "iloc": return Marker("iloc", of=s)
            return NotImplemented
        if kind == "getitem":
            if isinstance(key, str): return Column(s, key)
            return Opaque("df[...]")
        if kind == "setitem":
            s.sets.append((key, v)); s.log.append((s.name, key, v)); return None
        if kind == "call":
            name, (args, kw) = key, v
            if name == "copy":
                d = DF(s.name + ".copy", s.log); d.parent = s; return d
            if name == "drop":
                # df.drop(columns=[...]) returns a new frame without those columns: same rows, same index
                cols_ = kw.get("columns")
                from .absint import _concrete_seq
                seq_ = _concrete_seq(cols_) if cols_ is not None else None
                if seq_ is not None and all(isinstance(c_, str) for c_ in seq_):
                    s.dropped = list(getattr(s, "dropped", [])) + list(seq_)
                    return s
                return Opaque("DataFrame.drop")
            if name in ("join", "merge", "assign") and name == "join" and args and isinstance(args[0], Marker) and args[0].kind == "newframe":
                nf_ = args[0]
                ix = nf_.info.get("index")
                same = isinstance(ix, Marker) and ix.kind == "index" and ix.info.get("of") in (s.name, "df")
                if not same:
                    return Mismatch("DataFrame.join aligns on index labels: the frame built from raw arrays has a default RangeIndex, so for a frame whose index is not "
                                    "0..n-1 (time-indexed, truncated, concatenated) the new columns land on the wrong rows / turn into NaN")
                d_ = nf_.info.get("data")
                if isinstance(d_, DictVal):
                    for k_, v_ in d_.d.items(): s.sets.append((k_, v_)); s.log.append((s.name, k_, v_))
                return s
            return Opaque(f"DataFrame.{name}")
        return NotImplemented


class ColIndex(Obj):
    def __init__(s):
        Obj.__init__(s, "Index")
        s.hook = s._hook

    def _hook(s, kind, o, key, v, st):
        if kind == "call" and key == "tolist": return ListVal(list(DF.COLS))
        if kind == "contains": return key in DF.COLS
        return NotImplemented


class Column(Obj):
    def __init__(s, df, name):
        Obj.__init__(s, "Series"); s.df = df; s.name = name
        s.hook = s._hook

    def _hook(s, kind, o, key, v, st):
        if kind == "getattr":
            if key == "dtype":
                d = Obj("dtype"); d.attrs["kind"] = DF.KINDS.get(s.name, "f"); d.colname = s.name
                return d
            if key == "values": return ArrParam("col_" + s.name)
            return NotImplemented
        if kind == "call":
            if key in ("to_numpy",): return ArrParam("col_" + s.name)
            return Opaque(f"Series.{key}")
        return NotImplemented


def check_df_wrapper(ctx, fname, callee, rule, extra_args=(), shift=False):
    """df_detrend / df_timeshift: the worker is applied to each selected numeric column of a copy; the caller's frame is not written."""
    repo = ctx.repo
    key = f"{DSP}::{fname}"; fn = repo.get(key); where = repo.where(key, fn); ctx.analysed(key)
    KIND.update({"fs": "pos", "seconds": "real"})
    for inplace in (False, True):
        for cols, label in ((None, "all columns"), (ListVal(["a"]), "columns=['a']")):
            I = Interp(repo)
            log = []; calls = []

            def call(I_, f, args, kwargs, st, node, calls=calls):
                if f.key == f"{DSP}::{callee}":
                    m = Marker("worked", data=args[0], args=list(args[1:]), kw=dict(kwargs)); calls.append(m)
                    # a slice of the worker's output (one column of a block result) remembers where it came from
                    m.hook = lambda kind, o, key_, v_, st_: (Marker("sliced", of=o, idx=key_) if kind == "getitem" else NotImplemented)
                    return m
                return NotImplemented
            I.hooks["call"] = call

            def lib(I_, name, args, kw, st, n):
                if name in ("pandas.DataFrame",):
                    if not args and not kw: return Lib("pandas.DataFrame")
                    m = Marker("newframe", data=args[0] if args else kw.get("data"), index=kw.get("index"))
                    return m
                if name == "pandas.concat":
                    from .absint import _concrete_seq
                    parts = _concrete_seq(args[0]) if args else None
                    ax = to_x(kw.get("axis", X.const(0)))
                    if parts and len(parts) == 2 and isinstance(parts[0], DF) and isinstance(parts[1], Marker) and parts[1].kind == "newframe" and ax is not None and ax.as_int() == 1:
                        nf_, base = parts[1], parts[0]
                        ix = nf_.info.get("index")
                        same = isinstance(ix, Marker) and ix.kind == "index" and ix.info.get("of") in (base.name, "df")
                        if not same:
                            return Mismatch("pd.concat(axis=1) aligns on index labels: the frame built from raw arrays has a default RangeIndex, so for a frame whose index is not "
                                            "0..n-1 (time-indexed, or already truncated) the shifted values land on the wrong rows / extra NaN rows")
                        d_ = nf_.info.get("data")
                        if isinstance(d_, DictVal):
                            for k_, v_ in d_.d.items(): base.sets.append((k_, v_))
                        return base
                    return Opaque("pandas.concat")
                if name == "builtins.isinstance" and args and isinstance(args[0], DF): return True
                if name == "numpy.isfinite": return True
                return NotImplemented
            I.hooks["lib"] = lib

            def method(I_, o, name, args, kw, st, n):
                if isinstance(o, Marker) and o.kind == "worked" and name in ("astype", "round", "clip", "view"):
                    return Marker("converted", of=o, how=name, args=list(args))       # recognised: the worker's output is post-processed
                return NotImplemented
            I.hooks["method"] = method

            def expr(I_, n, st):
                # the dtype of a column's array is the column's dtype (so that a test of its kind is decided per column, not forked)
                if isinstance(n, ast.Attribute) and n.attr == "dtype" and isinstance(n.value, ast.Name):
                    v = st.env.get(n.value.id)
                    if isinstance(v, ArrParam) and v.name.startswith("col_") and v.name[4:] in DF.KINDS:
                        d = Obj("dtype"); d.attrs["kind"] = DF.KINDS[v.name[4:]]; d.colname = v.name[4:]
                        return d
                return NotImplemented
            I.hooks["expr"] = expr
            df = DF("df", log)
            kw = {"columns": cols, "inplace": inplace}
            args = [df] + list(extra_args)
            try:
                r = I.call_key(key, args, kw, St())
            except Unknown as ex:
                ctx.unknown(rule, f"{key}[{label},inplace={inplace}]", str(ex), where); continue
            c = f"{key}[{label},inplace={inplace}]"
            want_cols = [c_ for c_ in DF.COLS if DF.KINDS[c_] in "biufc"] if cols is None else ["a"]
            # the caller's frame must not be written
            own = [e for e in log if e[0] == "df"]
            if own:
                ctx.violated(rule, c + "[caller frame]", f"the caller's DataFrame is modified (df[{own[0][1]!r}] = ...)", where); continue
            leaves = [r]
            if isinstance(r, PV):
                # a zero shift returns the frame itself; the generic case is every other branch (helpers may fork on the kind of frame)
                leaves = [l for pth, l in pv_leaves(r) if all(not (getattr(cd, "eq", None) is not None and pol) for cd, pol in pth)] or [l for _, l in pv_leaves(r)]

            def judge(r):
                if not (isinstance(r, DF) and r.name == "df.copy"):
                    return (VIOLATED if (isinstance(r, Mismatch) or (not is_opaque(r) and not isinstance(r, PV))) else UNKNOWN,
                            (r.why if isinstance(r, Mismatch) else f"result is {r!r}, not the working copy")[:400], "[result]")
                sets = dict((k, v) for k, v in r.sets)
                bad = None; unk = None
                for col in want_cols:
                    keys = [k for k in sets if (k == col if inplace else (isinstance(k, str) and k.startswith(col) and k != col))]
                    if len(keys) != 1: bad = bad or f"column {col!r}: {len(keys)} result columns written ({sorted(map(str, sets))})"; continue
                    v = sets[keys[0]]
                    if isinstance(v, Marker) and v.kind == "converted":
                        bad = bad or (f"column {keys[0]!r} receives the worker's output after .{v.info['how']}(...): converted before it is stored (a cast to the column's own dtype "
                                      "truncates the result for integer columns)"); continue
                    if isinstance(v, Marker) and v.kind == "sliced" and isinstance(v.info.get("of"), Marker) and v.info["of"].kind == "worked":
                        # the worker was applied once to a block of several columns: every reduction it takes without an axis then runs over all columns
                        wfn = repo.get(f"{DSP}::{callee}")
                        p0 = wfn.args.args[0].arg if wfn.args.args else None
                        glob_red = None
                        for c_ in ast.walk(wfn):
                            if isinstance(c_, ast.Call):
                                nm_ = ast.unparse(c_.func)
                                tgt_ = None
                                if nm_.split(".")[-1] in ("mean", "sum", "median", "average", "std", "var", "min", "max") and not any(k_.arg in ("axis",) for k_ in c_.keywords):
                                    if isinstance(c_.func, ast.Attribute) and isinstance(c_.func.value, ast.Name) and c_.func.value.id == p0 and len(c_.args) == 0: tgt_ = p0
                                    elif c_.args and isinstance(c_.args[0], ast.Name) and c_.args[0].id == p0 and len(c_.args) == 1: tgt_ = p0
                                if tgt_: glob_red = glob_red or c_
                        if glob_red is not None:
                            bad = bad or (f"{callee} is applied once to a block holding all selected columns, but it computes {' '.join(ast.unparse(glob_red).split())[:40]} without an axis: "
                                          f"for several columns that is the statistic of the whole block, not of column {col!r} (order 0 subtracts the grand mean)")
                        else:
                            unk = unk or f"{callee} is applied to a block of columns at once: its per-column behaviour for 2-D input is not analysed"
                        continue
                    if not (isinstance(v, Marker) and v.kind == "worked"):
                        if is_opaque(v): unk = unk or f"column {keys[0]!r} receives {v!r}"; continue
                        bad = bad or f"column {keys[0]!r} receives {v!r}: the worker's output is converted or replaced before it is stored"; continue
                    d = v.info["data"]
                    if not (isinstance(d, ArrParam) and d.name == "col_" + col):
                        bad = bad or f"column {keys[0]!r} is computed from {d!r}, not from column {col!r}"; continue
                    if not shift:
                        # the worker is called as worker(column values, order=order): any further argument that is not None changes what is fitted
                        wfn_ = repo.get(f"{DSP}::{callee}")
                        pn_ = [a_.arg for a_ in wfn_.args.args]
                        given = dict(v.info.get("kw") or {})
                        for i_, a_ in enumerate(v.info.get("args") or []):
                            if i_ + 1 < len(pn_): given.setdefault(pn_[i_ + 1], a_)
                        for k_, val_ in given.items():
                            if k_ == "order" or val_ is None: continue
                            lv_ = [l_ for _, l_ in pv_leaves(val_)] if isinstance(val_, PV) else [val_]
                            if any(l_ is not None and not is_opaque(l_) for l_ in lv_) or (isinstance(val_, PV) and any(l_ is not None for l_ in lv_)):
                                bad = bad or (f"column {col!r}: {callee} also receives {k_}={val_!r}"[:200] + f", so the wrapper's result is not {callee}(column values, order) "
                                              "(a frame with a non-default index is fitted against that index)")
                            else:
                                unk = unk or f"column {col!r}: {callee} also receives {k_}={val_!r}"[:200]
                    if shift:
                        a0 = to_x(v.info["args"][0]) if v.info["args"] and not isinstance(v.info["args"][0], PV) and not is_opaque(v.info["args"][0]) else None
                        if a0 is None or not a0.eq(X.var("seconds") * X.var("fs")):
                            bad = bad or f"column {col!r} is shifted by {v.info['args'][0] if v.info['args'] else None!r} samples, not by seconds*fs"; continue
                extra = [k for k in sets if not any((k == cl if inplace else str(k).startswith(cl)) for cl in want_cols)]
                if bad is None and extra: bad = f"columns {extra} are written although they were not selected / are not numeric"
                if bad is None and unk is None and len(calls) != len(want_cols) and not any(isinstance(v_, Marker) and v_.kind == "sliced" for v_ in sets.values()): bad = f"worker applied {len(calls)} times for {len(want_cols)} selected numeric columns"
                if bad is None and unk is not None: return UNKNOWN, unk, ""
                return (HOLDS if bad is None else VIOLATED), (f"{callee} applied to each of {want_cols} on a copy" if bad is None else bad), ""
            verdicts = [judge(l) for l in leaves]
            worst = next((v for v in verdicts if v[0] == VIOLATED), None) or next((v for v in verdicts if v[0] == UNKNOWN), None) or verdicts[0]
            ctx.ob(rule, c + worst[2], worst[0], worst[1], where)


def check_integral_rms(ctx, rule="R3-band-rms-is-trapezoid-of-asd-squared"):
    repo = ctx.repo
    key = f"{DSP}::integral_rms"; fn = repo.get(key); where = repo.where(key, fn); ctx.analysed(key, f"{DSP}::crop_data")
    KIND.update({"lo": "real", "hi": "real", "nf": "nat"})
    ARRAY_KIND.update({"freq": "pos", "asd": "pos"})
    I = Interp(repo)
    cts = []

    def lib(I_, name, args, kw, st, n):
        if name.endswith("cumulative_trapezoid") or name.endswith("cumtrapz"):
            m = Marker("cumtrapz", y=args[0], x=args[1] if len(args) > 1 else kw.get("x"), initial=kw.get("initial")); cts.append(m)
            return m
        if name in ("numpy.min", "numpy.max", "numpy.amin", "numpy.amax"):
            a = args[0]
            if isinstance(a, ArrParam):
                which = "min" if name.endswith("min") else "max"
                KIND[f"{a.name}.{which}"] = "real"
                return X.var(f"{a.name}.{which}")          # the smallest / largest grid value: two different symbols
            return Opaque("min/max")
        if name.startswith("logging.") or name.startswith("logger."): return None
        return NotImplemented
    I.hooks["lib"] = lib

    def method(I_, o, name, args, kw, st, n):
        return NotImplemented
    f_in = ArrParam("freq", shape=(X.var("nf"),)); a_in = ArrParam("asd", shape=(X.var("nf"),))
    band = (X.var("lo"), X.var("hi"))
    def decide(cond):
        e = getattr(cond, "eq", None)
        if e is not None and (e[1] - e[2]).fv() <= {"nf"}: return False       # a non-empty frequency grid
        return None
    I.hooks["decide"] = decide
    try:
        r = I.call_key(key, [f_in, a_in, band], {}, St())
    except Unknown as ex:
        ctx.unknown(rule, key, str(ex), where); return
    if len(cts) != 1:
        if not cts:
            # no cumulative-trapezoid primitive: decide the quadrature on a concrete 5-point grid (samples symbolic) by partial evaluation
            v = _integral_instance(ctx, repo, key, fn)
            if v is not None:
                st_, detail = v
                ctx.ob(rule, key + "[quadrature on a 5-point grid]", st_, detail, where)
                if st_ != HOLDS: return
                ctx.notes.append("integral_rms: quadrature decided on a concrete 5-point grid (band cropping is not decided for this implementation)")
                ctx.unknown(rule, key + "[band thresholds]", "the band crop of an implementation without cumulative_trapezoid is not analysed", where)
                return
        ctx.ob(rule, key, UNKNOWN if not cts else VIOLATED, f"{len(cts)} cumulative trapezoid integrations found", where); return
    m = cts[0]
    y, x = m.info["y"], m.info["x"]
    okm = isinstance(y, lm.Masked) and isinstance(x, lm.Masked) and y.mask is x.mask
    ok_x = okm and isinstance(x.arr, (ArrParam, Arr)) and _arr_same(x.arr, f_in)
    ya = as_arr(y.arr) if okm else None
    ok_y = ya is not None and to_x(ya.body) is not None and to_x(ya.body).eq(mk_idx("asd", [X.var(ya.axes[0][0])], "real") * mk_idx("asd", [X.var(ya.axes[0][0])], "real"))
    recognised = not is_opaque(y) and not is_opaque(x) and (not okm or (ya is not None and not is_opaque(ya.body) and to_x(ya.body) is not None))
    ctx.ob(rule, key + "[integrand]", HOLDS if ok_x and ok_y else VIOLATED if recognised else UNKNOWN, "trapezoid of asd^2 over f, both cropped by one mask" if ok_x and ok_y else
           f"integrand / abscissa are {y!r} / {x!r}: not asd^2 over f on one common crop", where)
    # inclusive band: mask = (f >= lo') & (f <= hi')
    if okm:
        M = as_arr(y.mask)
        conds = []
        def walk(v):
            if isinstance(v, PV): conds.append(v); walk(v.hi); walk(v.lo)
        walk(M.body)
        inclusive = True; n = 0
        for node in conds:
            d = getattr(node.cond, "lt", None)
            if d is None: continue
            n += 1
            # inclusive tests appear as not(f - lo < 0) and not(hi - f < 0): the True branch of the strict test leads to False
            if not (node.hi is False): inclusive = False
        (ctx.holds if inclusive and n >= 2 else ctx.violated)(rule, key + "[band edges]", "grid points on the band edges are included (>=, <=)" if inclusive and n >= 2 else
                                                             "the crop excludes grid points lying exactly on a band edge (strict comparison)", where)
        # the thresholds: a grid point is inside iff lo <= f <= hi; clamping the edges to the grid's own extent (max(min f, lo), min(max f, hi)) selects the same points
        iv = M.axes[0][0]; A_f = as_arr(f_in); fi = to_x(subst_val(A_f.body, {A_f.axes[0][0]: X.var(iv)}))
        lo, hi = X.var("lo"), X.var("hi")
        ok_lo = [lo, lm.canon_minmax("max", [X.var("freq.min"), lo])]
        ok_hi = [hi, lm.canon_minmax("min", [X.var("freq.max"), hi])]
        seen_lo = seen_hi = False; wrong = None
        for node in conds:
            d = getattr(node.cond, "lt", None)
            if d is None: continue
            if any(d.eq(fi - t) for t in ok_lo): seen_lo = True
            elif any(d.eq(t - fi) for t in ok_hi): seen_hi = True
            else: wrong = wrong or d
        if wrong is not None or not (seen_lo and seen_hi):
            ctx.violated(rule, key + "[band thresholds]", ("a grid point is tested against " + repr(wrong) + " < 0" if wrong is not None else "one band edge is never tested") +
                         ": the points kept are not exactly those with lo <= f <= hi (so the RMS is not additive over adjacent bands)", where)
        else:
            ctx.holds(rule, key + "[band thresholds]", "kept points are exactly those with lo <= f <= hi (edges possibly clamped to the grid's own extent)", where)
    # result = sqrt(last cumulative value)
    leaves = [l for _, l in pv_leaves(r) if not (to_x(l) is not None and to_x(l).iszero())]
    okr = any(isinstance(l, Opaque) is False and "cumtrapz" in repr(l) for l in leaves) or any(is_opaque(l) and "cumtrapz" in l.why for l in leaves)
    # degenerate bands (no grid point inside) contribute nothing: every other returned value is exactly 0
    nonzero = [l for _, l in pv_leaves(r) if to_x(l) is not None and not to_x(l).iszero()]
    (ctx.violated if nonzero else ctx.holds)(rule, key + "[empty band]", f"a band without grid points returns {nonzero[0]!r}, not 0: the RMS is no longer additive in power over adjacent bands" if nonzero else
                                             "bands without grid points return 0", where)
    src = ast.unparse(fn)
    sq = "np.sqrt(" in src.replace(" ", "") and "[-1]" in src
    (ctx.holds if sq else ctx.violated)(rule, key + "[root]", "rms = sqrt(integral)" if sq else "the square root of the last cumulative value is not returned", where)


def _integral_instance(ctx, repo, key, fn):
    """(status, detail) of  integral_rms(f, asd)**2 == sum (asd[i]^2 + asd[i+1]^2)/2 (f[i+1]-f[i])  on a 5-point grid with the full band, or None."""
    from .libcalls import h_dot1
    from .dispatch import numeric_chooser
    n = 5
    I = Interp(repo)
    ARRAY_KIND.update({"freq": "pos", "asd": "pos"})

    def lib(I_, name, args, kw, st, nd):
        if name in ("numpy.min", "numpy.max", "numpy.amin", "numpy.amax") and args and isinstance(args[0], ArrParam):
            which = "min" if name.endswith("min") else "max"
            KIND[f"{args[0].name}.{which}"] = "real"
            return X.var(f"{args[0].name}.{which}")
        if name in ("numpy.dot", "numpy.vdot", "numpy.inner"): return h_dot1(I_, args, kw, st, nd)
        if name.startswith("logging.") or name.startswith("logger."): return None
        return NotImplemented
    I.hooks["lib"] = lib

    def call(I_, f, args, kwargs, st, node):
        if f.key == f"{DSP}::crop_data": return (args[0], args[1])          # the full band keeps every grid point
        return NotImplemented
    I.hooks["call"] = call
    I.hooks["decide"] = numeric_chooser({"freq.min": 1.0, "freq.max": 9.0, "inf": 1e300})
    fa = ArrParam("freq", shape=(X.const(n),)); aa = ArrParam("asd", shape=(X.const(n),))
    st0 = St()
    try:
        r = I.call_key(key, [fa, aa], {}, st0)
    except Unknown as ex:
        return None
    leaves = [l for _, l in pv_leaves(r) if not (to_x(l) is not None and to_x(l).iszero())]
    roots_ = [to_x(ev[1]) for ev in st0.events if ev[0] == "sqrt" and not is_opaque(ev[1]) and not isinstance(ev[1], (PV, Arr, ArrParam, LocalArr)) and to_x(ev[1]) is not None]
    got2 = None
    if len(leaves) == 1 and to_x(leaves[0]) is not None: got2 = to_x(leaves[0]) * to_x(leaves[0])
    elif roots_: got2 = roots_[-1]                     # the value whose square root is returned (the root itself has no polynomial normal form)
    if got2 is None: return None
    f_ = lambda i: mk_idx("freq", [X.const(i)], "pos"); a_ = lambda i: mk_idx("asd", [X.const(i)], "pos")
    want = X.const(0)
    for i in range(n - 1): want = want + (a_(i) * a_(i) + a_(i + 1) * a_(i + 1)) * X.const(Fr(1, 2)) * (f_(i + 1) - f_(i))
    try: st_, why = compare(got2, want)
    except Unknown as ex: return None
    if st_ == HOLDS: return HOLDS, "rms^2 is the trapezoidal integral of asd^2 over the grid"
    return st_, (f"rms^2 on the grid f0..f4 is not the trapezoidal integral of asd^2 (end points or interior points carry the wrong weight: power is not additive "
                 f"over adjacent bands) {why}")


def check_get_rms(ctx, rule="R4-result-rms-delegates"):
    repo = ctx.repo
    key = "speckit/analysis.py::SpectrumResult.get_rms"; fn = repo.get(key); where = repo.where(key, fn); ctx.analysed(key)
    KIND.update({"b0": "real", "b1": "real"})
    I = Interp(repo)
    got = []

    def call(I_, f, args, kwargs, st, node):
        if f.key == f"{DSP}::integral_rms":
            got.append((list(args), dict(kwargs))); return X.var("RMS")
        return NotImplemented
    I.hooks["call"] = call
    I.hooks["lib"] = lambda I_, name, args, kw, st, n: (True if name == "numpy.isfinite" else NotImplemented)
    me = Obj("speckit/analysis.py::SpectrumResult", {"iscsd": False})

    def hook(kind, o, attr, v, st):
        if kind == "getattr":
            if attr == "f": return ArrParam("res.f")
            if attr == "asd": return ArrParam("res.asd")
            return Opaque(f"attribute {attr}")
        return NotImplemented
    me.hook = hook
    r = I.call_func(Func(key, fn), [me, (X.var("b0"), X.var("b1"))], {}, St(), None)
    if not got:
        # a re-implementation: look for the cancellation-prone difference of cumulative integrals
        src = " ".join(ast.unparse(fn).split())
        import re
        if re.search(r"cum\w*\[[^\]]+\]\s*-\s*cum\w*\[", src) or "cumulative_trapezoid" in src or "cumsum" in src:
            ctx.violated(rule, key, "the band RMS is computed as a difference of two cumulative integrals instead of integrating ASD^2 over the band: for steep (red) spectra the "
                         "difference cancels catastrophically and the method no longer equals the trapezoidal integral over the in-band grid points", where)
        else:
            ctx.unknown(rule, key, "get_rms does not delegate to integral_rms and its computation is not recognised", where)
        return
    args, kw = got[0]
    ok = len(args) >= 2 and isinstance(args[0], ArrParam) and args[0].name == "res.f" and isinstance(args[1], ArrParam) and args[1].name == "res.asd"
    (ctx.holds if ok else ctx.violated)(rule, key + "[arguments]", "integral_rms(self.f, self.asd, band)" if ok else f"integral_rms called with {args!r}", where)
    b = args[2] if len(args) > 2 else kw.get("pass_band")
    okb = False
    for _, leaf in pv_leaves(b):
        if isinstance(leaf, tuple) and len(leaf) == 2: okb = True
    (ctx.holds if okb else ctx.violated)(rule, key + "[band]", "the requested band (ordered) is passed on" if okb else f"band passed on is {b!r}", where)
    rx = to_x(r) if not isinstance(r, PV) else None
    okr = rx is not None and rx.eq(X.var("RMS"))
    if not okr:
        okr = all((to_x(l) is not None and to_x(l).eq(X.var("RMS"))) for _, l in pv_leaves(r))
    (ctx.holds if okr else ctx.violated)(rule, key + "[result]", "the integral is returned unchanged" if okr else f"result is {r!r}"[:160], where)


# ---------------------------------------------------------------------------- powers of the sample index are taken in floating point
_INT_FUNCS = {"len", "int", "range", "round"}
_FLOAT_CTORS = {"float", "float64", "linspace", "double", "float_"}


def _is_floatish(e):
    s_ = ast.unparse(e)
    return any(t in s_ for t in ("float", "double", "np.float64", "'f8'", '"f8"', "'d'"))


def _intness(fn):
    """ordered pass over the function: names bound to integer-valued scalars/arrays ('int'), to floating ones ('float'), else unknown."""
    kind = {}

    def k(e):
        if isinstance(e, ast.Constant):
            return "int" if isinstance(e.value, int) and not isinstance(e.value, bool) else "float" if isinstance(e.value, float) else None
        if isinstance(e, ast.Name): return kind.get(e.id)
        if isinstance(e, ast.Attribute) and e.attr in ("size", "ndim"): return "int"
        if isinstance(e, ast.Subscript) and isinstance(e.value, ast.Attribute) and e.value.attr == "shape": return "int"
        if isinstance(e, ast.UnaryOp): return k(e.operand)
        if isinstance(e, ast.BinOp):
            a, b = k(e.left), k(e.right)
            if isinstance(e.op, ast.Div): return "float"
            if "float" in (a, b): return "float"
            if a == "int" and b == "int": return "int"
            return None
        if isinstance(e, ast.Call):
            f = ast.unparse(e.func).split(".")[-1]
            dt = next((kw.value for kw in e.keywords if kw.arg == "dtype"), None)
            if f == "astype" and e.args: return "float" if _is_floatish(e.args[0]) else ("int" if "int" in ast.unparse(e.args[0]) else None)
            if dt is not None: return "float" if _is_floatish(dt) else ("int" if "int" in ast.unparse(dt) else None)
            if f in _INT_FUNCS: return "int"
            if f in _FLOAT_CTORS: return "float"
            if f == "arange":
                ks = [k(a) for a in e.args]
                return "int" if ks and all(x == "int" for x in ks) else ("float" if "float" in ks else None)
            if f in ("asarray", "array", "ascontiguousarray", "copy", "abs", "reshape", "ravel") and e.args: return k(e.args[0])
            if f in ("reshape", "ravel", "copy") and isinstance(e.func, ast.Attribute): return k(e.func.value)
        return None

    order = sorted((n for n in ast.walk(fn) if isinstance(n, (ast.Assign, ast.AugAssign, ast.AnnAssign))), key=lambda n: (n.lineno, n.col_offset))
    for n in order:
        tg = n.targets if isinstance(n, ast.Assign) else [n.target]
        if n.value is None: continue
        v = k(n.value) if not isinstance(n, ast.AugAssign) else k(ast.BinOp(n.target, n.op, n.value))
        for t in tg:
            if isinstance(t, ast.Name):
                # several bindings: integer only if every binding is integer
                kind[t.id] = v if (t.id not in kind or kind[t.id] == v) else None
    return kind, k


def check_powers_in_float(ctx, fname="polynomial_detrend", rule="R6-powers-in-floating-point", max_order=5):
    """np.vander / ** / np.power of an integer sample axis are evaluated in int64 and wrap around silently once (n-1)**p > 2**63 (order 5: n > 6208):
    the highest-degree basis column is garbage and polynomials of that degree are no longer removed. np.polyfit / np.polyval convert to float first."""
    repo = ctx.repo
    key = f"{DSP}::{fname}"; fn = repo.get(key); where = repo.where(key, fn)
    kind, k = _intness(fn)
    sites = 0; bad = 0
    for n in ast.walk(fn):
        base = expo = None
        if isinstance(n, ast.Call):
            f = ast.unparse(n.func).split(".")[-1]
            if f == "vander" and n.args: base, expo = n.args[0], "columns"
            elif f in ("power", "float_power") and len(n.args) >= 2 and f == "power": base, expo = n.args[0], n.args[1]
        elif isinstance(n, ast.BinOp) and isinstance(n.op, ast.Pow): base, expo = n.left, n.right
        if base is None: continue
        if k(base) != "int": continue
        small = isinstance(expo, ast.Constant) and isinstance(expo.value, int) and expo.value <= 2
        if expo != "columns" and (small or k(expo) == "float"): continue
        if expo != "columns" and not isinstance(base, ast.Name): continue          # scalar integer arithmetic on lengths (n ** 2 of a python int never wraps)
        if expo != "columns" and kind.get(getattr(base, "id", None)) == "int" and not _is_array_name(fn, base.id): continue
        sites += 1; bad += 1
        ctx.violated(rule, f"{key}[{' '.join(ast.unparse(n).split())[:60]}]", f"powers of the integer sample axis '{ast.unparse(base)}' are computed in int64: for orders up to {max_order} they wrap "
                     f"around once (n-1)**p exceeds 2**63-1 (p=5: records longer than 6208 samples), so the top basis column is garbage and degree-p polynomials are not removed", f"{DSP}:{n.lineno}")
    if not bad:
        ctx.holds(rule, key, "no integer-typed sample axis is raised to a power (np.polyfit / np.polyval and float abscissae work in double precision)", where)


def _is_array_name(fn, name):
    for n in ast.walk(fn):
        if isinstance(n, ast.Assign) and any(isinstance(t, ast.Name) and t.id == name for t in n.targets) and isinstance(n.value, ast.Call):
            if ast.unparse(n.value.func).split(".")[-1] in ("arange", "asarray", "array", "indices"): return True
    return False
